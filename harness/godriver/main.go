package main

import (
	"fmt"
	"os"
	"strconv"
)

var gens map[string]func(*Ctx)

func init() {
	gens = map[string]func(*Ctx){
		"C01": genC01, "C02": genC02, "C03": genC03, "C04": genC04, "C05": genC05, "C06": genC06, "C07": genC07,
		"C08": genC08, "C09": genC09, "C10": genC10, "C11": genC11, "C12": genC12, "C15": genC15,
	}
}

func newCtx(prop, tier string, seed uint64) *Ctx {
	return &Ctx{prop: prop, tier: tier, seed: seed, memo: map[string]string{}, pendset: map[string]bool{}, failset: map[string]bool{}, stats: map[string]int{}}
}

func main() {
	if len(os.Args) >= 2 && os.Args[1] == "c14child" {
		c14child(os.Args[2:])
		return
	}
	if len(os.Args) >= 2 && os.Args[1] == "c03deep" {
		deepChild(os.Args[2:])
		return
	}
	if len(os.Args) >= 2 && os.Args[1] == "aliaschild" {
		aliasChild()
		return
	}
	if len(os.Args) >= 2 && os.Args[1] == "c13cold" {
		coldChild(os.Args[2:])
		return
	}
	if len(os.Args) >= 2 && os.Args[1] == "eval" { // eval: protocol lines on stdin -> answers on stdout (replays)
		evalStdin()
		return
	}
	if len(os.Args) != 5 {
		fmt.Fprintln(os.Stderr, "usage: godriver <property> <quick|thorough> <seed> <outdir> | godriver eval")
		os.Exit(2)
	}
	prop, tier, out := os.Args[1], os.Args[2], os.Args[4]
	seed, err := strconv.ParseUint(os.Args[3], 10, 64)
	must(err)
	c := newCtx(prop, tier, seed)
	switch prop {
	case "C13":
		runC13(c, out)
		return
	case "C14":
		runC14(c, out)
		return
	}
	g, ok := gens[prop]
	if !ok {
		fmt.Fprintln(os.Stderr, "godriver: unknown property", prop)
		os.Exit(2)
	}
	c.run(g)
	extra := c12extra
	if prop == "C03" {
		extra = map[string]interface{}{"partial_operation_sites": panicSiteFacts(repoDir())}
	}
	c.write(out, extra)
}
