//go:build verif

package main

import (
	"fmt"
	"sort"
	"strings"

	"github.com/github/go-spdx/v2/spdxexp"
)

const hooksAvailable = true

// evalExpand: the OR-of-ANDs expansion (unexported node.expand, reached through the guarded hook
// spdxexp/verif_hooks.go), as a sorted list of sorted alternatives
func evalExpand(e string) string {
	alts, err := spdxexp.VerifExpand(e)
	if err != nil {
		return "E E"
	}
	var out []string
	for _, a := range alts {
		t := append([]string(nil), a...)
		sort.Strings(t)
		h := make([]string, len(t))
		for i, x := range t {
			h[i] = hx(x)
		}
		out = append(out, strings.Join(h, ","))
	}
	sort.Strings(out)
	return "E " + strings.Join(out, "|")
}

// evalTokens: scan() - role letter + hex value per token
func evalTokens(e string) string {
	roles, values, err := spdxexp.VerifTokens(e)
	if err != nil {
		return "T E"
	}
	if len(roles) == 0 {
		return "T -"
	}
	out := make([]string, len(roles))
	for i := range roles {
		out[i] = string(roles[i]) + hx(values[i])
	}
	return "T " + strings.Join(out, ",")
}

// evalTree: parse() - the tree in node.string() notation
func evalTree(e string) string {
	s, err := spdxexp.VerifTree(e)
	if err != nil {
		return "P E"
	}
	return "P " + hx(s)
}

// evalRange: getLicenseRange()
func evalRange(id string) string {
	g, v, ok := spdxexp.VerifRange(id)
	if !ok {
		return "N none"
	}
	return fmt.Sprintf("N %d %d", g, v)
}

// evalAllowed: stringsToNodes + sortAndDedup as Satisfies uses them
func evalAllowed(l []string) string {
	out, err := spdxexp.VerifAllowed(l)
	if err != nil {
		return "K E"
	}
	return "K " + hxl(out)
}
