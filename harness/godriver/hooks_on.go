//go:build verif

package main

import (
	"sort"
	"strings"

	"github.com/github/go-spdx/v2/spdxexp"
)

// evalExpand: the OR-of-ANDs expansion (unexported node.expand, reached through the guarded hook
// spdxexp/verif_hooks.go), as a sorted list of sorted alternatives
func evalExpand(e string) string {
	alts, err := spdxexp.VerifExpand(e)
	if err != nil {
		return "E E"
	}
	var out []string
	for _, a := range alts {
		t := append([]string(nil), a...)
		sort.Strings(t)
		h := make([]string, len(t))
		for i, x := range t {
			h[i] = hx(x)
		}
		out = append(out, strings.Join(h, ","))
	}
	sort.Strings(out)
	return "E " + strings.Join(out, "|")
}
