package main

import (
	"bytes"
	_ "embed"
	"go/ast"
	"go/parser"
	"go/printer"
	"go/token"
	"path/filepath"
	"sort"
	"strings"
)

// panicSites: the syntactically partial operations of package spdxexp - index and slice expressions, pointer
// dereferences, type assertions without ", ok", divisions, explicit panic / Must* calls - one line per site,
// "file: func: kind: expression" (no line numbers, so moving code does not change the list).  In the Coq model each
// of them is either a Panic branch proved unreachable (C03) or an operation that cannot fail (index into a map,
// slice of a string at bounds just computed ...).  The list for the tree the model was written against is committed
// next to this file; a site that is not on it is an operation the model has never been read against.  Evidence
// only: every verdict of C03 comes from recover() around the real calls and from the theorems.
//
//go:embed panicsites_baseline.txt
var panicSitesBaseline string

func panicSites(repo string) []string {
	fs, _ := filepath.Glob(filepath.Join(repo, "spdxexp", "*.go"))
	sort.Strings(fs)
	fset := token.NewFileSet()
	var out []string
	text := func(n ast.Node) string {
		var b bytes.Buffer
		_ = printer.Fprint(&b, fset, n)
		s := strings.Join(strings.Fields(b.String()), " ")
		if len(s) > 90 {
			s = s[:90] + "..."
		}
		return s
	}
	typeNames := map[string]bool{}
	for _, f := range fs {
		if af, err := parser.ParseFile(token.NewFileSet(), f, nil, 0); err == nil {
			for _, d := range af.Decls {
				if g, ok := d.(*ast.GenDecl); ok && g.Tok == token.TYPE {
					for _, sp := range g.Specs {
						typeNames[sp.(*ast.TypeSpec).Name.Name] = true
					}
				}
			}
		}
	}
	for _, f := range fs {
		b := filepath.Base(f)
		if strings.HasSuffix(b, "_test.go") || b == "verif_hooks.go" || b == "test_helper.go" {
			continue
		}
		af, err := parser.ParseFile(fset, f, nil, 0)
		if err != nil {
			out = append(out, b+": does not parse")
			continue
		}
		for _, d := range af.Decls {
			fd, ok := d.(*ast.FuncDecl)
			if !ok || fd.Body == nil {
				continue
			}
			name := fd.Name.Name
			if fd.Recv != nil && len(fd.Recv.List) > 0 {
				name = text(fd.Recv.List[0].Type) + "." + name
			}
			add := func(kind string, n ast.Node) { out = append(out, b+": "+name+": "+kind+": "+text(n)) }
			commaOK := map[ast.Node]bool{}
			ast.Inspect(fd.Body, func(n ast.Node) bool {
				switch x := n.(type) {
				case *ast.AssignStmt:
					if len(x.Lhs) == 2 && len(x.Rhs) == 1 {
						commaOK[x.Rhs[0]] = true // v, ok := m[k] / x.(T)
					}
				case *ast.IndexExpr:
					if !commaOK[x] {
						add("index", x)
					}
				case *ast.SliceExpr:
					add("slice", x)
				case *ast.StarExpr:
					if id, ok := x.X.(*ast.Ident); !ok || !typeNames[id.Name] { // *T in a type position is not a dereference
						add("deref", x)
					}
				case *ast.TypeAssertExpr:
					if !commaOK[x] && x.Type != nil {
						add("assert", x)
					}
				case *ast.BinaryExpr:
					if x.Op == token.QUO || x.Op == token.REM {
						add("divide", x)
					}
				case *ast.CallExpr:
					switch fn := x.Fun.(type) {
					case *ast.Ident:
						if fn.Name == "panic" || fn.Name == "make" {
							add(fn.Name, x)
						}
					case *ast.SelectorExpr:
						if strings.HasPrefix(fn.Sel.Name, "Must") {
							add("must", x)
						}
					}
				}
				return true
			})
		}
	}
	sort.Strings(out)
	return out
}

// panicSiteFacts: the current list against the committed one.
func panicSiteFacts(repo string) map[string]interface{} {
	cur := panicSites(repo)
	base := map[string]int{}
	for _, l := range strings.Split(panicSitesBaseline, "\n") {
		if l = strings.TrimSpace(l); l != "" && !strings.HasPrefix(l, "#") {
			base[l]++
		}
	}
	now := map[string]int{}
	for _, l := range cur {
		now[l]++
	}
	var added, removed []string
	for l, n := range now {
		for i := base[l]; i < n; i++ {
			added = append(added, l)
		}
	}
	for l, n := range base {
		for i := now[l]; i < n; i++ {
			removed = append(removed, l)
		}
	}
	sort.Strings(added)
	sort.Strings(removed)
	kinds := map[string]int{}
	for _, l := range cur {
		f := strings.SplitN(l, ": ", 4)
		if len(f) >= 3 {
			kinds[f[2]]++
		}
	}
	return map[string]interface{}{
		"sites_in_this_tree": len(cur), "by_kind": kinds,
		"sites_not_on_the_committed_list": added, "committed_sites_no_longer_present": removed,
		"note": "index / slice / dereference / assertion / division / make / Must* / panic expressions of spdxexp (go/ast, no line numbers); the committed list is the tree the Coq model's Panic branches were read against; evidence only",
	}
}
