package main

import (
	"fmt"
	"strings"
)

func (c *Ctx) thorough() bool { return c.tier == "thorough" }

// truth of a leaf under an allowed list, computed from the real package one term at a time
func (c *Ctx) leafTruth(l string, A []string) (bool, bool) {
	known := true
	for _, a := range A {
		switch c.S(l, []string{a}) {
		case "T":
			return true, true
		case "F":
		default:
			known = false
		}
	}
	return false, known
}

func (c *Ctx) checkBoolean(t *Tree, expr string, A []string) {
	// the property quantifies over valid expressions and valid allowed lists
	allValid := c.V(expr) == "1"
	for _, a := range A {
		if c.V(a) != "1" {
			allValid = false
		}
	}
	r := c.S(expr, A)
	if !allValid {
		for _, l := range uniq(t.leaves()) {
			c.leafTruth(l, A)
		}
		return
	}
	if r == unknown {
		// still ask for the single-term calls so that they are batched
		for _, l := range uniq(t.leaves()) {
			c.leafTruth(l, A)
		}
		return
	}
	known := true
	want := t.eval(func(l string) bool {
		v, k := c.leafTruth(l, A)
		if !k {
			known = false
		}
		return v
	})
	if !known {
		return
	}
	exp := "F"
	if want {
		exp = "T"
	}
	if r != exp {
		c.fail("Satisfies", map[string]interface{}{"expression": expr, "allowed": A}, r, exp,
			"Boolean value of the harness's own tree under v(term) = OR_a Satisfies(term,[a]) on the real package")
	}
}

// ---------------- C01 ----------------
func genC01(c *Ctx) {
	N := 5
	labelings := 1
	if c.thorough() {
		N = 6
		labelings = 3
	}
	for n := 1; n <= N; n++ {
		for _, sh := range allTrees(n) {
			// (a) distinct simple leaves, every truth assignment
			i := 0
			t := label(sh, simplePool, &i)
			ls := uniq(t.leaves())
			for _, style := range []int{0, 1, 3, 4} {
				if style >= 3 && n > 4 && !c.thorough() {
					continue
				}
				expr := t.render(style, c.rng)
				c.count(fmt.Sprintf("trees_leaves_%d", n))
				for _, A := range subsets(ls) {
					c.checkBoolean(t, expr, A)
				}
			}
			c.sample(t.render(0, c.rng))
			c.E(t.render(0, c.rng)) // auxiliary: the retained expand() against its model (not an observable of the API)
			// (b) seeded labelings from the full term pool; allowed lists from related spellings
			for k := 0; k < labelings; k++ {
				var lab []string
				for j := 0; j < n; j++ {
					lab = append(lab, c.rng.Pick(leafPool))
				}
				i = 0
				t2 := label(sh, lab, &i)
				var cand []string
				for _, l := range uniq(t2.leaves()) {
					rel := related(l)
					cand = append(cand, rel[c.rng.Intn(len(rel))])
				}
				cand = uniq(append(cand, c.rng.Pick(leafPool)))
				if len(cand) > 4 {
					cand = cand[:4]
				}
				expr := t2.render(c.rng.Intn(5), c.rng)
				for _, A := range subsets(cand) {
					c.checkBoolean(t2, expr, A)
				}
			}
		}
	}
	// (c) leaves that are related spellings of one or two base terms (same id with / without '+', '-only',
	// with / without an exception, re-cased), so that one expression holds terms the allowed list must tell apart
	fam := 250
	if c.thorough() {
		fam = 4000
	}
	for k := 0; k < fam; k++ {
		n := 2 + c.rng.Intn(4)
		sh := randTree(c.rng, n)
		bases := [][]string{related(c.rng.Pick(leafPool)), related(c.rng.Pick(leafPool))}
		var lab []string
		for j := 0; j < n; j++ {
			b := bases[c.rng.Intn(4)/3]
			lab = append(lab, b[c.rng.Intn(len(b))])
		}
		i := 0
		t := label(sh, lab, &i)
		cand := append(append([]string{}, bases[0]...), bases[1]...)
		cand = c.rng.Shuffle(uniq(cand))
		if len(cand) > 4 {
			cand = cand[:4]
		}
		expr := t.render(c.rng.Intn(5), c.rng)
		c.count("related_leaf_trees")
		for _, A := range subsets(cand) {
			c.checkBoolean(t, expr, A)
		}
	}
	deep := 150
	if c.thorough() {
		deep = 3000
	}
	for k := 0; k < deep; k++ {
		n := 7 + c.rng.Intn(8)
		sh := randTree(c.rng, n)
		var lab []string
		for j := 0; j < n; j++ {
			lab = append(lab, c.rng.Pick(leafPool))
		}
		i := 0
		t := label(sh, lab, &i)
		expr := t.render(c.rng.Intn(5), c.rng)
		c.count("deep_trees")
		for q := 0; q < 4; q++ {
			var A []string
			for _, l := range uniq(t.leaves()) {
				if c.rng.Intn(2) == 0 {
					rel := related(l)
					A = append(A, rel[c.rng.Intn(len(rel))])
				}
			}
			if len(A) == 0 {
				A = []string{"Zlib"}
			}
			c.checkBoolean(t, expr, A)
		}
	}
	// (d) both terms of a confusable pair in one expression, against lists that tell them apart
	for _, t := range confusableTrees() {
		cand := confusableAllowed(t)
		relevant := cand
		if len(relevant) > 5 {
			relevant = relevant[:5]
		}
		expr := t.render(0, c.rng)
		c.count("confusable_pair_trees")
		for _, A := range subsets(relevant) {
			c.checkBoolean(t, expr, A)
		}
		for _, a := range cand {
			c.checkBoolean(t, expr, []string{a})
			c.checkBoolean(t, expr, []string{a, "Zlib"})
			c.checkBoolean(t, expr, []string{"0BSD", a})
		}
	}
	// (e) scale: long chains, deep nests, long allowed lists, long reference names
	for _, t := range scaleTrees(c.rng, c.thorough()) {
		expr := t.render(c.rng.Intn(2), c.rng)
		c.count("scale_trees")
		ls := uniq(t.leaves())
		for q := 0; q < 3; q++ {
			var A []string
			for _, l := range ls {
				if c.rng.Intn(3) != 0 {
					A = append(A, l)
				}
			}
			if len(A) == 0 {
				A = []string{"Unlicense"}
			}
			c.checkBoolean(t, expr, A)
		}
		var long []string
		for i := 0; i < 150; i++ {
			long = append(long, fmt.Sprintf("LicenseRef-n%d", i))
		}
		long = append(long, ls[0])
		c.checkBoolean(t, expr, long)
		for _, A := range scaleAssignments(t, c.rng)[:5] {
			c.checkBoolean(t, expr, A)
		}
	}
	sz := []int{2, 17, 33, 65, 101, 130, 257}
	if c.thorough() {
		sz = append(sz, 400, 513, 1025)
	}
	for _, t := range distinctChains(sz) {
		expr := t.render(0, c.rng)
		c.count("distinct_chains")
		for _, A := range scaleAssignments(t, c.rng) {
			c.checkBoolean(t, expr, A)
		}
	}
	// (h) long allowed lists (more than 8, 16, 32 entries) holding several variants of the terms' ids: X, X+, X WITH e
	lfill := []string{"Zlib", "0BSD", "Unlicense", "WTFPL", "X11", "NCSA", "PostgreSQL", "Beerware", "Artistic-2.0", "BSL-1.0", "CC0-1.0", "EPL-2.0",
		"OFL-1.1", "Python-2.0", "Ruby", "Vim", "curl", "LicenseRef-q", "AFL-3.0", "CECILL-2.1", "EUPL-1.2", "Libpng", "IJG", "HPND", "Sleepycat", "W3C", "Xnet", "ZPL-2.1"}
	for _, x := range []string{"MIT", "ISC", "BSD-3-Clause", "Apache-2.0", "GPL-2.0-only", "MPL-2.0"} {
		variants := []string{x, x + "+", x + " WITH Classpath-exception-2.0", x + " WITH Bison-exception-2.2", x + "+ WITH Classpath-exception-2.0"}
		for _, n := range []int{9, 17, 40} {
			for rep := 0; rep < 4; rep++ {
				var A []string
				for _, v := range variants {
					if c.rng.Intn(3) != 0 {
						A = append(A, v)
					}
				}
				for len(A) < n {
					A = append(A, c.rng.Pick(lfill))
				}
				A = c.rng.Shuffle(A)
				c.count("variant_lists")
				for _, v := range variants {
					c.checkBoolean(leaf(v), v, A)
				}
				t := or(and(leaf(variants[0]), leaf(variants[2])), leaf(variants[3]))
				c.checkBoolean(t, t.render(0, c.rng), A)
			}
		}
	}
	// (g) twins: two sub-expressions over the same three terms, every pair, under AND / OR and under a fresh term
	tw := twinTrees([]string{"MIT", "ISC", "Apache-2.0"})
	subs := subsets([]string{"MIT", "ISC", "Apache-2.0"})
	for _, E := range tw {
		for _, F := range tw {
			for _, op := range []byte{'A', 'O'} {
				t := &Tree{Op: op, L: E, R: F}
				expr := t.render(c.rng.Intn(2), c.rng)
				c.count("twin_pairs")
				for _, A := range subs {
					c.checkBoolean(t, expr, A)
				}
				if c.rng.Intn(4) == 0 || c.thorough() {
					w := and(leaf("Zlib"), t)
					if c.rng.Intn(2) == 0 {
						w = or(t, and(leaf("Zlib"), leaf("0BSD")))
					}
					we := w.render(0, c.rng)
					for _, A := range subs {
						c.checkBoolean(w, we, append([]string{"Zlib"}, A...))
					}
				}
			}
		}
	}
	// four terms: seeded pairs
	tw4 := twinTrees([]string{"MIT", "ISC", "Zlib", "LicenseRef-x"})
	subs4 := subsets([]string{"MIT", "ISC", "Zlib", "LicenseRef-x"})
	n4 := 1500
	if c.thorough() {
		n4 = 20000
	}
	for k := 0; k < n4; k++ {
		E, F := tw4[c.rng.Intn(len(tw4))], tw4[c.rng.Intn(len(tw4))]
		op := byte('A')
		if c.rng.Intn(2) == 0 {
			op = 'O'
		}
		t := &Tree{Op: op, L: E, R: F}
		expr := t.render(0, c.rng)
		for q := 0; q < 3; q++ {
			c.checkBoolean(t, expr, subs4[c.rng.Intn(len(subs4))])
		}
	}
	// (f) seeded deep trees (6..12 leaves, nesting depth 3+), seeded assignments
	nd := 1500
	if c.thorough() {
		nd = 15000
	}
	for _, t := range deepTrees(c.rng, nd) {
		expr := t.render(c.rng.Intn(2), c.rng)
		c.count("deep_trees")
		ls := uniq(t.leaves())
		for q := 0; q < 4; q++ {
			var A []string
			for _, l := range ls {
				if c.rng.Intn(2) == 0 {
					A = append(A, l)
				}
			}
			if len(A) == 0 {
				A = []string{"CC0-1.0"}
			}
			c.checkBoolean(t, expr, A)
		}
	}
	longRef := "LicenseRef-" + strings.Repeat("a", 300)
	c.checkBoolean(or(leaf(longRef), leaf("MIT")), longRef+" OR MIT", []string{longRef})
	c.checkBoolean(or(leaf(longRef), leaf("MIT")), longRef+" OR MIT", []string{longRef + "b"})
	// witnesses of DESIGN section 1 (corpus)
	for _, w := range corpusSat {
		c.checkBoolean(w.t, w.t.render(0, c.rng), w.A)
	}
}

type satW struct {
	t *Tree
	A []string
}

var corpusSat = []satW{
	{or(leaf("MIT"), leaf("LicenseRef-x")), []string{"LicenseRef-x"}},
	{or(and(leaf("MIT"), or(leaf("Apache-2.0"), leaf("GPL-2.0-only"))), leaf("ISC")), []string{"MIT", "GPL-2.0+"}},
	{or(leaf("MIT"), and(leaf("ISC"), or(leaf("Apache-2.0"), leaf("BSD-3-Clause")))), []string{"ISC", "BSD-3-Clause"}},
	{and(and(and(leaf("MIT"), leaf("ISC")), leaf("Apache-2.0")), or(leaf("BSD-3-Clause"), leaf("BSD-2-Clause"))), []string{"MIT", "ISC", "Apache-2.0", "BSD-3-Clause"}},
	{or(and(or(leaf("LicenseRef-a"), leaf("LicenseRef-b")), leaf("MIT")), leaf("ISC")), []string{"MIT"}},
}

// ---------------- C02 ----------------
type pos struct{ fam, grp int }

func tablePos() map[string]pos {
	m := map[string]pos{}
	for i, fam := range tRanges {
		for j, g := range fam {
			for _, x := range g {
				if _, ok := m[x]; !ok {
					m[x] = pos{i, j}
				}
			}
		}
	}
	return m
}

func term(id string, plus bool, exc string) string {
	s := id
	if plus {
		s += "+"
	}
	if exc != "" {
		s += " WITH " + exc
	}
	return s
}

func stripOrLater(x string) string { return strings.TrimSuffix(x, "-or-later") }

func genC02(c *Ctx) {
	P := tablePos()
	excs := []string{"", "Bison-exception-2.2", "Classpath-exception-2.0"}
	expect := func(x string, px bool, ex string, y string, py bool, ey string) bool {
		if ex != ey {
			return false
		}
		if x == y {
			return true
		}
		a, oka := P[x]
		b, okb := P[y]
		if !oka || !okb || a.fam != b.fam {
			return false
		}
		switch {
		case !px && !py:
			return a.grp == b.grp
		case px && py:
			return true
		case px: // x+ : y must be same or later
			return b.grp >= a.grp
		default:
			return a.grp >= b.grp
		}
	}
	check := func(x string, px bool, ex string, y string, py bool, ey string) {
		a, b := term(x, px, ex), term(y, py, ey)
		r := c.S(a, []string{b})
		rr := c.S(b, []string{a})
		if r == unknown || rr == unknown {
			return
		}
		c.count("pairs")
		exp := "F"
		if expect(x, px, ex, y, py, ey) {
			exp = "T"
		}
		if r != exp {
			c.fail("Satisfies", map[string]interface{}{"expression": a, "allowed": []string{b}}, r, exp,
				"matching rule of the property text evaluated on the positions of both ids in LicenseRanges() as shipped (same id, or same family and: no + equal version / one + other same-or-later / both +; equal exceptions)")
		}
		if r != rr {
			c.fail("Satisfies", map[string]interface{}{"expression": a, "allowed": []string{b}, "swapped": true}, r+" vs "+rr, "equal", "symmetry of the matching relation")
		}
	}
	// ids usable structurally: listed, id words, in list casing, not carrying a suffix that renormalises
	plainID := func(x string) bool {
		return isIDWord(x) && tListed[x] && !strings.HasSuffix(x, "-or-later")
	}
	var fams [][]string
	for _, fam := range tRanges {
		var ids []string
		for _, g := range fam {
			for _, x := range g {
				if plainID(x) {
					ids = append(ids, x)
				}
			}
		}
		fams = append(fams, ids)
	}
	for fi, ids := range fams {
		for _, x := range ids {
			for _, y := range ids {
				for m := 0; m < 4; m++ {
					ex, ey := "", ""
					if c.thorough() || c.rng.Intn(6) == 0 {
						ex, ey = excs[c.rng.Intn(3)], excs[c.rng.Intn(3)]
					}
					check(x, m&1 == 1, ex, y, m&2 == 2, ey)
				}
			}
			// cross family / unlisted-in-table
			for k := 0; k < 3; k++ {
				o := fams[(fi+1+c.rng.Intn(len(fams)-1))%len(fams)]
				if len(o) > 0 {
					y := o[c.rng.Intn(len(o))]
					check(x, c.rng.Intn(2) == 0, "", y, c.rng.Intn(2) == 0, "")
				}
			}
			check(x, true, "", "MIT", true, "")
		}
	}
	if c.thorough() {
		var firsts []string
		for _, ids := range fams {
			firsts = append(firsts, ids...)
		}
		for _, x := range firsts {
			for _, y := range firsts {
				m := c.rng.Intn(4)
				check(x, m&1 == 1, "", y, m&2 == 2, "")
			}
		}
	}
	// exception on one side only, or different exceptions: deprecated ids (some carry an exception in their NAME) and
	// a sample of active ids against GNU ids WITH every listed exception
	gnu := []string{"GPL-2.0-only", "GPL-3.0-only", "GPL-2.0-or-later", "LGPL-2.0-or-later", "GPL-3.0"}
	var left []string
	for _, x := range tDeprec {
		if plainID(x) {
			left = append(left, x)
		}
	}
	nAct := 12
	if c.thorough() {
		nAct = 120
	}
	for k := 0; k < nAct; k++ {
		if x := tActive[c.rng.Intn(len(tActive))]; plainID(x) {
			left = append(left, x)
		}
	}
	for _, x := range left {
		for _, e := range tExcs {
			y := gnu[c.rng.Intn(len(gnu))]
			check(x, c.rng.Intn(2) == 0, "", y, false, e)
			check(x, false, e, x, c.rng.Intn(2) == 0, "")
			if strings.Contains(strings.ToLower(x), "with") || strings.Contains(x, "eCos") || strings.Contains(x, "wxWindows") {
				for _, y2 := range gnu {
					check(x, false, "", y2, false, e)
					check(x, true, "", y2, false, e)
				}
			}
		}
	}
	// the same id on both sides, '+' on neither / either / both, exceptions none / equal / different: ids outside every
	// range too (the same id matches itself whatever the '+'; the exception must be identical)
	var sameIDs []string
	sameIDs = append(sameIDs, "MIT", "ISC", "Zlib", "0BSD", "BSD-3-Clause", "curl", "X11", "GFDL-1.1-invariants-only", "GFDL-1.3-no-invariants-only", "Apache-2.0", "GPL-2.0-only", "MPL-2.0", "OLDAP-2.8")
	for _, x := range tDeprec {
		if plainID(x) {
			sameIDs = append(sameIDs, x)
		}
	}
	for k := 0; k < 25; k++ {
		if x := tActive[c.rng.Intn(len(tActive))]; plainID(x) {
			sameIDs = append(sameIDs, x)
		}
	}
	for _, x := range uniq(sameIDs) {
		for _, ex := range excs {
			for _, ey := range excs {
				for m := 0; m < 4; m++ {
					check(x, m&1 == 1, ex, x, m&2 == 2, ey)
				}
			}
		}
	}
	// the exception is compared like the id: in any letter case (list casing on one side, re-cased on the other)
	for _, e := range tExcs {
		for _, rc := range []string{strings.ToLower(e), strings.ToUpper(e), caseMix(c.rng, e)} {
			for _, pr := range [][2]string{{"GPL-2.0-only", "GPL-2.0-only"}, {"LGPL-2.1+", "LGPL-3.0-only"}, {"MIT", "MIT"}} {
				a, b := pr[0]+" WITH "+rc, pr[1]+" WITH "+e
				for _, q := range [][2]string{{a, b}, {b, a}} {
					if r := c.S(q[0], []string{q[1]}); r != unknown && r != "T" {
						c.fail("Satisfies", map[string]interface{}{"expression": q[0], "allowed": []string{q[1]}}, r, "T", "identical exception (ids on the SPDX lists are compared in any letter case), matching licenses")
					}
				}
				c.count("exception_case_pairs")
			}
		}
	}
	// every listed id against the listed ids that share its base (X, X-only, X-or-later): inside or outside the table
	stripSfx := func(x string) string { return strings.TrimSuffix(strings.TrimSuffix(x, "-only"), "-or-later") }
	groups := map[string][]string{}
	for _, x := range append(append([]string{}, tActive...), tDeprec...) {
		if isIDWord(x) {
			groups[stripSfx(x)] = append(groups[stripSfx(x)], x)
		}
	}
	var gkeys []string
	for k, g := range groups {
		if len(g) > 1 {
			gkeys = append(gkeys, k)
		}
	}
	sortStrings(gkeys)
	for _, k := range gkeys {
		for _, x := range groups[k] {
			for _, y := range groups[k] {
				for m := 0; m < 4; m++ {
					a, b := term(x, m&1 == 1, ""), term(y, m&2 == 2, "")
					r, rr := c.S(a, []string{b}), c.S(b, []string{a})
					if r == unknown || rr == unknown {
						continue
					}
					c.count("same_base_pairs")
					if r != rr {
						c.fail("Satisfies", map[string]interface{}{"expression": a, "allowed": []string{b}, "swapped": true}, r+" vs "+rr, "equal", "symmetry of the matching relation")
					}
					// outside the family table only the same id (with '-or-later' read as '+') matches
					_, inx := P[stripOrLater(x)]
					_, iny := P[stripOrLater(y)]
					if !inx && !iny {
						exp := "F"
						if stripOrLater(x) == stripOrLater(y) {
							exp = "T"
						}
						if r != exp && r != "E" {
							c.fail("Satisfies", map[string]interface{}{"expression": a, "allowed": []string{b}}, r, exp, "ids outside LicenseRanges() match only the same id ('-or-later' counting as '+')")
						}
					}
				}
			}
		}
	}
	// reflexivity + never license~ref, over every listed license id and a few refs
	refs := []string{"LicenseRef-x", "LicenseRef-X", "DocumentRef-d:LicenseRef-x", "DocumentRef-D:LicenseRef-x", "LicenseRef-MIT", "DocumentRef-MIT:LicenseRef-MIT"}
	all := append(append([]string{}, tActive...), tDeprec...)
	for _, x := range all {
		if !isIDWord(x) {
			continue
		}
		for _, px := range []bool{false, true} {
			a := term(x, px, "")
			if r := c.S(a, []string{a}); r != unknown && r != "T" {
				c.fail("Satisfies", map[string]interface{}{"expression": a, "allowed": []string{a}}, r, "T", "every valid term matches itself")
			}
		}
		rf := refs[c.rng.Intn(len(refs))]
		if r := c.S(x, []string{rf}); r != unknown && r != "F" {
			c.fail("Satisfies", map[string]interface{}{"expression": x, "allowed": []string{rf}}, r, "F", "a license never matches a LicenseRef")
		}
		if r := c.S(rf, []string{x}); r != unknown && r != "F" {
			c.fail("Satisfies", map[string]interface{}{"expression": rf, "allowed": []string{x}}, r, "F", "a license never matches a LicenseRef")
		}
	}
	for _, a := range refs {
		for _, b := range refs {
			exp := "F"
			if a == b {
				exp = "T"
			}
			if r := c.S(a, []string{b}); r != unknown && r != exp {
				c.fail("Satisfies", map[string]interface{}{"expression": a, "allowed": []string{b}}, r, exp, "LicenseRefs match iff LicenseRef id and DocumentRef are identical")
			}
		}
	}
	// '-or-later' counts as '+': X-or-later behaves as X+ against every family member
	for _, ids := range fams {
		for _, x := range ids {
			if strings.HasSuffix(x, "-only") {
				continue
			}
			for _, y := range ids {
				for _, py := range []bool{false, true} {
					b := term(y, py, "")
					r1, r2 := c.S(x+"-or-later", []string{b}), c.S(x+"+", []string{b})
					if r1 != unknown && r2 != unknown && r1 != "E" && r2 != "E" && r1 != r2 {
						c.fail("Satisfies", map[string]interface{}{"expression": x + "-or-later", "allowed": []string{b}, "versus_expression": x + "+"}, r1+" vs "+r2, "equal", "'-or-later' counts as '+'")
					}
				}
			}
		}
	}
}

// ---------------- C03 ----------------
func malformed(c *Ctx) []string {
	var out []string
	add := func(s string) { out = append(out, s) }
	// valid expressions: all trees <= 3 leaves over a mixed pool
	pool := []string{"MIT", "Apache-2.0-or-later", "GPL-2.0+ WITH Bison-exception-2.2", "LicenseRef-a", "DocumentRef-d:LicenseRef-a", "GPL-2.0-only"}
	var valid []string
	for n := 1; n <= 3; n++ {
		for _, sh := range allTrees(n) {
			var lab []string
			for j := 0; j < n; j++ {
				lab = append(lab, c.rng.Pick(pool))
			}
			i := 0
			t := label(sh, lab, &i)
			valid = append(valid, t.render(0, c.rng), t.render(1, c.rng))
		}
	}
	for _, p := range pool {
		valid = append(valid, p, "("+p+")")
	}
	valid = uniq(valid)
	tokInsert := []string{"(", ")", "AND", "OR", "WITH", "+", ":", "MIT", "FOO", "LicenseRef-", "DocumentRef-", "DocumentRef-a", "Bison-exception-2.2", "-or-later", "\t", "\xff", "é"}
	for _, v := range valid {
		// every byte prefix
		for i := 0; i <= len(v); i++ {
			add(v[:i])
		}
		toks := strings.Fields(strings.NewReplacer("(", " ( ", ")", " ) ", ":", " : ", "+", " + ").Replace(v))
		for i := range toks {
			d := append(append([]string{}, toks[:i]...), toks[i+1:]...)
			add(strings.Join(d, " "))
			dd := append(append(append([]string{}, toks[:i+1]...), toks[i]), toks[i+1:]...)
			add(strings.Join(dd, " "))
		}
		if c.thorough() || c.rng.Intn(4) == 0 {
			for i := 0; i <= len(toks); i++ {
				for _, x := range tokInsert {
					ins := append(append(append([]string{}, toks[:i]...), x), toks[i:]...)
					add(strings.Join(ins, " "))
				}
			}
		}
	}
	// fragments: every prefix and suffix of ids, suffix keywords and compound terms, alone and in frames (a lookup of
	// what is left after stripping "-only" / "-or-later" / a prefix may be handed an empty or one-byte string)
	for _, w := range []string{"GPL-2.0-only", "Apache-2.0-or-later", "LicenseRef-a", "DocumentRef-d:LicenseRef-a", "MIT WITH Bison-exception-2.2", "GPL-2.0+", "-only", "-or-later", "-ONLY", "--only", "-only-or-later"} {
		var frs []string
		for i := 0; i <= len(w); i++ {
			frs = append(frs, w[:i], w[i:])
		}
		for _, f := range uniq(frs) {
			for _, fr := range []string{"%s", "(%s)", "MIT AND %s", "%s AND MIT", "MIT WITH %s", "DocumentRef-a:%s", "%s+", "MIT OR (%s", "%s-only", "%s-or-later", "LicenseRef-%s", "%s WITH Bison-exception-2.2", "%s %s"} {
				if strings.Count(fr, "%s") == 2 {
					add(fmt.Sprintf(fr, f, f))
				} else {
					add(fmt.Sprintf(fr, f))
				}
			}
		}
	}
	// byte soup
	alpha := []string{" ", "\t", "(", ")", "+", ":", "\xc3\xa9", "\xff", "A", "-", ".", "\x00", "W", "I", "T", "H"}
	L := 3
	if c.thorough() {
		L = 4
	}
	var rec func(prefix string, d int)
	rec = func(prefix string, d int) {
		add(prefix)
		if d == L {
			return
		}
		for _, a := range alpha {
			rec(prefix+a, d+1)
		}
	}
	rec("", 0)
	for k := 0; k < 300; k++ {
		n := 5 + c.rng.Intn(8)
		s := ""
		for j := 0; j < n; j++ {
			s += c.rng.Pick(alpha)
		}
		add(s)
	}
	// long / deep
	big := 20000
	if c.thorough() {
		big = 100000
	}
	add(strings.Repeat("A", big))
	add(strings.Repeat(" ", big))
	add(strings.Repeat("(", big))
	add(strings.Repeat("(", big) + "MIT" + strings.Repeat(")", big))
	add(strings.Repeat("(", big) + "MIT" + strings.Repeat(")", big-1))
	add(strings.Repeat("MIT AND ", big/8) + "MIT")
	add(strings.Repeat("MIT AND ", big/8))
	add(strings.Repeat("MIT OR ", big/8) + "(")
	add("MIT" + strings.Repeat("+", big))
	add(strings.Repeat("Apache-2.0-or-later AND ", big/24) + "FOO")
	add("LicenseRef-" + strings.Repeat("a", big))
	add("DocumentRef-" + strings.Repeat("a", big))
	add("MIT WITH")
	add("MIT WITH ")
	add("DocumentRef-a")
	add("DocumentRef-a:")
	add("(")
	add("-or-later")
	add("MIT-or-later")
	add("x-or-later")
	add("+")
	return uniq(out)
}

func genC03(c *Ctx) {
	bad := func(api string, args interface{}, r string) {
		if strings.Contains(r, "PANIC") {
			c.fail(api, args, "panic", "a result or an error value", "recover() around the call")
		}
	}
	for _, s := range malformed(c) {
		c.count("strings")
		if len(s) < 40 {
			c.sample(s)
		}
		bad("ValidateLicenses", []string{s}, c.V(s))
		r, _ := c.X(s)
		bad("ExtractLicenses", s, r)
		bad("Satisfies", map[string]interface{}{"expression": s, "allowed": []string{"MIT"}}, c.S(s, []string{"MIT"}))
		bad("Satisfies", map[string]interface{}{"expression": "MIT", "allowed": []string{s}}, c.S("MIT", []string{s}))
		bad("Satisfies", map[string]interface{}{"expression": "MIT", "allowed": []string{"MIT", s}}, c.S("MIT", []string{"MIT", s}))
		bad("ValidateLicenses", []string{"MIT", s, s}, c.L([]string{"MIT", s, s}))
	}
	// the cases of the other properties (valid terms, pairs, trees), under the same oracle
	for _, p := range []string{"C01", "C02", "C06", "C07", "C15"} {
		sub := newCtx(p, "quick", c.seed)
		sub.memo = c.memo
		sub.pending, sub.pendset = c.pending, c.pendset
		sub.rng = &SM64{c.seed}
		gens[p](sub)
		c.pending, c.pendset = sub.pending, sub.pendset
	}
	if c.final {
		for l, r := range c.memo {
			if strings.ContainsAny(l[:1], "ETPNK") {
				continue // internal stages reached through the hooks are not the exported API
			}
			if strings.Contains(r, "PANIC") {
				c.fail("protocol line", l, "panic", "a result or an error value", "recover() around the call")
			}
		}
	}
	deepProbes(c)
	bad("Satisfies", map[string]interface{}{"expression": "MIT", "allowed": nil}, c.S("MIT", nil))
	bad("Satisfies", map[string]interface{}{"expression": "", "allowed": nil}, c.S("", nil))
	bad("ValidateLicenses", []string{}, c.L(nil))
	bad("ValidateLicenses", []string{""}, c.L([]string{""}))
	// lists of every length (chunked or parallel validation, fixed worker counts)
	maxN := 300
	if c.thorough() {
		maxN = 1100
	}
	for n := 0; n <= maxN; n++ {
		l := make([]string, n)
		for i := range l {
			l[i] = []string{"MIT", "FOO", "Apache-2.0", "(", "ISC"}[(i*7+n)%5]
		}
		bad("ValidateLicenses", fmt.Sprintf("list of %d entries", n), c.L(l))
		if n%5 == 0 && n > 0 {
			v := make([]string, n)
			for i := range v {
				v[i] = []string{"MIT", "ISC", "Zlib"}[i%3]
			}
			bad("Satisfies", fmt.Sprintf("allowed list of %d entries", n), c.S("MIT AND Zlib", v))
		}
	}
	// expression shapes that exercised the old expansion
	for _, w := range corpusSat {
		bad("Satisfies", map[string]interface{}{"expression": w.t.render(0, c.rng), "allowed": w.A}, c.S(w.t.render(0, c.rng), w.A))
	}
	for n := 1; n <= 4; n++ {
		for _, sh := range allTrees(n) {
			i := 0
			t := label(sh, []string{"LicenseRef-a", "LicenseRef-b", "MIT", "ISC"}, &i)
			e := t.render(0, c.rng)
			bad("Satisfies", map[string]interface{}{"expression": e, "allowed": []string{"MIT"}}, c.S(e, []string{"MIT"}))
			r, _ := c.X(e)
			bad("ExtractLicenses", e, r)
		}
	}
}

// ---------------- C04 ----------------
type tagged struct {
	s    string
	kind int // 0 valid single term, 1 valid compound, 2 invalid
}

var c04pool = []tagged{
	{"MIT", 0}, {"GPL-2.0+ WITH Bison-exception-2.2", 0}, {"(MIT)", 0}, {"LicenseRef-a", 0}, {" Apache-2.0-or-later ", 0},
	{"MIT AND ISC", 1}, {"(MIT OR ISC)", 1}, {"MIT OR (ISC AND Zlib)", 1},
	{"", 2}, {" ", 2}, {"FOO", 2}, {"MIT AND", 2}, {"(", 2}, {"MIT ISC", 2}, {"MIT +", 2}, {"MIT WITH", 2}, {"Bison-exception-2.2", 2},
	{"MIT AND FOO", 2}, {"DocumentRef-a", 2}, {"mit and isc", 2},
	{"MIT\n", 2}, {"\tMIT", 2}, {"MIT\r\n", 2}, {"\t(MIT OR ISC)\t", 2}, {"MIT\tAND ISC", 2}, {"\n", 2}, {"MIT ", 0}, {"  (MIT)", 0},
	{"Classpath-exception-2.0", 2}, {"389-exception", 2}, {"mit", 0}, {"LicenseRef-", 2}, {"MIT OR", 2},
	{"(MIT OR MIT)", 1}, {"MIT OR MIT", 1}, {"((MIT AND MIT))", 1}, {"mit AND MIT", 1}, {"MIT;", 2}, {"MIT,ISC", 2}, {"NONE", 2}, {"NOASSERTION", 2},
	{"MIT and ISC", 2}, {"MIT or ISC", 2}, {"MIT with Bison-exception-2.2", 2}, {"\x00MIT", 2}, {"MIT\x00", 2}, {"\u00a0MIT", 2}, {"MIT\u00a0", 2}, {"\ufeffMIT", 2},
	{"MIT\v", 2}, {"MIT\f", 2}, {"\rMIT", 2}, {"   ", 2}, {"LicenseRef-a_b", 2}, {"AdditionRef-x", 2}, {"MIT WITH AdditionRef-x", 2},
}

func genC04(c *Ctx) {
	validOf := func(s string) (bool, bool) {
		switch c.V(s) {
		case "1":
			return true, true
		case "0":
			return false, true
		}
		return false, false
	}
	agree := func(s string) {
		v, ok := validOf(s)
		if !ok {
			return
		}
		c.count("strings")
		rx, _ := c.X(s)
		if rx != unknown && (rx == "ok") != v {
			c.fail("ExtractLicenses", s, rx, map[bool]string{true: "no error", false: "error"}[v], "ValidateLicenses([s]) on the real package: ExtractLicenses errs iff its argument is invalid")
		}
		if strings.HasPrefix(rx, "E-") {
			c.fail("ExtractLicenses", s, rx, "nil result with the error", "whenever an error is returned the result is nil")
		}
		rs := c.S(s, []string{"MIT"})
		if rs != unknown && (rs == "T" || rs == "F") != v {
			c.fail("Satisfies", map[string]interface{}{"expression": s, "allowed": []string{"MIT"}}, rs, map[bool]string{true: "no error", false: "error"}[v], "ValidateLicenses([s]): Satisfies errs iff the expression is invalid (allowed list valid)")
		}
		if strings.HasPrefix(rs, "E-") {
			c.fail("Satisfies", map[string]interface{}{"expression": s, "allowed": []string{"MIT"}}, rs, "false with the error", "whenever an error is returned the result is false")
		}
		if r := c.S(s, nil); r != unknown && r != "E" {
			c.fail("Satisfies", map[string]interface{}{"expression": s, "allowed": []string{}}, r, "error", "an empty allowed list is an error")
		}
	}
	for _, t := range c04pool {
		agree(t.s)
		v, ok := validOf(t.s)
		if ok && v != (t.kind != 2) {
			c.fail("ValidateLicenses", []string{t.s}, fmt.Sprint(v), fmt.Sprint(t.kind != 2), "construction of the pool (grammar of the property text)")
		}
	}
	// lists over the pool
	maxLen := 3
	if c.thorough() {
		maxLen = 4
	}
	small := []tagged{c04pool[0], c04pool[1], c04pool[2], c04pool[5], c04pool[6], c04pool[8], c04pool[10], c04pool[11]}
	var rec func(cur []tagged)
	rec = func(cur []tagged) {
		if len(cur) > 0 {
			var l, bad []string
			allSingle := true
			for _, t := range cur {
				l = append(l, t.s)
				if t.kind == 2 {
					bad = append(bad, t.s)
				}
				if t.kind != 0 {
					allSingle = false
				}
			}
			c.count("lists")
			exp := fmt.Sprintf("%d %s", map[bool]int{true: 1, false: 0}[len(bad) == 0], hxl(bad))
			if r := c.L(l); r != unknown && r != exp {
				c.fail("ValidateLicenses", l, r, exp, "exactly the invalid elements, in order and with multiplicity (validity of each element by ValidateLicenses on it alone)")
			}
			r := c.S("MIT", l)
			if r != unknown && (r == "T" || r == "F") != allSingle {
				c.fail("Satisfies", map[string]interface{}{"expression": "MIT", "allowed": l}, r, map[bool]string{true: "no error", false: "error"}[allSingle], "error iff some allowed entry is invalid or compound")
			}
		}
		if len(cur) == maxLen {
			return
		}
		for _, t := range small {
			rec(append(append([]tagged{}, cur...), t))
		}
	}
	rec(nil)
	// longer random lists
	for k := 0; k < 300; k++ {
		n := 4 + c.rng.Intn(6)
		var l, bad []string
		allSingle := true
		for j := 0; j < n; j++ {
			t := c04pool[c.rng.Intn(len(c04pool))]
			l = append(l, t.s)
			if t.kind == 2 {
				bad = append(bad, t.s)
			}
			if t.kind != 0 {
				allSingle = false
			}
		}
		exp := fmt.Sprintf("%d %s", map[bool]int{true: 1, false: 0}[len(bad) == 0], hxl(bad))
		if r := c.L(l); r != unknown && r != exp {
			c.fail("ValidateLicenses", l, r, exp, "exactly the invalid elements, in order and with multiplicity")
		}
		r := c.S("ISC OR MIT", l)
		if r != unknown && (r == "T" || r == "F") != allSingle {
			c.fail("Satisfies", map[string]interface{}{"expression": "ISC OR MIT", "allowed": l}, r, map[bool]string{true: "no error", false: "error"}[allSingle], "error iff some allowed entry is invalid or compound")
		}
	}
	// long lists (thresholds, chunking): invalid elements at seeded positions, the last one included
	lens := []int{15, 16, 17, 31, 32, 33, 63, 64, 65, 66, 67, 101, 127, 128, 129, 130, 255, 257}
	if c.thorough() {
		for n := 34; n < 300; n += 7 {
			lens = append(lens, n)
		}
		lens = append(lens, 1023, 1025)
	}
	for _, n := range lens {
		for variant := 0; variant < 4; variant++ {
			var l, bad []string
			for j := 0; j < n; j++ {
				t := c04pool[c.rng.Intn(len(c04pool))]
				for t.kind == 2 {
					t = c04pool[c.rng.Intn(len(c04pool))]
				}
				l = append(l, t.s)
			}
			var pos []int
			switch variant {
			case 0: // none invalid
			case 1:
				pos = []int{n - 1}
			case 2:
				pos = []int{0, n / 2, n - 2, n - 1}
			case 3:
				for j := 0; j < 5; j++ {
					pos = append(pos, c.rng.Intn(n))
				}
			}
			for _, q := range pos {
				l[q] = fmt.Sprintf("NOT-A-LICENSE-%d", q)
			}
			for _, x := range l {
				if strings.HasPrefix(x, "NOT-A-LICENSE-") {
					bad = append(bad, x)
				}
			}
			c.count("long_lists")
			exp := fmt.Sprintf("%d %s", map[bool]int{true: 1, false: 0}[len(bad) == 0], hxl(bad))
			if r := c.L(l); r != unknown && r != exp {
				c.fail("ValidateLicenses", l, r, exp, "exactly the invalid elements, in order and with multiplicity (long list)")
			}
		}
	}
	for _, l := range [][]string{{"FOO", "MIT", "FOO"}, {"FOO", "BAR", "FOO", "MIT", "BAR", "FOO"}, {"", "", ""}, {" ", "", "  "}, {"MIT", "", "MIT", ""},
		{"foo", "FOO", "Foo"}, {"MIT AND", "MIT", "MIT AND", "ISC", "MIT AND"}, {"(", ")", "(", ")"}} {
		var bad []string
		for _, x := range l {
			if v, ok := validOf(x); ok && !v {
				bad = append(bad, x)
			}
		}
		exp := fmt.Sprintf("%d %s", map[bool]int{true: 1, false: 0}[len(bad) == 0], hxl(bad))
		if r := c.L(l); r != unknown && r != exp {
			c.fail("ValidateLicenses", l, r, exp, "exactly the invalid elements, in order and with multiplicity (repeated invalid strings, blanks)")
		}
		if r := c.S("MIT", l); r != unknown && r != "E" && len(bad) > 0 {
			c.fail("Satisfies", map[string]interface{}{"expression": "MIT", "allowed": l}, r, "error", "an invalid allowed entry is an error")
		}
	}
	// every pool string, and look-alike spellings of listed ids, as the only / first / last allowed entry and as a list element
	look := []string{"I\u017fC", "\u017fleepycat", "Ka\u017flib", "\u212anuth-CTAN", "\u212aazlib", "M\u0130T", "mi\u0074", "\ufeffMIT", "MIT\ufeff", "\ufeff", "\ufeff\ufeffMIT", "\u2028MIT", "MIT\u2028", "\u200bMIT"}
	for _, t := range c04pool {
		look = append(look, t.s)
	}
	for _, x := range look {
		agree(x)
		v, ok := validOf(x)
		if !ok {
			continue
		}
		single := v
		if v {
			if r, xs := c.X(x); r == "ok" && len(xs) != 1 {
				single = false
			} else if strings.Contains(x, " AND ") || strings.Contains(x, " OR ") {
				single = false
			}
		}
		for _, A := range [][]string{{x}, {x, "MIT"}, {"MIT", x}, {"ISC", x, "MIT"}} {
			r := c.S("MIT", A)
			if r != unknown && (r == "T" || r == "F") != single {
				c.fail("Satisfies", map[string]interface{}{"expression": "MIT", "allowed": A}, r, map[bool]string{true: "no error", false: "error"}[single], "error iff some allowed entry is invalid or compound, wherever it stands")
			}
		}
		exp := fmt.Sprintf("%d %s", map[bool]int{true: 1, false: 0}[v], hxl(map[bool][]string{true: nil, false: {x, x}}[v]))
		if r := c.L([]string{x, "MIT", x}); r != unknown && r != exp {
			c.fail("ValidateLicenses", []string{x, "MIT", x}, r, exp, "exactly the invalid elements, in order and with multiplicity")
		}
	}
	for _, e := range []string{"FOO", "", "MIT AND", "(", " "} {
		if r := c.S(e, nil); r != unknown && r != "E" {
			c.fail("Satisfies", map[string]interface{}{"expression": e, "allowed": []string{}}, r, "error (and false)", "invalid expression and empty list: an error either way")
		}
		if r := c.S(e, []string{"FOO"}); r != unknown && r != "E" {
			c.fail("Satisfies", map[string]interface{}{"expression": e, "allowed": []string{"FOO"}}, r, "error (and false)", "invalid expression and invalid list")
		}
	}
	// every byte value inside / next to an identifier
	for b := 0; b < 256; b++ {
		for _, tpl := range sweepRefTemplates {
			x := fmt.Sprintf(tpl, string([]byte{byte(b)}))
			agree(x)
			c.count("byte_sweep")
			if v, ok := validOf(x); ok && v != isIDByte(byte(b)) {
				c.fail("ValidateLicenses", []string{x}, fmt.Sprint(v), fmt.Sprint(isIDByte(byte(b))), "a reference name is valid iff every byte of it is a letter, a digit, '-' or '.'")
			}
		}
		for _, tpl := range sweepOtherTemplates {
			agree(fmt.Sprintf(tpl, string([]byte{byte(b)})))
		}
	}
	for _, t := range distinctChains([]int{65, 101, 257}) {
		agree(t.render(0, c.rng))
	}
	for _, t := range scaleTrees(c.rng, false) {
		e := t.render(0, c.rng)
		agree(e)
		agree(e + " AND")
		agree(e + " FOO")
		agree("(" + e)
	}
	// token sequences: the three entry points agree on validity
	seqs := tokSequences(c, 3, true)
	for _, q := range seqs {
		agree(q.loose)
	}
}

// ---------------- C06 ----------------
func genC06(c *Ctx) {
	defer func() {
		// many DISTINCT terms (thresholds of maps, counters, fixed arrays); every term must come back exactly once
		for _, n := range []int{64, 65, 66, 100, 200, 257} {
			// n distinct terms, then all of them again (a term first met late occurs a second time)
			var p []string
			for round := 0; round < 2; round++ {
				for i := 0; i < n; i++ {
					p = append(p, fmt.Sprintf("LicenseRef-t%d", i))
				}
			}
			for _, op := range []string{" AND ", " OR "} {
				e := strings.Join(p, op)
				r, got := c.O(e)
				if r == unknown {
					continue
				}
				c.count("repeated_distinct_term_chains")
				if r != "ok" || len(got) != n {
					c.fail("ExtractLicenses", e, fmt.Sprintf("%s, %d terms", r, len(got)), fmt.Sprintf("%d distinct terms, each once", n), "the expression names n reference terms, each twice")
				}
			}
		}
		for _, t := range distinctChains([]int{17, 65, 130, 257, 300}) {
			r, got := c.O(t.render(0, c.rng))
			if r == unknown {
				continue
			}
			c.count("distinct_term_chains")
			want := t.leaves()
			if r != "ok" || len(got) != len(want) {
				c.fail("ExtractLicenses", t.render(0, c.rng), fmt.Sprintf("%s, %d terms", r, len(got)), fmt.Sprintf("%d distinct terms", len(want)), "every operand of the chain is its own reference name")
				continue
			}
			seen := map[string]bool{}
			for _, x := range got {
				seen[x] = true
			}
			for _, w := range want {
				if !seen[w] {
					c.fail("ExtractLicenses", t.render(0, c.rng), "missing "+w, "every term of the expression", "every operand of the chain is its own reference name")
					break
				}
			}
		}
	}()
	canonOf := func(l string) (string, bool) {
		r, xs := c.X(l)
		if r != "ok" || len(xs) != 1 {
			return "", false
		}
		return xs[0], true
	}
	respell := func(l string) string {
		switch c.rng.Intn(4) {
		case 0:
			if !strings.Contains(l, "Ref-") {
				return strings.ToLower(l)
			}
		case 1:
			return "(" + l + ")"
		case 2:
			if !strings.Contains(l, "Ref-") {
				return strings.ToUpper(strings.ReplaceAll(l, " WITH ", " with ")) // restored below
			}
		}
		return l
	}
	_ = respell
	checkTree := func(t *Tree, expr string) {
		r, got := c.O(expr)
		if r == unknown {
			for _, l := range t.leaves() {
				canonOf(l)
			}
			return
		}
		c.count("expressions")
		if r != "ok" {
			c.fail("ExtractLicenses", expr, r, "a list", "valid expression by construction")
			return
		}
		want := map[string]bool{}
		for _, l := range t.leaves() {
			k, ok := canonOf(l)
			if !ok {
				return
			}
			want[k] = true
		}
		seen := map[string]bool{}
		for _, x := range got {
			if seen[x] {
				c.fail("ExtractLicenses", expr, "duplicate "+x, "no duplicates", "result must be duplicate free")
			}
			seen[x] = true
			if !want[x] {
				c.fail("ExtractLicenses", expr, "invented "+x, "only terms of the expression", "canonical spelling of each leaf = ExtractLicenses(leaf) on the real package")
			}
			if r2, self := c.O(x); r2 != unknown && (r2 != "ok" || len(self) != 1 || self[0] != x) {
				c.fail("ExtractLicenses", x, fmt.Sprint(r2, self), "["+x+"]", "every returned string is a valid single term that extracts to itself")
			}
		}
		for w := range want {
			if !seen[w] {
				c.fail("ExtractLicenses", expr, "missing "+w, "every term of the expression", "canonical spelling of each leaf = ExtractLicenses(leaf) on the real package")
			}
		}
		if rs := c.S(expr, got); rs != unknown && rs != "T" {
			c.fail("Satisfies", map[string]interface{}{"expression": expr, "allowed": got}, rs, "T", "using ExtractLicenses(e) as the allowed list always satisfies e")
		}
	}
	N := 4
	if c.thorough() {
		N = 5
	}
	pool := append([]string{}, leafPool...)
	pool = append(pool, "(MIT)", "mit", "MIT", "GPL-2.0-OR-LATER", "gpl-2.0+", "LicenseRef-x")
	for n := 1; n <= N; n++ {
		for _, sh := range allTrees(n) {
			K := 2
			if c.thorough() {
				K = 4
			}
			for k := 0; k < K; k++ {
				var lab []string
				small := c.rng.Intn(2) == 0 // repeated leaves
				for j := 0; j < n; j++ {
					if small {
						lab = append(lab, pool[c.rng.Intn(5)+c.rng.Intn(3)*7])
					} else {
						lab = append(lab, c.rng.Pick(pool))
					}
				}
				i := 0
				t := label(sh, lab, &i)
				checkTree(t, t.render(c.rng.Intn(5), c.rng))
			}
		}
	}
	for _, w := range corpusSat {
		checkTree(w.t, w.t.render(0, c.rng))
	}
	for _, t := range confusableTrees() {
		checkTree(t, t.render(c.rng.Intn(2), c.rng))
	}
	for _, t := range scaleTrees(c.rng, c.thorough()) {
		checkTree(t, t.render(c.rng.Intn(2), c.rng))
	}
	deep := 100
	if c.thorough() {
		deep = 1500
	}
	for k := 0; k < deep; k++ {
		n := 6 + c.rng.Intn(10)
		sh := randTree(c.rng, n)
		var lab []string
		for j := 0; j < n; j++ {
			lab = append(lab, c.rng.Pick(pool))
		}
		i := 0
		t := label(sh, lab, &i)
		checkTree(t, t.render(c.rng.Intn(5), c.rng))
	}
	// every listed license id alone: canonical casing is the list's own
	for _, x := range append(append([]string{}, tActive...), tDeprec...) {
		if !isIDWord(x) {
			continue
		}
		for _, v := range []string{x, strings.ToLower(x), strings.ToUpper(x)} {
			r, got := c.O(v)
			if r == unknown {
				continue
			}
			want := x
			if strings.HasSuffix(strings.ToLower(x), "-or-later") {
				want = x + "+"
			}
			if r != "ok" || len(got) != 1 || got[0] != want {
				// ids shadowed by the suffix rules are C08/C12 business; only flag a casing difference
				if r == "ok" && len(got) == 1 && strings.EqualFold(got[0], want) && got[0] != want {
					c.fail("ExtractLicenses", v, got[0], want, "list casing of the id")
				}
			}
		}
	}
}

// ---------------- C07 ----------------
func perms(xs []string) [][]string {
	if len(xs) <= 1 {
		return [][]string{append([]string{}, xs...)}
	}
	var out [][]string
	for i := range xs {
		rest := append(append([]string{}, xs[:i]...), xs[i+1:]...)
		for _, p := range perms(rest) {
			out = append(out, append([]string{xs[i]}, p...))
		}
	}
	return out
}

func respellEntry(r *SM64, a string) string {
	switch r.Intn(5) {
	case 0:
		return " " + a + "  "
	case 1:
		return "(" + a + ")"
	case 2:
		return "( " + a + " )"
	case 3:
		if !strings.Contains(a, "Ref-") {
			if i := strings.Index(a, " WITH "); i >= 0 {
				return mixID(r, a[:i]) + " WITH " + caseMix(r, a[i+6:])
			}
			return mixID(r, a)
		}
	}
	return "((" + a + "))"
}

func genC07(c *Ctx) {
	N := 3
	if c.thorough() {
		N = 4
	}
	type ex struct {
		t *Tree
		s string
	}
	var exprs []ex
	for n := 1; n <= N; n++ {
		for _, sh := range allTrees(n) {
			K := 2
			if c.thorough() {
				K = 4
			}
			for k := 0; k < K; k++ {
				var lab []string
				for j := 0; j < n; j++ {
					lab = append(lab, c.rng.Pick(leafPool))
				}
				i := 0
				t := label(sh, lab, &i)
				exprs = append(exprs, ex{t, t.render(0, c.rng)})
			}
		}
	}
	// single terms of every kind: the allowed list is what varies
	for _, l := range leafPool {
		exprs = append(exprs, ex{leaf(l), l})
	}
	fillers := []string{"Zlib", "0BSD", "ISC", "BSD-2-Clause", "Unlicense", "WTFPL", "X11", "NCSA", "PostgreSQL", "Beerware", "Artistic-2.0",
		"BSL-1.0", "CC0-1.0", "EPL-2.0", "MPL-2.0", "LGPL-3.0-only", "OFL-1.1", "Python-2.0", "Ruby", "Vim", "curl", "zlib", "LicenseRef-q"}
	for ei, e := range exprs {
		var cand []string
		for _, l := range uniq(e.t.leaves()) {
			rel := related(l)
			cand = append(cand, rel[c.rng.Intn(len(rel))], rel[c.rng.Intn(len(rel))])
			if ei%3 == 0 {
				// siblings of the same version: X-only beside X-or-later / X WITH e / X+
				cand = append(cand, rel[c.rng.Intn(len(rel))], rel[c.rng.Intn(len(rel))])
			}
		}
		cand = c.rng.Shuffle(uniq(cand))
		k := 2 + c.rng.Intn(3)
		if len(cand) > k {
			cand = cand[:k]
		}
		var lists [][]string
		lists = append(lists, cand)
		// a long list (more than 16 entries), unsorted, with repeats
		long := append([]string{}, cand...)
		for len(long) < 18+c.rng.Intn(6) {
			long = append(long, c.rng.Pick(fillers))
		}
		if ei%4 == 0 || c.thorough() {
			lists = append(lists, c.rng.Shuffle(long))
		}
		for _, A := range lists {
			valid := true
			for _, a := range A {
				if c.V(a) != "1" {
					valid = false
				}
			}
			base := c.S(e.s, A)
			if !valid {
				continue
			}
			c.count("expression_list_pairs")
			cmp := func(what string, A2 []string) {
				r := c.S(e.s, A2)
				if base == unknown || r == unknown {
					return
				}
				if r != base {
					c.fail("Satisfies", map[string]interface{}{"expression": e.s, "allowed": A, "allowed_variant": A2, "relation": what}, base+" vs "+r, "equal", "the verdict depends only on the set denoted by the allowed list")
				}
			}
			if len(A) <= 4 {
				for _, p := range perms(A) {
					cmp("permutation", p)
				}
			} else {
				for q := 0; q < 4; q++ {
					cmp("permutation", c.rng.Shuffle(A))
				}
				rev := append([]string{}, A...)
				for i, j := 0, len(rev)-1; i < j; i, j = i+1, j-1 {
					rev[i], rev[j] = rev[j], rev[i]
				}
				cmp("permutation", rev)
			}
			for i := range A {
				if len(A) > 5 && i > 2 {
					break
				}
				d := append(append([]string{}, A...), A[i])
				cmp("duplicate", d)
				d2 := append([]string{A[i]}, A...)
				cmp("duplicate", d2)
				for q := 0; q < 3; q++ {
					rs := append([]string{}, A...)
					rs[i] = respellEntry(c.rng, A[i])
					cmp("respelling", rs)
				}
				// drop one entry, then add it back: monotone
				less := append(append([]string{}, A[:i]...), A[i+1:]...)
				if len(less) > 0 {
					if r := c.S(e.s, less); r == "T" && base != unknown && base != "T" {
						c.fail("Satisfies", map[string]interface{}{"expression": e.s, "allowed": less, "allowed_extended": A}, "T then "+base, "T", "adding valid entries never turns satisfied into not satisfied")
					}
				}
			}
			for _, b := range append(related(c.rng.Pick(e.t.leaves())), c.rng.Pick(leafPool), "Zlib") {
				if c.V(b) != "1" {
					continue
				}
				for _, ext := range [][]string{append(append([]string{}, A...), b), append([]string{b}, A...)} {
					r := c.S(e.s, ext)
					if base == "T" && r != unknown && r != "T" {
						c.fail("Satisfies", map[string]interface{}{"expression": e.s, "allowed": A, "allowed_extended": ext}, "T then "+r, "T", "adding valid entries never turns satisfied into not satisfied")
					}
				}
			}
		}
	}
	// ---- the range table as the source of entries: a matching entry stays a matching entry whatever else is on the
	// list and wherever it stands (early exits keyed on table order, caches keyed on prefixes of ids)
	var firsts []string // first id of every version group, in table order
	famOfIdx := map[int]int{}
	for fi, fam := range tRanges {
		for _, g := range fam {
			if len(g) > 0 && isIDWord(g[0]) && !strings.HasSuffix(g[0], "-or-later") {
				famOfIdx[len(firsts)] = fi
				firsts = append(firsts, g[0])
			}
		}
	}
	win := 14
	if c.thorough() {
		win = 60
	}
	for i, x := range firsts {
		// neighbours in table order, and ids of which x is a prefix or that are a prefix of x
		var zs []string
		for j := i - win; j <= i+win; j++ {
			if j >= 0 && j < len(firsts) && j != i {
				zs = append(zs, firsts[j])
			}
		}
		for j, z := range firsts {
			if j != i && (strings.HasPrefix(z, x) || strings.HasPrefix(x, z)) {
				zs = append(zs, z)
			}
		}
		for _, z := range uniq(zs) {
			for _, A := range [][]string{{x, z}, {z, x}, {z, x, z + "+"}} {
				c.count("table_neighbour_lists")
				if r := c.S(x, A); r != unknown && r != "T" {
					c.fail("Satisfies", map[string]interface{}{"expression": x, "allowed": []string{x}, "allowed_extended": A}, "T then "+r, "T", "adding valid entries never turns satisfied into not satisfied (x matches itself)")
				}
			}
		}
	}
	// within a family: x+ is satisfied by a later version y alone; a third member z must not change that
	for _, fam := range tRanges {
		var ids []string
		for _, g := range fam {
			if len(g) > 0 && isIDWord(g[0]) && !strings.HasSuffix(g[0], "-or-later") {
				ids = append(ids, g[0])
			}
		}
		for xi, x := range ids {
			for yi := xi; yi < len(ids); yi++ {
				y := ids[yi]
				for _, z := range ids {
					if z == y {
						continue
					}
					if !c.thorough() && len(ids) > 6 && c.rng.Intn(3) != 0 {
						continue
					}
					for _, A := range [][]string{{y, z}, {z, y}} {
						c.count("family_triples")
						if r := c.S(x+"+", A); r != unknown && r != "T" {
							c.fail("Satisfies", map[string]interface{}{"expression": x + "+", "allowed": []string{y}, "allowed_extended": A}, "T then "+r, "T", "adding valid entries never turns satisfied into not satisfied (y is the same or a later version of x)")
						}
					}
				}
			}
		}
	}
	// long lists (more than 8 and more than 16 entries) that hold several variants of one id: X, X+, X WITH e1, X WITH e2
	for _, x := range []string{"MIT", "ISC", "Zlib", "BSD-3-Clause", "Apache-2.0", "GPL-2.0-only", "LicenseRef-v"} {
		variants := []string{x}
		if !strings.HasPrefix(x, "LicenseRef-") {
			variants = append(variants, x+"+", x+" WITH Classpath-exception-2.0", x+" WITH Bison-exception-2.2", x+"+ WITH Classpath-exception-2.0")
		} else {
			variants = append(variants, "DocumentRef-d:"+x, "DocumentRef-e:"+x, "DocumentRef-D:"+x, "DocumentRef-d:LicenseRef-"+strings.ToUpper(x[11:]), "LicenseRef-"+strings.ToUpper(x[11:]), "DocumentRef-spdx-tool-1.2:"+x, "DocumentRef-SPDX-Tool-1.2:"+x)
		}
		for _, target := range variants {
			for _, n := range []int{3, 9, 17, 40} {
				for rep := 0; rep < 3; rep++ {
					A := append([]string{}, variants...)
					// entries that are duplicates only after parsing: other letter case, parentheses, spaces
					for _, f := range []string{"Apache-2.0", "Zlib", "0BSD"} {
						if c.rng.Intn(2) == 0 {
							A = append(A, strings.ToLower(f), "("+f+")", " "+f+" ", f)
						}
					}
					for len(A) < n {
						A = append(A, c.rng.Pick(fillers))
					}
					A = c.rng.Shuffle(A)
					c.count("variant_lists")
					if r := c.S(target, A); r != unknown && r != "T" {
						c.fail("Satisfies", map[string]interface{}{"expression": target, "allowed": []string{target}, "allowed_extended": A}, "T then "+r, "T", "adding valid entries never turns satisfied into not satisfied (the list contains the term itself)")
					}
				}
			}
		}
	}
}
