package main

import (
	"fmt"
	"regexp"
	"strings"
)

// ---------------- C05: token sequences and an independent recogniser ----------------
const (
	gLIC = iota
	gPLUS
	gEXC
	gWITH
	gREF
	gDOC
	gCOLON
	gLP
	gRP
	gAND
	gOR
	gBAD // makes the whole string invalid (unknown id, '+' after a space)
)

type lexeme struct {
	text     string
	gram     []int // grammar tokens it normalises to
	abutPlus bool  // is the abutting '+'
	spacedPl bool  // is ' +'
	absorbs  bool  // license id X with X-or-later listed: an abutting '+' is folded into the id
	punct    bool
}

func alphabet() []lexeme {
	has := func(x string) bool { _, ok := tFoldSet[strings.ToLower(x)]; return ok }
	mk := func(id string) lexeme {
		return lexeme{text: id, gram: []int{gLIC}, absorbs: has(id + "-or-later")}
	}
	return []lexeme{
		mk("MIT"), mk("Apache-2.0"), mk("GPL-2.0-only"), mk("GPL-2.0-or-later"), mk("Apache-2.0-only"),
		{text: "Apache-2.0-or-later", gram: []int{gLIC, gPLUS}},
		mk("GPL-2.0"), mk("eCos-2.0"), mk("mit"),
		{text: "Bison-exception-2.2", gram: []int{gEXC}},
		{text: "FOO", gram: []int{gBAD}},
		{text: "and", gram: []int{gBAD}},
		{text: "LicenseRef-x", gram: []int{gREF}},
		{text: "LicenseRef-Apache-2.0-or-later", gram: []int{gREF}},
		{text: "DocumentRef-d", gram: []int{gDOC}},
		{text: ":", gram: []int{gCOLON}, punct: true},
		{text: "(", gram: []int{gLP}, punct: true},
		{text: ")", gram: []int{gRP}, punct: true},
		{text: "AND", gram: []int{gAND}},
		{text: "OR", gram: []int{gOR}},
		{text: "WITH", gram: []int{gWITH}},
		{text: "+", gram: []int{gPLUS}, abutPlus: true, punct: true},
		{text: "+", gram: []int{gBAD}, spacedPl: true, punct: true},
	}
}

// independent recogniser for
//
//	expr := and {OR and} ; and := atom {AND atom} ; atom := ( expr ) | [DOC :] REF | LIC [+] [WITH EXC]
type recog struct {
	g []int
	i int
}

func (p *recog) peek() int {
	if p.i < len(p.g) {
		return p.g[p.i]
	}
	return -1
}
func (p *recog) atom() bool {
	switch p.peek() {
	case gLP:
		p.i++
		if !p.expr() || p.peek() != gRP {
			return false
		}
		p.i++
		return true
	case gDOC:
		p.i++
		if p.peek() != gCOLON {
			return false
		}
		p.i++
		if p.peek() != gREF {
			return false
		}
		p.i++
		return true
	case gREF:
		p.i++
		return true
	case gLIC:
		p.i++
		if p.peek() == gPLUS {
			p.i++
		}
		if p.peek() == gWITH {
			p.i++
			if p.peek() != gEXC {
				return false
			}
			p.i++
		}
		return true
	}
	return false
}
func (p *recog) and() bool {
	if !p.atom() {
		return false
	}
	for p.peek() == gAND {
		p.i++
		if !p.atom() {
			return false
		}
	}
	return true
}
func (p *recog) expr() bool {
	if !p.and() {
		return false
	}
	for p.peek() == gOR {
		p.i++
		if !p.and() {
			return false
		}
	}
	return true
}

func derives(seq []lexeme) bool {
	var g []int
	for i := 0; i < len(seq); i++ {
		l := seq[i]
		if l.abutPlus && i == 0 {
			// a leading '+' is still a '+' token
		}
		if l.absorbs && i+1 < len(seq) && seq[i+1].abutPlus {
			g = append(g, gLIC) // X+ is the listed id X-or-later: one license token
			i++
			continue
		}
		g = append(g, l.gram...)
	}
	for _, x := range g {
		if x == gBAD {
			return false
		}
	}
	if len(g) == 0 {
		return false
	}
	p := &recog{g: g}
	return p.expr() && p.i == len(g)
}

func renderSeq(seq []lexeme, tight bool) string {
	var b strings.Builder
	for i, l := range seq {
		if i > 0 {
			prev := seq[i-1]
			switch {
			case l.abutPlus:
			case l.spacedPl:
				b.WriteString(" ")
			case tight && (l.punct || prev.punct):
			default:
				b.WriteString(" ")
			}
		} else if l.spacedPl {
			b.WriteString(" ")
		}
		b.WriteString(l.text)
	}
	return b.String()
}

type tokCase struct {
	loose, tight string
	valid        bool
}

func treeLexemes(t *Tree, al []lexeme, r *SM64) []lexeme {
	byText := func(s string) lexeme {
		for _, l := range al {
			if l.text == s && !l.spacedPl {
				return l
			}
		}
		return al[0]
	}
	if t.isLeaf() {
		switch r.Intn(7) {
		case 0:
			return []lexeme{byText("LicenseRef-x")}
		case 1:
			return []lexeme{byText("DocumentRef-d"), byText(":"), byText("LicenseRef-x")}
		case 2:
			return []lexeme{al[r.Intn(9)], al[20]}
		case 3:
			return []lexeme{al[r.Intn(9)], byText("WITH"), byText("Bison-exception-2.2")}
		case 4:
			return []lexeme{al[r.Intn(9)], al[20], byText("WITH"), byText("Bison-exception-2.2")}
		}
		return []lexeme{al[r.Intn(9)]}
	}
	l, rr := treeLexemes(t.L, al, r), treeLexemes(t.R, al, r)
	op := byText("AND")
	if t.Op == 'O' {
		op = byText("OR")
	}
	par := func(x []lexeme) []lexeme {
		return append(append([]lexeme{byText("(")}, x...), byText(")"))
	}
	if t.Op == 'A' {
		if !t.L.isLeaf() {
			l = par(l)
		}
		if t.R.Op == 'O' {
			rr = par(rr)
		}
	} else if t.L.Op == 'O' {
		l = par(l)
	}
	if r.Intn(6) == 0 {
		l = par(l)
	}
	return append(append(l, op), rr...)
}

func tokSequences(c *Ctx, k int, light bool) []tokCase {
	al := alphabet()
	var out []tokCase
	emit := func(seq []lexeme) {
		out = append(out, tokCase{renderSeq(seq, false), renderSeq(seq, true), derives(seq)})
	}
	var rec func(cur []lexeme)
	rec = func(cur []lexeme) {
		if len(cur) > 0 {
			emit(cur)
		}
		if len(cur) == k {
			return
		}
		for _, l := range al {
			rec(append(append([]lexeme{}, cur...), l))
		}
	}
	rec(nil)
	n := 4000
	if c.thorough() {
		n = 60000
	}
	if light {
		n = 500
	}
	for j := 0; j < n; j++ {
		t := randTree(c.rng, 1+c.rng.Intn(5))
		seq := treeLexemes(t, al, c.rng)
		for e := c.rng.Intn(3); e > 0; e-- {
			p := c.rng.Intn(len(seq) + 1)
			switch c.rng.Intn(3) {
			case 0:
				seq = append(append(append([]lexeme{}, seq[:p]...), al[c.rng.Intn(len(al))]), seq[p:]...)
			case 1:
				if p < len(seq) && len(seq) > 1 {
					seq = append(append([]lexeme{}, seq[:p]...), seq[p+1:]...)
				}
			case 2:
				if p < len(seq) {
					seq = append([]lexeme{}, seq...)
					seq[p] = al[c.rng.Intn(len(al))]
				}
			}
		}
		emit(seq)
	}
	return out
}

func genC05(c *Ctx) {
	k := 3
	if c.thorough() {
		k = 4
	}
	for _, q := range tokSequences(c, k, false) {
		for si, s := range []string{q.loose, q.tight} {
			r := c.V(s)
			if r == unknown {
				continue
			}
			c.count(fmt.Sprintf("strings_valid_%v", q.valid))
			if si == 0 && c.rng.Intn(2000) == 0 {
				c.sample(s)
			}
			exp := "0"
			if q.valid {
				exp = "1"
			}
			if r != exp {
				c.fail("ValidateLicenses", []string{s}, r, exp, "independent recogniser for the grammar of the property text applied to the lexeme sequence this string was rendered from (ids normalised by the documented -only / -or-later / + rules)")
			}
		}
	}
	// reference names that are spelled like the operator keywords: a token is an operator by its role, not by its text
	// (C05-w8m2: parseOperator comparing token values only reads "MIT LicenseRef-OR ISC" as "MIT OR ISC")
	{
		mkl := func(id string) lexeme { return lexeme{text: id, gram: []int{gLIC}} }
		kal := []lexeme{mkl("MIT"), mkl("ISC"), {text: "Bison-exception-2.2", gram: []int{gEXC}},
			{text: "LicenseRef-AND", gram: []int{gREF}}, {text: "LicenseRef-OR", gram: []int{gREF}}, {text: "LicenseRef-WITH", gram: []int{gREF}},
			{text: "DocumentRef-AND", gram: []int{gDOC}}, {text: "DocumentRef-OR", gram: []int{gDOC}}, {text: "DocumentRef-WITH", gram: []int{gDOC}},
			{text: ":", gram: []int{gCOLON}, punct: true}, {text: "(", gram: []int{gLP}, punct: true}, {text: ")", gram: []int{gRP}, punct: true},
			{text: "AND", gram: []int{gAND}}, {text: "OR", gram: []int{gOR}}, {text: "WITH", gram: []int{gWITH}}}
		var rec func(cur []lexeme)
		rec = func(cur []lexeme) {
			if len(cur) > 0 {
				s := renderSeq(cur, false)
				if r := c.V(s); r != unknown {
					c.count("keyword_named_references")
					exp := "0"
					if derives(cur) {
						exp = "1"
					}
					if r != exp {
						c.fail("ValidateLicenses", []string{s}, r, exp, "independent recogniser for the grammar applied to the lexeme sequence this string was rendered from; LicenseRef-/DocumentRef- names spelled AND / OR / WITH are references, not operators")
					}
				}
			}
			if len(cur) == k {
				return
			}
			for _, l := range kal {
				rec(append(append([]lexeme{}, cur...), l))
			}
		}
		rec(nil)
	}
	// the documented suffix forms of EVERY listed id (R2): validity by the normalisation rules, computed here
	// from the lists alone
	lookupAE := func(w string) (string, bool) { // active or exception list
		for _, l := range [][]string{tActive, tExcs} {
			for _, x := range l {
				if strings.EqualFold(x, w) {
					return x, true
				}
			}
		}
		return "", false
	}
	isExc := func(w string) bool {
		for _, x := range tExcs {
			if strings.EqualFold(x, w) {
				return true
			}
		}
		return false
	}
	isDep := func(w string) bool {
		for _, x := range tDeprec {
			if strings.EqualFold(x, w) {
				return true
			}
		}
		return false
	}
	// tokens of "word[+...]" as grammar kinds; nil = unknown id
	unit := func(w string, plusFollows bool) (g []int, eats bool) {
		if _, ok := lookupAE(w); ok {
			if isExc(w) {
				return []int{gEXC}, false
			}
			return []int{gLIC}, false
		}
		if strings.HasSuffix(w, "-only") {
			if _, ok := lookupAE(strings.TrimSuffix(w, "-only")); ok {
				if isExc(strings.TrimSuffix(w, "-only")) {
					return []int{gEXC}, false
				}
				return []int{gLIC}, false
			}
		}
		if plusFollows {
			if _, ok := lookupAE(w + "-or-later"); ok {
				return []int{gLIC}, true
			}
		}
		if strings.HasSuffix(w, "-or-later") {
			if _, ok := lookupAE(strings.TrimSuffix(w, "-or-later")); ok {
				if isExc(strings.TrimSuffix(w, "-or-later")) {
					return []int{gEXC, gPLUS}, false
				}
				return []int{gLIC, gPLUS}, false
			}
		}
		if isDep(w) {
			return []int{gLIC}, false
		}
		return nil, false
	}
	expectTerm := func(w string, pluses int, tail []int) string {
		g, eats := unit(w, pluses > 0)
		if g == nil {
			return "0"
		}
		if eats {
			pluses--
		}
		for i := 0; i < pluses; i++ {
			g = append(g, gPLUS)
		}
		g = append(g, tail...)
		p := &recog{g: g}
		if p.expr() && p.i == len(g) {
			return "1"
		}
		return "0"
	}
	for _, x := range append(append(append([]string{}, tActive...), tDeprec...), tExcs...) {
		if !isIDWord(x) {
			continue
		}
		for _, sfx := range []string{"", "-only", "-or-later", "-only-only", "-or-later-only", "-only-or-later", "-ly-only", "-noyl-only", "-or-later-or-later", "-ONLY", "-Or-Later"} {
			for pl := 0; pl <= 2; pl++ {
				s := x + sfx + strings.Repeat("+", pl)
				want := expectTerm(x+sfx, pl, nil)
				if r := c.V(s); r != unknown && r != want {
					c.fail("ValidateLicenses", []string{s}, r, want, "documented normalisation of the suffix forms (-only stripped when unlisted, + folded into a listed -or-later id, unlisted -or-later read as +), then the grammar")
				}
				c.count("suffix_forms")
				if pl == 0 && (sfx == "" || sfx == "-only" || sfx == "-or-later") {
					s2 := "MIT WITH " + x + sfx
					g, _ := unit(x+sfx, false)
					want2 := "0"
					if len(g) == 1 && g[0] == gEXC {
						want2 = "1"
					}
					if r := c.V(s2); r != unknown && r != want2 {
						c.fail("ValidateLicenses", []string{s2}, r, want2, "after WITH only an exception id (possibly with an ignored -only) is accepted")
					}
				}
			}
		}
	}
	// scale: long flat chains and deep nests are derivable, whatever their length
	sz := []int{17, 33, 65, 66, 101, 130, 257}
	if c.thorough() {
		sz = append(sz, 513, 1025, 2049)
	}
	var big []*Tree
	big = append(big, distinctChains(sz)...)
	big = append(big, scaleTrees(c.rng, c.thorough())...)
	for _, t := range big {
		for _, st := range []int{0, 1} {
			e := t.render(st, c.rng)
			c.count("scale_expressions")
			if r := c.V(e); r != unknown && r != "1" {
				c.fail("ValidateLicenses", []string{e}, r, "1", "derivable from the grammar (long chain / deep nest of valid terms)")
			}
			for _, bad := range []string{e + " AND", e + " MIT", "(" + e, e + ")"} {
				if r := c.V(bad); r != unknown && r != "0" {
					c.fail("ValidateLicenses", []string{bad}, r, "0", "not derivable: dangling operator / adjacent terms / unbalanced parenthesis after a long valid expression")
				}
			}
		}
	}
	// every byte value inside / next to an identifier
	for b := 0; b < 256; b++ {
		for _, tpl := range sweepRefTemplates {
			x := fmt.Sprintf(tpl, string([]byte{byte(b)}))
			want := "0"
			if isIDByte(byte(b)) {
				want = "1"
			}
			c.count("byte_sweep")
			if r := c.V(x); r != unknown && r != want {
				c.fail("ValidateLicenses", []string{x}, r, want, "a reference name is valid iff every byte of it is a letter, a digit, '-' or '.'")
			}
		}
		for _, tpl := range sweepOtherTemplates {
			c.V(fmt.Sprintf(tpl, string([]byte{byte(b)})))
		}
	}
	// keywords glued to ids, longer token orders, look-alike code points: compared with the model (no hand-made verdict)
	for _, x := range []string{"MITAND ISC", "MIT ANDISC", "ANDMIT", "ORacle", "MIT ORISC", "WITHMIT", "MIT WITHBison-exception-2.2", "MIT WITH Bison-exception-2.2AND ISC",
		"A WITH e AND B WITH", "MIT WITH Bison-exception-2.2 AND ISC WITH", "MIT AND (ISC) WITH Bison-exception-2.2", "(MIT) +", "(MIT)+", "MIT + WITH Bison-exception-2.2",
		"MIT) (ISC", ")MIT(", "(Bison-exception-2.2)", "( Bison-exception-2.2 AND MIT)", "MIT WITH (Bison-exception-2.2)", "(MIT WITH) Bison-exception-2.2",
		"MIT WITH Bison-exception-2.2 WITH Classpath-exception-2.0", "MIT WITH Bison-exception-2.2+", "MIT+ WITH Bison-exception-2.2+", "(MIT OR ISC)+",
		"DocumentRef-a:b:LicenseRef-c", "DocumentRef-a-:LicenseRef-c", "DocumentRef-a:LicenseRef-c:", "DocumentRef-a :LicenseRef-c", "DocumentRef-a: LicenseRef-c",
		"DocumentRef-a:LicenseRef-c+", "DocumentRef-a:LicenseRef-c WITH Bison-exception-2.2", "DocumentRef-a:DocumentRef-b:LicenseRef-c", "LicenseRef-a:LicenseRef-b",
		"LicenseRef-MIT+", "LicenseRef-MIT +", "LicenseRef-GPL-2.0-or-later", "LicenseRef-GPL-2.0-or-later+", "GPL-2.0-or-later++", "GPL-2.0-or-later +", "GPL-2.0++",
		"GPL-2.0-only-only", "GPL-2.0-only-or-later", "GPL-2.0-or-later-only", "MIT-only+", "MIT-or-later-only", "LicenseRef-a_b", "LicenseRef-a b",
		"MIT WITH AdditionRef-x", "AdditionRef-x", "MIT with Bison-exception-2.2", "MIT With Bison-exception-2.2", "mit AND isc", "MIT And ISC",
		"MIT+ISC", "MIT+(ISC)", "MIT+ AND ISC", "MIT +ISC", "(MIT)ISC", "MIT(ISC)", "MIT )", "( MIT )", "(MIT )", "( MIT)", "MIT AND(ISC)", "MIT AND (ISC)OR Zlib",
		"DocumentRef-a.:LicenseRef-b", "DocumentRef-a-:LicenseRef-b-", "DocumentRef-.:LicenseRef-.", "LicenseRef-a", "LicenseRef-.", "LicenseRef--", "LicenseRef-0", "DocumentRef-0:LicenseRef-0",
		"LicenseRef-AND", "LicenseRef-WITH-x", "LicenseRef-OR", "DocumentRef-OR:LicenseRef-x", "DocumentRef-AND:LicenseRef-WITH", "LicenseRef-MIT AND LicenseRef-AND", "ANDAND", "FOOWITH", "MITOR", "MIT ORAND ISC",
		"MIT WITH Bison-exception-2.2 WITH Bison-exception-2.2", "MIT+ WITH Bison-exception-2.2", "Apache-2.0+ WITH Bison-exception-2.2", "MIT WITH Bison-exception-2.2 ", "MIT WITH Bison-exception-2.2)", "(MIT WITH Bison-exception-2.2)",
		"MIT  AND  ISC", "MIT AND  (ISC)", "MIT\tAND\tISC", "MIT \tAND ISC", "MIT AND\nISC", "MIT AND ISC\n", " MIT", "MIT ", "MIT  ", "\u00a0MIT AND ISC",
		"\u212anuth-CTAN", "\u212aazlib", "Knuth-CTAN", "kazlib", "Ka\u017flib", "MIT\u017f", "\u017fleepycat", "Sleepycat", "M\u0130T", "M\u0131T", "\uff2d\uff29\uff34",
		"CC-BY-SA-4.\u0660", "MIT\u200b", "MIT\u00ad", "\u00e9", "Apache-2.0\u2011or-later"} {
		c.count("handmade_strings")
		c.V(x)
		c.X(x)
		c.S(x, []string{"MIT"})
		c.S("MIT", []string{x})
	}
	// named rejection classes and documented acceptances
	for s, want := range map[string]string{
		"MIT": "1", "mit": "1", "MIT AND Apache-2.0": "1", "MIT and Apache-2.0": "0", "MIT OR": "0", "MIT AND AND ISC": "0",
		"MIT ISC": "0", "(MIT": "0", "MIT)": "0", "()": "0", "MIT WITH": "0", "MIT WITH ISC": "0", "Bison-exception-2.2": "0",
		"LicenseRef-a+": "0", "LicenseRef-a WITH Bison-exception-2.2": "0", "DocumentRef-a": "0", "DocumentRef-a:MIT": "0",
		"DocumentRef-a:LicenseRef-b": "1", "MIT +": "0", "MIT+": "1", "GPL-2.0-only": "1", "GPL-2.0-or-later": "1",
		"Apache-2.0-or-later": "1", "(Apache-2.0-or-later)": "1", "Apache-2.0-or-later)": "0", "Apache-2.0-or-later(": "0",
		"(Apache-2.0-or-later))": "0", "(MIT OR Apache-2.0-or-later) AND ISC": "1", "Apache-2.0-or-later\tAND MIT": "0",
		"MIT-only": "1", "FOO-only": "0", "FOO+": "0", "MIT WITH Bison-exception-2.2": "1", "GPL-2.0++": "1", "Apache-2.0++": "0",
		"Apache-2.0-or-later+": "0", "MIT WITH Bison-exception-2.2+": "0", "WITH": "0", ":": "0", "MIT\tAND ISC": "0",
		"": "0", " ": "0", "      ": "0", " MIT ": "1", "+": "0", " +": "0", "(": "0", ")": "0",
	} {
		if r := c.V(s); r != unknown && r != want {
			c.fail("ValidateLicenses", []string{s}, r, want, "grammar of the property text (hand-derived corpus case)")
		}
	}
}

// ---------------- C08 ----------------
func famOf(x string) []string {
	for _, fam := range tRanges {
		for _, g := range fam {
			for _, y := range g {
				if y == x {
					var out []string
					for _, g2 := range fam {
						out = append(out, g2[0])
					}
					return out
				}
			}
		}
	}
	return nil
}

func min(a, b int) int {
	if a < b {
		return a
	}
	return b
}

func genC08(c *Ctx) {
	isActive := map[string]bool{}
	for _, x := range tActive {
		isActive[x] = true
	}
	ids := append(append([]string{}, tActive...), tDeprec...)
	// bases of listed X-or-later / X-only ids that are not listed themselves (GFDL-1.1-invariants): X+ and X-or-later
	// are both valid spellings for them too
	for _, x := range append(append([]string{}, tActive...), tDeprec...) {
		for _, sfx := range []string{"-or-later", "-only"} {
			if b := strings.TrimSuffix(x, sfx); b != x && !tListed[b] {
				ids = append(ids, b)
			}
		}
	}
	ids = uniq(ids)
	exc := " WITH Classpath-exception-2.0"
	for idx, x := range ids {
		if !isIDWord(x) {
			continue
		}
		sp := []string{x, x + "-only", x + "+", x + "-or-later"}
		var v [4]string
		for i, s := range sp {
			v[i] = c.V(s)
			if isActive[x] && v[i] == "0" {
				c.fail("ValidateLicenses", []string{s}, "invalid", "valid", "for every id on the active list both spellings of each pair are valid")
			}
			// with or without an exception: validity is unchanged
			if w := c.V(s + exc); w != unknown && v[i] != unknown && w != v[i] {
				c.fail("ValidateLicenses", []string{s + exc}, w, v[i], "validity of the same spelling without the exception")
			}
		}
		// contexts
		var ctx []string
		fam := famOf(x)
		if fam == nil {
			fam = famOf(strings.TrimSuffix(strings.TrimSuffix(x, "-only"), "-or-later"))
		}
		for _, y := range fam {
			ctx = append(ctx, y, y+"+")
		}
		ctx = append(ctx, x, x+"+", x+"-only", "MIT", "GPL-2.0-only", "LicenseRef-x", ids[(idx*7+3)%len(ids)])
		if strings.HasPrefix(x, "GPL-") || strings.HasPrefix(x, "LGPL-") {
			// deprecated ids that carry an exception in their name
			for _, d := range tDeprec {
				if strings.Contains(d, "-with-") || d == "eCos-2.0" || d == "wxWindows" {
					ctx = append(ctx, d)
				}
			}
		}
		if !c.thorough() && len(ctx) > 24 {
			ctx = append(ctx[:8], ctx[len(ctx)-16:]...)
		}
		// X+ and X-only+ (the '+' applied to either spelling of the pair), both spellings side by side in one expression
		if v[0] == "1" && v[1] == "1" && c.V(x+"+") == "1" && c.V(x+"-only+") == "1" {
			for _, y := range []string{x, x + "+", "MIT"} {
				r1, r2 := c.S(x+"+", []string{y}), c.S(x+"-only+", []string{y})
				if r1 != unknown && r2 != unknown && r1 != r2 {
					c.fail("Satisfies", map[string]interface{}{"expression": x + "+", "expression_variant": x + "-only+", "allowed": []string{y}}, r1+" vs "+r2, "equal", "X and X-only are interchangeable at any position, here before '+'")
				}
				r1, r2 = c.S(y, []string{x + "+"}), c.S(y, []string{x + "-only+"})
				if r1 != unknown && r2 != unknown && r1 != r2 {
					c.fail("Satisfies", map[string]interface{}{"expression": y, "allowed": []string{x + "+"}, "allowed_variant": []string{x + "-only+"}}, r1+" vs "+r2, "equal", "X and X-only are interchangeable at any position, here before '+' in the allowed list")
				}
			}
		}
		if v[2] == "1" && v[3] == "1" {
			for _, A := range [][]string{{x}, {x + "+"}, {"MIT"}} {
				ra, rb, rc := c.S(sp[2]+" AND "+sp[3], A), c.S(sp[2]+" AND "+sp[2], A), c.S(sp[3]+" AND "+sp[3], A)
				if ra != unknown && rb != unknown && rc != unknown && (ra != rb || ra != rc) {
					c.fail("Satisfies", map[string]interface{}{"expression": sp[2] + " AND " + sp[3], "allowed": A}, ra+" vs "+rb+" vs "+rc, "equal", "X+ and X-or-later side by side in one expression: replacing either by the other changes nothing")
				}
			}
		}
		// deprecated ids that carry an exception in their name, bare, against both spellings WITH a related exception
		if strings.HasPrefix(x, "GPL-") || strings.HasPrefix(x, "LGPL-") {
			for _, d := range tDeprec {
				if !(strings.Contains(d, "-with-") || d == "eCos-2.0" || d == "wxWindows") {
					continue
				}
				var es []string
				for _, e := range tExcs {
					for _, word := range []string{"classpath", "ecos", "wxwindows", "gcc", "autoconf", "bison", "font"} {
						if strings.Contains(strings.ToLower(d), word) && strings.Contains(strings.ToLower(e), word) {
							es = append(es, e)
						}
					}
				}
				es = append(es, tExcs[c.rng.Intn(len(tExcs))])
				for _, e := range uniq(es) {
					for _, pr := range [][2]int{{0, 1}, {2, 3}} {
						a, b := sp[pr[0]]+" WITH "+e, sp[pr[1]]+" WITH "+e
						if c.V(a) != "1" || c.V(b) != "1" {
							continue
						}
						for _, dd := range []string{d, d + "+"} {
							r1, r2 := c.S(dd, []string{a}), c.S(dd, []string{b})
							if r1 != unknown && r2 != unknown && r1 != r2 {
								c.fail("Satisfies", map[string]interface{}{"expression": dd, "allowed": []string{a}, "allowed_variant": []string{b}}, r1+" vs "+r2, "equal", "replacing one spelling of the pair by the other in the allowed list (expression: a deprecated id that names an exception)")
							}
							r1, r2 = c.S(a, []string{dd}), c.S(b, []string{dd})
							if r1 != unknown && r2 != unknown && r1 != r2 {
								c.fail("Satisfies", map[string]interface{}{"expression": a, "expression_variant": b, "allowed": []string{dd}}, r1+" vs "+r2, "equal", "replacing one spelling of the pair by the other in the expression (allowed: a deprecated id that names an exception)")
							}
						}
					}
				}
			}
		}
		for _, pr := range [][2]int{{0, 1}, {2, 3}} {
			a, b := sp[pr[0]], sp[pr[1]]
			if v[pr[0]] != "1" || v[pr[1]] != "1" {
				continue
			}
			c.count("interchangeable_pairs")
			for _, y := range ctx {
				if !isIDWord(strings.TrimSuffix(y, "+")) && !strings.HasPrefix(y, "LicenseRef-") {
					continue
				}
				for _, e := range []string{"", exc} {
					cmp := func(what string, r1, r2 string, args interface{}) {
						if r1 != unknown && r2 != unknown && r1 != r2 {
							c.fail("Satisfies", args, r1+" vs "+r2, "equal", what)
						}
					}
					ye := y
					if e != "" && !strings.HasPrefix(y, "LicenseRef-") {
						ye = y + e
					}
					cmp("replacing "+a+" by "+b+" as the expression term", c.S(a+e, []string{ye}), c.S(b+e, []string{ye}),
						map[string]interface{}{"expression": a + e, "expression_variant": b + e, "allowed": []string{ye}})
					cmp("replacing "+a+" by "+b+" as the allowed entry", c.S(ye, []string{a + e}), c.S(ye, []string{b + e}),
						map[string]interface{}{"expression": ye, "allowed": []string{a + e}, "allowed_variant": []string{b + e}})
				}
			}
			// the spelling also occurs inside a user-defined reference name earlier / later in the expression
			for _, tpl := range []string{"LicenseRef-%[1]s OR %[2]s", "%[2]s OR LicenseRef-%[1]s", "DocumentRef-%[1]s:LicenseRef-%[1]s AND %[2]s"} {
				if idx%7 != 0 && !c.thorough() {
					break
				}
				name := x + "-or-later"
				if pr[0] == 0 {
					name = x + "-only"
				}
				ea, eb := fmt.Sprintf(tpl, name, a), fmt.Sprintf(tpl, name, b)
				if w1, w2 := c.V(ea), c.V(eb); w1 != unknown && w2 != unknown && w1 != w2 {
					c.fail("ValidateLicenses", []string{ea, eb}, w1+" vs "+w2, "equal", "validity is unchanged by replacing "+a+" by "+b+" at a term position")
				}
				for _, A := range [][]string{{x}, {"MIT"}, {a}} {
					if c.V(A[0]) != "1" {
						continue
					}
					r1, r2 := c.S(ea, A), c.S(eb, A)
					if r1 != unknown && r2 != unknown && r1 != r2 {
						c.fail("Satisfies", map[string]interface{}{"expression": ea, "expression_variant": eb, "allowed": A}, r1+" vs "+r2, "equal", "replacing one spelling by the other at a term position")
					}
				}
			}
			// allowed lists holding the spelling next to its own variants (same version, with / without exception)
			for _, A := range [][2][]string{
				{{a, x + exc}, {b, x + exc}}, {{x + exc, a}, {x + exc, b}}, {{a, a + exc}, {b, b + exc}}, {{a, b}, {b, a}}, {{a, x + "+"}, {b, x + "+"}},
			} {
				ok := true
				for _, q := range append(append([]string{}, A[0]...), A[1]...) {
					if c.V(q) != "1" {
						ok = false
					}
				}
				if !ok {
					continue
				}
				for _, e := range append([]string{x, x + exc, x + "+"}, ctx[:min(len(ctx), 4)]...) {
					if c.V(e) != "1" {
						continue
					}
					r1, r2 := c.S(e, A[0]), c.S(e, A[1])
					if r1 != unknown && r2 != unknown && r1 != r2 {
						c.fail("Satisfies", map[string]interface{}{"expression": e, "allowed": A[0], "allowed_variant": A[1]}, r1+" vs "+r2, "equal", "replacing "+a+" by "+b+" inside a longer allowed list")
					}
				}
			}
			// inside a compound expression
			e1, e2 := "("+a+" AND MIT) OR ISC", "("+b+" AND MIT) OR ISC"
			for _, A := range [][]string{{x, "MIT"}, {a, "MIT"}, {b, "MIT"}, {"ISC"}, {"MIT"}} {
				ok := true
				for _, q := range A {
					if c.V(q) != "1" {
						ok = false
					}
				}
				if !ok {
					continue
				}
				r1, r2 := c.S(e1, A), c.S(e2, A)
				if r1 != unknown && r2 != unknown && r1 != r2 {
					c.fail("Satisfies", map[string]interface{}{"expression": e1, "expression_variant": e2, "allowed": A}, r1+" vs "+r2, "equal", "replacing one spelling by the other inside a compound expression")
				}
			}
			if w1, w2 := c.V(e1), c.V(e2); w1 != unknown && w2 != unknown && w1 != w2 {
				c.fail("ValidateLicenses", []string{e1, e2}, w1+" vs "+w2, "equal", "validity is unchanged by the substitution")
			}
		}
	}
}

// ---------------- C09 ----------------
func genC09(c *Ctx) {
	variants := func(x string) []string {
		return uniq([]string{strings.ToLower(x), strings.ToUpper(x), caseMix(c.rng, x)})
	}
	same := func(what string, api string, args interface{}, r1, r2 string) {
		if r1 != unknown && r2 != unknown && r1 != r2 {
			c.fail(api, args, r2, r1, what)
		}
	}
	// code points that Unicode case folding equates with ASCII letters (Kelvin sign, long s, dotless / dotted i) are
	// not "another letter case" of a listed id: such spellings stay invalid
	fold := strings.NewReplacer("K", "\u212a", "k", "\u212a", "s", "\u017f", "S", "\u017f")
	for _, x := range append(append(append([]string{}, tActive...), tDeprec...), tExcs...) {
		y := fold.Replace(x)
		if y == x {
			continue
		}
		c.count("look_alike_spellings")
		for _, sp := range []string{y, "MIT WITH " + y, "MIT OR " + y} {
			if r := c.V(sp); r != unknown && r != "0" {
				c.fail("ValidateLicenses", []string{sp}, r, "0", "only the ASCII letter case of a listed id may vary; U+212A / U+017F are different characters")
			}
		}
		if r := c.S("MIT", []string{y}); r != unknown && r != "E" {
			c.fail("Satisfies", map[string]interface{}{"expression": "MIT", "allowed": []string{y}}, r, "error", "only the ASCII letter case of a listed id may vary")
		}
	}
	// bases that are on no list themselves but are listed with a suffix (GFDL-1.1-invariants): re-cased before the
	// '+' that stands for the listed -or-later id, and before the documented suffixes
	for _, x := range append(append([]string{}, tActive...), tDeprec...) {
		for _, sfx := range []string{"-or-later", "-only"} {
			b := strings.TrimSuffix(x, sfx)
			if b == x || tListed[b] {
				continue
			}
			for _, v := range variants(b) {
				for _, tail := range []string{"+", sfx, sfx + " WITH Classpath-exception-2.0"} {
					same("validity with the list-cased base", "ValidateLicenses", []string{v + tail}, c.V(b+tail), c.V(v+tail))
					r1, s1 := c.X(b + tail)
					r2, s2 := c.X(v + tail)
					same("ExtractLicenses with the list-cased base (canonical casing)", "ExtractLicenses", v+tail, r1+fmt.Sprint(s1), r2+fmt.Sprint(s2))
					for _, A := range [][]string{{x}, {b + "+"}, {"MIT"}} {
						same("Satisfies with the list-cased base in the expression", "Satisfies", map[string]interface{}{"expression": v + tail, "allowed": A}, c.S(b+tail, A), c.S(v+tail, A))
						same("Satisfies with the list-cased base in the allowed list", "Satisfies", map[string]interface{}{"expression": A[0], "allowed": []string{v + tail}}, c.S(A[0], []string{b + tail}), c.S(A[0], []string{v + tail}))
					}
				}
			}
		}
	}
	lic := append(append([]string{}, tActive...), tDeprec...)
	for i, x := range lic {
		if !isIDWord(x) {
			continue
		}
		other := lic[(i*13+5)%len(lic)]
		if !isIDWord(other) {
			other = "MIT"
		}
		for _, v := range variants(x) {
			if v == x {
				continue
			}
			c.count("id_variants")
			same("validity of the list-cased id", "ValidateLicenses", []string{v}, c.V(x), c.V(v))
			r1, s1 := c.X(x)
			r2, s2 := c.X(v)
			same("ExtractLicenses of the list-cased id (canonical casing)", "ExtractLicenses", v, r1+fmt.Sprint(s1), r2+fmt.Sprint(s2))
			for _, A := range [][]string{{x}, {x + "+"}, {other}, {"MIT"}} {
				same("Satisfies with the list-cased id in the expression", "Satisfies", map[string]interface{}{"expression": v, "allowed": A}, c.S(x, A), c.S(v, A))
				same("Satisfies with the list-cased id in the expression", "Satisfies", map[string]interface{}{"expression": v + "+", "allowed": A}, c.S(x+"+", A), c.S(v+"+", A))
			}
			famctx := []string{}
			for _, y := range famOf(strings.TrimSuffix(strings.TrimSuffix(x, "-or-later"), "-only")) {
				famctx = append(famctx, y, y+"+")
			}
			for _, y := range famctx {
				same("Satisfies with the list-cased id in the allowed list (family member in the expression)", "Satisfies", map[string]interface{}{"expression": y, "allowed": []string{v}}, c.S(y, []string{x}), c.S(y, []string{v}))
				same("Satisfies with the list-cased id in the expression (family member allowed)", "Satisfies", map[string]interface{}{"expression": v, "allowed": []string{y}}, c.S(x, []string{y}), c.S(v, []string{y}))
			}
			for _, e := range []string{x, x + "+", other, "MIT OR " + x} {
				same("Satisfies with the list-cased id in the allowed list", "Satisfies", map[string]interface{}{"expression": e, "allowed": []string{v}}, c.S(e, []string{x}), c.S(e, []string{v}))
			}
			ex1, ex2 := "("+x+" AND MIT) OR Apache-2.0", "("+v+" AND mit) OR apache-2.0"
			r1, s1 = c.X(ex1)
			r2, s2 = c.X(ex2)
			same("ExtractLicenses of the list-cased expression", "ExtractLicenses", ex2, r1+fmt.Sprint(s1), r2+fmt.Sprint(s2))
		}
	}
	for _, e := range tExcs {
		for _, v := range variants(e) {
			if v == e {
				continue
			}
			c.count("exception_variants")
			a, b := "GPL-2.0-only WITH "+e, "GPL-2.0-only WITH "+v
			same("validity with the list-cased exception", "ValidateLicenses", []string{b}, c.V(a), c.V(b))
			r1, s1 := c.X(a)
			r2, s2 := c.X(b)
			same("ExtractLicenses with the list-cased exception", "ExtractLicenses", b, r1+fmt.Sprint(s1), r2+fmt.Sprint(s2))
			same("Satisfies, exception re-cased in the expression", "Satisfies", map[string]interface{}{"expression": b, "allowed": []string{a}}, c.S(a, []string{a}), c.S(b, []string{a}))
			same("Satisfies, exception re-cased in the allowed list", "Satisfies", map[string]interface{}{"expression": a, "allowed": []string{b}}, c.S(a, []string{a}), c.S(a, []string{b}))
			same("Satisfies, exception re-cased, + form", "Satisfies", map[string]interface{}{"expression": "GPL-2.0+ WITH " + v, "allowed": []string{"GPL-3.0-only WITH " + e}}, c.S("GPL-2.0+ WITH "+e, []string{"GPL-3.0-only WITH " + e}), c.S("GPL-2.0+ WITH "+v, []string{"GPL-3.0-only WITH " + e}))
		}
	}
	// inside trees
	n := 60
	if c.thorough() {
		n = 1500
	}
	for k := 0; k < n; k++ {
		sz := 2 + c.rng.Intn(4)
		sh := randTree(c.rng, sz)
		var lab []string
		for j := 0; j < sz; j++ {
			lab = append(lab, c.rng.Pick(leafPool))
		}
		i := 0
		t := label(sh, lab, &i)
		mix := func(l string) string {
			if strings.Contains(l, "Ref-") {
				return l
			}
			if j := strings.Index(l, " WITH "); j >= 0 {
				return mixID(c.rng, l[:j]) + " WITH " + caseMix(c.rng, l[j+6:])
			}
			return mixID(c.rng, l)
		}
		t2 := t.mapLeaves(mix)
		st := c.rng.Intn(2)
		e1, e2 := t.render(st, c.rng), t2.render(st, c.rng)
		var A, A2 []string
		for _, l := range uniq(t.leaves()) {
			if c.rng.Intn(2) == 0 {
				rel := related(l)
				a := rel[c.rng.Intn(len(rel))]
				A = append(A, a)
				A2 = append(A2, mix(a))
			}
		}
		if len(A) == 0 {
			A, A2 = []string{"Zlib"}, []string{"zLIB"}
		}
		same("Satisfies on the case-mutated expression and list", "Satisfies", map[string]interface{}{"expression": e2, "allowed": A2, "original_expression": e1, "original_allowed": A}, c.S(e1, A), c.S(e2, A2))
		r1, s1 := c.X(e1)
		r2, s2 := c.X(e2)
		same("ExtractLicenses on the case-mutated expression", "ExtractLicenses", e2, r1+fmt.Sprint(s1), r2+fmt.Sprint(s2))
	}
}

// mixID changes the case of a listed id but leaves a -only / -or-later suffix and a trailing + alone
// (suffixes are outside the claim of C09)
func mixID(r *SM64, l string) string {
	plus := strings.HasSuffix(l, "+")
	b := strings.TrimSuffix(l, "+")
	sfx := ""
	if _, listed := tFoldSet[strings.ToLower(b)]; !listed {
		for _, s := range []string{"-only", "-or-later"} {
			if strings.HasSuffix(b, s) {
				sfx = s
				b = strings.TrimSuffix(b, s)
			}
		}
	}
	out := caseMix(r, b) + sfx
	if plus {
		out += "+"
	}
	return out
}

// ---------------- C10 ----------------
func rewrite(r *SM64, t *Tree, pool []string) (*Tree, bool) { // bool: term-preserving
	if r.Intn(3) != 0 && !t.isLeaf() {
		if r.Intn(2) == 0 {
			n, p := rewrite(r, t.L, pool)
			return &Tree{Op: t.Op, L: n, R: t.R}, p
		}
		n, p := rewrite(r, t.R, pool)
		return &Tree{Op: t.Op, L: t.L, R: n}, p
	}
	switch r.Intn(7) {
	case 0: // commutativity
		if !t.isLeaf() {
			return &Tree{Op: t.Op, L: t.R, R: t.L}, true
		}
	case 1: // associativity
		if !t.isLeaf() && t.R.Op == t.Op {
			return &Tree{Op: t.Op, L: &Tree{Op: t.Op, L: t.L, R: t.R.L}, R: t.R.R}, true
		}
		if !t.isLeaf() && t.L.Op == t.Op {
			return &Tree{Op: t.Op, L: t.L.L, R: &Tree{Op: t.Op, L: t.L.R, R: t.R}}, true
		}
	case 2: // idempotence
		if r.Intn(2) == 0 {
			return and(t, t.clone()), true
		}
		return or(t, t.clone()), true
	case 3: // absorption (introduces a term)
		x := leaf(r.Pick(pool))
		if r.Intn(2) == 0 {
			return and(t, or(t.clone(), x)), false
		}
		return or(t, and(x, t.clone())), false
	case 4: // distribution AND over OR
		if t.Op == 'A' && t.R.Op == 'O' {
			return or(and(t.L, t.R.L), and(t.L.clone(), t.R.R)), true
		}
		if t.Op == 'A' && t.L.Op == 'O' {
			return or(and(t.L.L, t.R), and(t.L.R, t.R.clone())), true
		}
	case 5: // factoring
		if t.Op == 'O' && t.L.Op == 'A' && t.R.Op == 'A' && t.L.L.render(0, nil) == t.R.L.render(0, nil) {
			return and(t.L.L, or(t.L.R, t.R.R)), true
		}
	case 6: // OR over AND distribution (also valid Boolean law)
		if t.Op == 'O' && t.R.Op == 'A' {
			return and(or(t.L, t.R.L), or(t.L.clone(), t.R.R)), true
		}
	}
	return t, true
}

func genC10(c *Ctx) {
	N := 4
	if c.thorough() {
		N = 5
	}
	type ex struct{ t *Tree }
	var base []*Tree
	for n := 1; n <= N; n++ {
		for _, sh := range allTrees(n) {
			var lab []string
			for j := 0; j < n; j++ {
				lab = append(lab, c.rng.Pick(leafPool))
			}
			i := 0
			base = append(base, label(sh, lab, &i))
		}
	}
	for _, w := range corpusSat {
		base = append(base, w.t)
	}
	base = append(base, or(leaf("MIT"), leaf("LicenseRef-x")), or(leaf("LicenseRef-x"), leaf("MIT")))
	base = append(base, confusableTrees()...)
	base = append(base, scaleTrees(c.rng, false)[:12]...)
	for _, t := range base {
		K := 2
		if c.thorough() {
			K = 5
		}
		var cand []string
		for _, l := range uniq(t.leaves()) {
			rel := related(l)
			cand = append(cand, rel[c.rng.Intn(len(rel))])
		}
		cand = uniq(append(cand, c.rng.Pick(leafPool)))
		if len(cand) > 4 {
			cand = cand[:4]
		}
		As := subsets(cand)
		e1 := t.render(0, c.rng)
		for k := 0; k < K; k++ {
			t2, pres := t, true
			for s := 1 + c.rng.Intn(3); s > 0; s-- {
				var p bool
				t2, p = rewrite(c.rng, t2, leafPool)
				pres = pres && p
			}
			e2 := t2.render(c.rng.Intn(5), c.rng)
			c.count("rewritten_pairs")
			if k == 0 {
				c.sample(e1 + "  ==>  " + e2)
			}
			for _, A := range As {
				r1, r2 := c.S(e1, A), c.S(e2, A)
				if r1 != unknown && r2 != unknown && r1 != r2 {
					c.fail("Satisfies", map[string]interface{}{"expression": e1, "expression_variant": e2, "allowed": A}, r1+" vs "+r2, "equal", "both expressions denote the same Boolean function of the same terms (commutativity/associativity/idempotence/absorption/distribution/parentheses/spaces applied by the harness)")
				}
			}
			if pres {
				r1, s1 := c.X(e1)
				r2, s2 := c.X(e2)
				if r1 != unknown && r2 != unknown && r1+fmt.Sprint(s1) != r2+fmt.Sprint(s2) {
					c.fail("ExtractLicenses", map[string]interface{}{"expression": e1, "expression_variant": e2}, fmt.Sprint(s1)+" vs "+fmt.Sprint(s2), "equal sets", "term-preserving rewrite")
				}
			}
		}
	}
	// twins: (E) AND (F), (E) OR (F) and their commuted forms for every pair of expressions over the same three terms
	tw := twinTrees([]string{"MIT", "ISC", "Apache-2.0"})
	twSubs := subsets([]string{"MIT", "ISC", "Apache-2.0"})
	bb := func(x bool) string {
		if x {
			return "T"
		}
		return "F"
	}
	for _, E := range tw {
		for _, F := range tw {
			se, sf := E.render(0, c.rng), F.render(0, c.rng)
			c.count("twin_decompositions")
			for _, A := range twSubs {
				re, rf := c.S(se, A), c.S(sf, A)
				ra, ro := c.S("("+se+") AND ("+sf+")", A), c.S("("+se+") OR ("+sf+")", A)
				rw := c.S("Zlib AND (("+se+") OR ("+sf+"))", append([]string{"Zlib"}, A...))
				if re == unknown || rf == unknown || ra == unknown || ro == unknown || rw == unknown {
					continue
				}
				if ra != bb(re == "T" && rf == "T") {
					c.fail("Satisfies", map[string]interface{}{"expression": "(" + se + ") AND (" + sf + ")", "allowed": A}, ra, bb(re == "T" && rf == "T"), "Satisfies(E,A) and Satisfies(F,A) on the real package (E, F over the same terms)")
				}
				if ro != bb(re == "T" || rf == "T") {
					c.fail("Satisfies", map[string]interface{}{"expression": "(" + se + ") OR (" + sf + ")", "allowed": A}, ro, bb(re == "T" || rf == "T"), "Satisfies(E,A) or Satisfies(F,A) on the real package (E, F over the same terms)")
				}
				if rw != ro {
					c.fail("Satisfies", map[string]interface{}{"expression": "Zlib AND ((" + se + ") OR (" + sf + "))", "allowed": append([]string{"Zlib"}, A...)}, rw, ro, "Zlib is allowed, so the verdict is that of (E) OR (F)")
				}
			}
		}
	}
	// chains of many distinct terms: reversed and rotated operand order (per-term tables with a fixed width)
	for _, n := range []int{33, 65, 66, 130, 257} {
		names := make([]string, n)
		for i := range names {
			names[i] = fmt.Sprintf("LicenseRef-c%d", i)
		}
		for _, op := range []string{" OR ", " AND "} {
			fwd := strings.Join(names, op)
			rev := make([]string, n)
			for i := range names {
				rev[n-1-i] = names[i]
			}
			rot := append(append([]string{}, names[n/2:]...), names[:n/2]...)
			c.count("distinct_chain_orders")
			for _, A := range [][]string{{names[0]}, {names[n-1]}, {names[n/2]}, names, names[1:], names[:n-1]} {
				r1 := c.S(fwd, A)
				for _, e2 := range []string{strings.Join(rev, op), strings.Join(rot, op), "(" + strings.Join(names[:n-1], op) + ")" + op + "(" + names[n-1] + ")"} {
					if r2 := c.S(e2, A); r1 != unknown && r2 != unknown && r1 != r2 {
						c.fail("Satisfies", map[string]interface{}{"expression": fwd, "expression_variant": e2, "allowed": A}, r1+" vs "+r2, "equal", "operand order / grouping of a chain of distinct terms")
					}
				}
			}
		}
	}
	// seeded deep trees: operand order and regrouping at nesting depth 3+, seeded assignments
	nd := 1200
	if c.thorough() {
		nd = 12000
	}
	for _, t := range deepTrees(c.rng, nd) {
		e1 := t.render(0, c.rng)
		t2 := t
		for s := 1 + c.rng.Intn(3); s > 0; s-- {
			t2, _ = rewrite(c.rng, t2, leafPool)
		}
		e2 := t2.render(c.rng.Intn(5), c.rng)
		c.count("deep_rewritten_pairs")
		ls := uniq(t.leaves())
		for q := 0; q < 4; q++ {
			var A []string
			for _, l := range ls {
				if c.rng.Intn(2) == 0 {
					A = append(A, l)
				}
			}
			if len(A) == 0 {
				A = []string{"CC0-1.0"}
			}
			r1, r2 := c.S(e1, A), c.S(e2, A)
			if r1 != unknown && r2 != unknown && r1 != r2 {
				c.fail("Satisfies", map[string]interface{}{"expression": e1, "expression_variant": e2, "allowed": A}, r1+" vs "+r2, "equal", "both expressions denote the same Boolean function of the same terms (deep tree)")
			}
		}
	}
	// decomposition: Satisfies("(E) AND (F)", A) = Satisfies(E,A) && Satisfies(F,A)
	for k := 0; k < len(base); k++ {
		E, F := base[k], base[(k*7+3)%len(base)]
		se, sf := E.render(c.rng.Intn(5), c.rng), F.render(c.rng.Intn(5), c.rng)
		var cand []string
		for _, l := range uniq(append(E.leaves(), F.leaves()...)) {
			rel := related(l)
			cand = append(cand, rel[c.rng.Intn(len(rel))])
		}
		cand = c.rng.Shuffle(uniq(cand))
		if len(cand) > 3 {
			cand = cand[:3]
		}
		for _, A := range subsets(cand) {
			re, rf := c.S(se, A), c.S(sf, A)
			ra, ro := c.S("("+se+") AND ("+sf+")", A), c.S("("+se+") OR ("+sf+")", A)
			if re == unknown || rf == unknown || ra == unknown || ro == unknown {
				continue
			}
			if (re != "T" && re != "F") || (rf != "T" && rf != "F") {
				continue
			}
			c.count("decompositions")
			b := func(x bool) string {
				if x {
					return "T"
				}
				return "F"
			}
			if ra != b(re == "T" && rf == "T") {
				c.fail("Satisfies", map[string]interface{}{"expression": "(" + se + ") AND (" + sf + ")", "allowed": A}, ra, b(re == "T" && rf == "T"), "Satisfies(E,A) and Satisfies(F,A) on the real package")
			}
			if ro != b(re == "T" || rf == "T") {
				c.fail("Satisfies", map[string]interface{}{"expression": "(" + se + ") OR (" + sf + ")", "allowed": A}, ro, b(re == "T" || rf == "T"), "Satisfies(E,A) or Satisfies(F,A) on the real package")
			}
		}
	}
}

// ---------------- C11 ----------------
var reVer = regexp.MustCompile(`^(\d+(?:\.\d+)*)([A-Za-z]?)$`)

type verKey struct {
	prefix, tail string
	nums         []int
	letter       string
	ok           bool
}

// R5: natural version decomposition
func decompose(id string) verKey {
	parts := strings.Split(id, "-")
	if strings.HasSuffix(id, "-or-later") {
		parts = parts[:len(parts)-2]
	} else if strings.HasSuffix(id, "-only") {
		parts = parts[:len(parts)-1]
	}
	for k, p := range parts {
		if k > 0 && p != "" && p[0] >= '0' && p[0] <= '9' {
			m := reVer.FindStringSubmatch(p)
			if m == nil {
				return verKey{}
			}
			var nums []int
			for _, d := range strings.Split(m[1], ".") {
				n := 0
				fmt.Sscanf(d, "%d", &n)
				nums = append(nums, n)
			}
			return verKey{strings.Join(parts[:k], "-"), strings.Join(parts[k+1:], "-"), nums, m[2], true}
		}
	}
	return verKey{}
}
func verCmp(a, b verKey) int {
	for i := 0; i < len(a.nums) || i < len(b.nums); i++ {
		x, y := -1, -1
		if i < len(a.nums) {
			x = a.nums[i]
		}
		if i < len(b.nums) {
			y = b.nums[i]
		}
		if x != y {
			if x < y {
				return -1
			}
			return 1
		}
	}
	return strings.Compare(a.letter, b.letter)
}

func genC11(c *Ctx) {
	listed := append(append([]string{}, tActive...), tDeprec...)
	readable := func(x string) bool { return isIDWord(x) }
	// covered families by natural key
	covered := map[string]int{}
	for fi, fam := range tRanges {
		for _, g := range fam {
			for _, x := range g {
				if d := decompose(x); d.ok {
					k := d.prefix + "|" + d.tail
					if _, ok := covered[k]; !ok {
						covered[k] = fi
					}
				}
			}
		}
	}
	// members of each covered family among the listed ids
	members := map[string][]string{}
	for _, x := range listed {
		if !readable(x) || strings.HasSuffix(x, "-or-later") {
			continue
		}
		if d := decompose(x); d.ok {
			k := d.prefix + "|" + d.tail
			if _, ok := covered[k]; ok {
				members[k] = append(members[k], x)
			}
		}
	}
	var keys []string
	for k := range members {
		keys = append(keys, k)
	}
	sortStrings(keys)
	for ki, k := range keys {
		ids := members[k]
		for _, x := range ids {
			for _, y := range ids {
				dx, dy := decompose(x), decompose(y)
				exp := "F"
				if verCmp(dy, dx) >= 0 {
					exp = "T"
				}
				c.count("in_family_pairs")
				for _, form := range []string{x + "+", x + "-or-later"} {
					if c.V(form) != "1" {
						continue
					}
					if r := c.S(y, []string{form}); r != unknown && r != exp {
						c.fail("Satisfies", map[string]interface{}{"expression": y, "allowed": []string{form}}, r, exp, "natural order of the version numbers of two listed ids of the same covered family ("+k+")")
					}
					if r := c.S(form, []string{y}); r != unknown && r != exp {
						c.fail("Satisfies", map[string]interface{}{"expression": form, "allowed": []string{y}}, r, exp, "natural order of the version numbers of two listed ids of the same covered family ("+k+")")
					}
				}
			}
			// the '+' entry next to the bare entry of the same version, and the same id bare and with '+' in one expression
			for _, y := range ids {
				dx, dy := decompose(x), decompose(y)
				if verCmp(dy, dx) <= 0 || c.V(x+"+") != "1" {
					continue
				}
				// y is a later version than x
				for _, A := range [][]string{{x, x + "+"}, {x + "+", x}, {x, x + "+", "MIT"}} {
					if r := c.S(y, A); r != unknown && r != "T" {
						c.fail("Satisfies", map[string]interface{}{"expression": y, "allowed": A}, r, "T", "the list holds "+x+"+ and "+y+" is a later version of the same family ("+k+")")
					}
				}
				if r := c.S(x+" OR "+x+"+", []string{y}); r != unknown && r != "T" {
					c.fail("Satisfies", map[string]interface{}{"expression": x + " OR " + x + "+", "allowed": []string{y}}, r, "T", x+"+ is matched by the later version "+y)
				}
				if r := c.S(x+"+ AND "+x, []string{y}); r != unknown && r != "F" {
					c.fail("Satisfies", map[string]interface{}{"expression": x + "+ AND " + x, "allowed": []string{y}}, r, "F", "the bare "+x+" is not matched by the later version "+y)
				}
			}
			// never across families
			for q := 0; q < 4; q++ {
				ok := keys[(ki+1+c.rng.Intn(len(keys)-1))%len(keys)]
				y := members[ok][c.rng.Intn(len(members[ok]))]
				for _, py := range []string{"", "+"} {
					if r := c.S(y+py, []string{x + "+"}); r != unknown && r != "F" {
						c.fail("Satisfies", map[string]interface{}{"expression": y + py, "allowed": []string{x + "+"}}, r, "F", "'+' never makes an id match an id of a different family")
					}
				}
			}
		}
	}
	c.checkAliasing()
	// table well-formedness, witnessed directly on LicenseRanges()
	isListed := map[string]bool{}
	for _, x := range listed {
		isListed[x] = true
	}
	seenAt := map[string]string{}
	for fi, fam := range tRanges {
		var famKey string
		var prev verKey
		for gi, g := range fam {
			var gv verKey
			for xi, x := range g {
				where := fmt.Sprintf("LicenseRanges()[%d][%d][%d]", fi, gi, xi)
				if !isListed[x] {
					c.fail("LicenseRanges", where, x, "a listed id", "every entry is a valid listed id")
				}
				if w, ok := seenAt[x]; ok {
					c.fail("LicenseRanges", where, x+" also at "+w, "exactly one position", "every entry sits at exactly one position")
				}
				seenAt[x] = where
				d := decompose(x)
				if !d.ok {
					c.fail("LicenseRanges", where, x, "an id with a version", "natural version decomposition (DESIGN R5)")
					continue
				}
				k := d.prefix + "|" + d.tail
				if famKey == "" {
					famKey = k
				} else if k != famKey {
					c.fail("LicenseRanges", where, x+" in family "+famKey, "one family per row", "family key of the id (DESIGN R5)")
				}
				if xi == 0 {
					gv = d
				} else if verCmp(gv, d) != 0 {
					c.fail("LicenseRanges", where, x+" beside "+g[0], "one version per step", "version of the id (DESIGN R5)")
				}
			}
			if gi > 0 && gv.ok && prev.ok && verCmp(prev, gv) >= 0 {
				c.fail("LicenseRanges", fmt.Sprintf("LicenseRanges()[%d][%d]", fi, gi), g[0]+" after "+fam[gi-1][0], "ascending version order", "natural order of versions")
			}
			prev = gv
		}
	}
	for _, k := range keys {
		for _, x := range members[k] {
			if _, ok := seenAt[x]; !ok {
				c.fail("LicenseRanges", "family "+k, x+" is listed but absent", "a covered family covers every listed version of it", "listed ids (active and deprecated) whose natural family key is covered by the table")
			}
		}
	}
}

func sortStrings(xs []string) {
	for i := 1; i < len(xs); i++ {
		for j := i; j > 0 && xs[j] < xs[j-1]; j-- {
			xs[j], xs[j-1] = xs[j-1], xs[j]
		}
	}
}

// ---------------- C15 ----------------
func genC15(c *Ctx) {
	var prefixes []string
	pool := []string{"MIT", "Apache-2.0-or-later", "GPL-2.0+", "GPL-2.0-or-later", "MIT-or-later+", "LicenseRef-a", "GPL-2.0-only WITH Classpath-exception-2.0", "Apache-1.1-or-later WITH Bison-exception-2.2", "mit-OR-LATER"}
	for n := 1; n <= 3; n++ {
		for _, sh := range allTrees(n) {
			var lab []string
			for j := 0; j < n; j++ {
				lab = append(lab, c.rng.Pick(pool))
			}
			i := 0
			t := label(sh, lab, &i)
			prefixes = append(prefixes, t.render(c.rng.Intn(5), c.rng))
		}
	}
	deep := 200
	if c.thorough() {
		deep = 4000
	}
	for k := 0; k < deep; k++ {
		n := 2 + c.rng.Intn(7)
		sh := randTree(c.rng, n)
		var lab []string
		for j := 0; j < n; j++ {
			lab = append(lab, c.rng.Pick(pool))
		}
		i := 0
		prefixes = append(prefixes, label(sh, lab, &i).render(c.rng.Intn(5), c.rng))
	}
	var longJunk []string
	for _, n := range []int{31, 32, 33, 63, 64, 65, 66, 100, 127, 128, 129, 255, 257, 1000, 5000} {
		longJunk = append(longJunk, strings.Repeat("x", n), "Vendor-"+strings.Repeat("License-", n/8)+"2.0", strings.Repeat("q", n)+"-or-later", strings.Repeat("Z", n)+"+")
	}
	junk := []string{"ORACLE-1.0", "ANDROID-SDK", "WITHOUT-x", "ANDfoo", "ORfoo-or-later", "WITHfoo+", "\ufeffFOO", "\ufeffMIT AND FOO", "\ufeffApache-2.0-or-later AND FOO", "FOO\ufeff", "FOO)", "(FOO", "FOO:", "FOO:LicenseRef-a", "FooBar", "fOO-Only", "FOO-only", "FOO-only+", "FOO+", "FOO++", "DocumentRef-x:LicenseRef-", "DocumentRef-x:FOO",
		"DocumentRef-x:LicenseRef-)", "DocumentRef-x:LicenseRef- AND MIT", "LicenseRef-", "(LicenseRef-)", "LicenseRef-+", "DocumentRef-)", "F\u00e9", "LicenseRef-a\u00e9 AND FOO", "Zlib-or-later-or-later",
		"FOO", "FOO-or-later", "unknown-1.0+", "LicenseRef-", "DocumentRef-", "LicenseRef-!", "DocumentRef-:", "é", "\xff", "_x", "Apache-3.0-or-later", "GPL-9.0-only", "x-or-later-or-later", "-or-later", "!"}
	glue := []string{" AND ", " OR ", " AND (", " OR (MIT AND ", "  AND  ", " WITH ", " ", "", "+ AND ", " AND MIT AND "}
	check := func(s string) {
		r := c.R(s)
		if r == unknown {
			return
		}
		c.count("strings")
		f := strings.Split(r, " ")
		switch f[0] {
		case "unk":
			c.count("unknown_license_errors")
			var o int
			fmt.Sscanf(f[1], "%d", &o)
			w := unhx(f[2])
			if o < 0 || o+len(w) > len(s) || s[o:o+len(w)] != w {
				c.fail("ExtractLicenses", s, fmt.Sprintf("unknown license %q at offset %d", w, o), "the lexeme at that offset of the argument", "s[o:o+len(w)] == w on the string passed in")
			}
			rs := c.S("MIT", []string{s})
			_ = rs
		case "eid":
			c.count("expected_id_errors")
			var o int
			fmt.Sscanf(f[1], "%d", &o)
			if o < 0 || o > len(s) {
				c.fail("ExtractLicenses", s, fmt.Sprintf("expected id at offset %d", o), "an offset within the argument", "0 <= o <= len(s)")
			}
		case "PANIC":
		}
	}
	for _, p := range prefixes {
		for _, g := range glue {
			j := junk[c.rng.Intn(len(junk))]
			check(p + g + j)
			if c.thorough() {
				for _, j2 := range junk {
					check(p + g + j2)
				}
			}
		}
		check(junk[c.rng.Intn(len(junk))] + " AND " + p)
		c.sample(p + " AND FOO")
	}
	// the same through Satisfies: the expression argument, and an allowed entry at any position of the list
	// (earlier entries may themselves have been rewritten: -or-later forms)
	located := func(what string, s string, r string, args interface{}) {
		f := strings.Split(r, " ")
		var o int
		switch f[0] {
		case "unk":
			fmt.Sscanf(f[1], "%d", &o)
			w := unhx(f[2])
			if o < 0 || o+len(w) > len(s) || s[o:o+len(w)] != w {
				c.fail("Satisfies", args, fmt.Sprintf("unknown license %q at offset %d", w, o), "the lexeme at that offset of "+what, "s[o:o+len(w)] == w on the string passed in")
			}
		case "eid":
			fmt.Sscanf(f[1], "%d", &o)
			if o < 0 || o > len(s) {
				c.fail("Satisfies", args, fmt.Sprintf("expected id at offset %d", o), "an offset within "+what, "0 <= o <= len(s)")
			}
		}
	}
	for _, j := range longJunk {
		check(j)
		check("MIT AND " + j)
		check("Apache-2.0-or-later AND (" + j + " OR ISC)")
		check("  " + j + " WITH Bison-exception-2.2")
		c.count("long_unknown_words")
		for _, A := range [][]string{{j}, {"MIT", "Apache-1.0-or-later", j}} {
			q := c.Q("MIT", A)
			if q != unknown {
				located("the allowed entry", j, q, map[string]interface{}{"expression": "MIT", "allowed": A})
			}
		}
		q := c.Q("GPL-2.0-or-later AND "+j, []string{"MIT"})
		if q != unknown {
			located("the expression", "GPL-2.0-or-later AND "+j, q, map[string]interface{}{"expression": "GPL-2.0-or-later AND " + j, "allowed": []string{"MIT"}})
		}
	}
	for _, j := range junk {
		check(j)
		check("\ufeff" + j)
		check("\ufeffMIT-or-later AND " + j)
		check("(Zlib-or-later AND " + j + ")")
		check("Apache-2.0-or-later AND " + j)
		check("Apache-2.0-or-later\tAND " + j)
		check("(Apache-2.0-or-later OR MIT-or-later) AND " + j)
	}
	// the same token sequence under different amounts of blank space, all in one process: an answer (or an error) that
	// is remembered under a key which squeezes or trims blanks cites the offset of an earlier caller's string (C15-w8m1)
	for _, j := range junk {
		for _, pre := range []string{"MIT AND", "Apache-2.0-or-later OR", "(ISC"} {
			for _, v := range []string{pre + " " + j, pre + "    " + j, "  " + pre + " " + j, " " + strings.Replace(pre, " ", "   ", 1) + "  " + j, pre + " " + j + "  ", "    " + pre + "     " + j + " "} {
				check(v)
				c.count("blank_space_variants")
				q := c.Q(v, []string{"MIT"})
				if q != unknown {
					located("the expression", v, q, map[string]interface{}{"expression": v, "allowed": []string{"MIT"}})
				}
			}
		}
	}
	goodEntries := []string{"MIT", "Apache-1.0-or-later", "MIT-or-later", "GPL-2.0-or-later", "(Zlib-or-later)", " ISC-or-later"}
	for i, p := range prefixes {
		if i%3 != 0 && !c.thorough() {
			continue
		}
		// every random choice is made before any answer is looked at (the generator is re-run until all calls are known)
		bad := p + glue[c.rng.Intn(len(glue))] + junk[c.rng.Intn(len(junk))]
		k := c.rng.Intn(4)
		A := append([]string{}, c.rng.Shuffle(goodEntries)[:k]...)
		A = append(A, bad)
		A = append(A, c.rng.Shuffle(goodEntries)[:c.rng.Intn(3)]...)
		vbad := c.V(bad)
		rq := c.Q(bad, []string{"MIT"})
		ra := c.Q("MIT", A)
		if vbad != "0" {
			continue
		}
		c.count("satisfies_error_positions")
		if rq != unknown {
			located("the expression", bad, rq, map[string]interface{}{"expression": bad, "allowed": []string{"MIT"}})
		}
		ok := true
		for _, a := range A[:k] {
			if c.V(a) != "1" {
				ok = false
			}
		}
		if !ok {
			continue
		}
		if ra != unknown {
			located("the first invalid allowed entry", bad, ra, map[string]interface{}{"expression": "MIT", "allowed": A})
		}
	}
}
