// godriver: generates the cases of one property, runs the real package (built from /repo's working
// tree) on them, evaluates the direct oracles, and writes
//
//	cases.txt   one protocol line per distinct API call (input of modelrun)
//	impl.txt    the implementation's canonical answer, same order
//	oracle.jsonl  direct-oracle failures (property-level, no model involved)
//	stats.json  measured input distribution, counts, samples
package main

import (
	"encoding/hex"
	"encoding/json"
	"fmt"
	"os"
	"path/filepath"
	"regexp"
	"runtime"
	"sort"
	"strconv"
	"strings"
	"sync"

	"github.com/github/go-spdx/v2/spdxexp"
)

// ---------- SplitMix64: every random choice derives from one state ----------
type SM64 struct{ s uint64 }

func (r *SM64) Next() uint64 {
	r.s += 0x9e3779b97f4a7c15
	z := r.s
	z = (z ^ (z >> 30)) * 0xbf58476d1ce4e5b9
	z = (z ^ (z >> 27)) * 0x94d049bb133111eb
	return z ^ (z >> 31)
}
func (r *SM64) Intn(n int) int {
	if n <= 0 {
		return 0
	}
	return int(r.Next() % uint64(n))
}
func (r *SM64) Pick(xs []string) string { return xs[r.Intn(len(xs))] }
func (r *SM64) Shuffle(xs []string) []string {
	ys := append([]string(nil), xs...)
	for i := len(ys) - 1; i > 0; i-- {
		j := r.Intn(i + 1)
		ys[i], ys[j] = ys[j], ys[i]
	}
	return ys
}

// ---------- protocol ----------
func hx(s string) string { return "x" + hex.EncodeToString([]byte(s)) }
func hxl(l []string) string {
	if len(l) == 0 {
		return "-"
	}
	p := make([]string, len(l))
	for i, s := range l {
		p[i] = hx(s)
	}
	return strings.Join(p, ",")
}
func unhx(s string) string {
	b, _ := hex.DecodeString(s[1:])
	return string(b)
}
func unhxl(s string) []string {
	if s == "-" {
		return []string{}
	}
	var out []string
	for _, p := range strings.Split(s, ",") {
		out = append(out, unhx(p))
	}
	return out
}

// tolerant of rewording: any message citing "offset N"; a quoted lexeme makes it an unknown-id error
var reOffset = regexp.MustCompile(`(?i)offset[ :=]*(\d+)`)
var reQuoted = regexp.MustCompile("['\"`]([^'\"`]*)['\"`]")

var reUnquoted = regexp.MustCompile(`(?i)unknown(?:\s+\w+)?\s+(\S+)\s+at\s+offset`)

// classifyErr: "other" (no offset cited), "eid N" (an offset, no lexeme: a missing id), "unk N <hex lexeme>".
// Tolerant of rewording: the lexeme is whichever quoted (or, failing that, unquoted) word of the message stands at the
// cited offset of one of the texts the caller passed in; only if none does is the first candidate reported.
func classifyErr(msg string, texts []string) string {
	m := reOffset.FindStringSubmatch(msg)
	if m == nil {
		return "other"
	}
	o, _ := strconv.Atoi(m[1])
	var cands []string
	for _, q := range reQuoted.FindAllStringSubmatch(msg, -1) {
		if q[1] != "" {
			cands = append(cands, q[1])
		}
	}
	if u := reUnquoted.FindStringSubmatch(msg); u != nil {
		cands = append(cands, strings.Trim(u[1], "'\"`:,"))
	}
	if len(cands) == 0 || strings.Contains(strings.ToLower(msg), "expected id") {
		return "eid " + m[1]
	}
	for _, w := range cands {
		for _, t := range texts {
			if o >= 0 && o+len(w) <= len(t) && t[o:o+len(w)] == w {
				return "unk " + m[1] + " " + hx(w)
			}
		}
	}
	return "unk " + m[1] + " " + hx(cands[0])
}

// evalLine runs the implementation on one protocol line and returns the canonical answer.
// Every call is wrapped in recover(): a panic is an answer ("PANIC"), never a crash of the driver.
func evalLine(line string) (out string) {
	f := strings.Split(line, " ")
	defer func() {
		if r := recover(); r != nil {
			out = f[0] + " PANIC"
		}
	}()
	switch f[0] {
	case "E":
		return evalExpand(unhx(f[1]))
	case "D":
		return evalDeep(f[1], f[2])
	case "T":
		return evalTokens(unhx(f[1]))
	case "P":
		return evalTree(unhx(f[1]))
	case "N":
		return evalRange(unhx(f[1]))
	case "K":
		var l []string
		if f[1] != "-" {
			l = unhxl(f[1])
		}
		return evalAllowed(l)
	case "V":
		ok, _ := spdxexp.ValidateLicenses([]string{unhx(f[1])})
		if ok {
			return "V 1"
		}
		return "V 0"
	case "S":
		var allowed []string
		if f[2] != "-" {
			allowed = unhxl(f[2])
		}
		ok, err := spdxexp.Satisfies(unhx(f[1]), allowed)
		if err != nil {
			if ok {
				return "S E-BUT-TRUE"
			}
			return "S E"
		}
		if ok {
			return "S T"
		}
		return "S F"
	case "X", "O":
		res, err := spdxexp.ExtractLicenses(unhx(f[1]))
		if err != nil {
			if res != nil {
				return f[0] + " E-BUT-NONNIL"
			}
			return f[0] + " E"
		}
		l := append([]string(nil), res...)
		// a result the caller still holds must not change when the library is called again
		spdxexp.ExtractLicenses("Zlib AND (0BSD OR Unlicense) AND X11 AND WTFPL AND curl AND Vim AND Ruby")
		for i := range l {
			if i >= len(res) || res[i] != l[i] {
				return f[0] + " RESULT-CHANGED-BY-A-LATER-CALL"
			}
		}
		if f[0] == "X" {
			sort.Strings(l)
		}
		return f[0] + " " + hxl(l)
	case "L":
		ok, bad := spdxexp.ValidateLicenses(unhxl(f[1]))
		v := 0
		if ok {
			v = 1
		}
		return fmt.Sprintf("L %d %s", v, hxl(bad))
	case "R", "Q":
		var err error
		if f[0] == "R" {
			_, err = spdxexp.ExtractLicenses(unhx(f[1]))
		} else {
			var allowed []string
			if f[2] != "-" {
				allowed = unhxl(f[2])
			}
			_, err = spdxexp.Satisfies(unhx(f[1]), allowed)
		}
		if err == nil {
			return f[0] + " ok"
		}
		texts := []string{unhx(f[1])}
		if f[0] == "Q" && f[2] != "-" {
			texts = append(texts, unhxl(f[2])...)
		}
		return f[0] + " " + classifyErr(err.Error(), texts)
	}
	return "? " + line
}

// ---------- context: memoised, batched, parallel evaluation ----------
type Fail struct {
	Property string      `json:"property"`
	API      string      `json:"api"`
	Args     interface{} `json:"args"`
	Lines    []string    `json:"lines,omitempty"` // protocol lines that re-execute the call(s)
	Observed string      `json:"observed"`
	Expected string      `json:"expected"`
	How      string      `json:"how_expected_was_computed"`
}

type Ctx struct {
	prop     string
	tier     string
	seed     uint64
	rng      *SM64
	memo     map[string]string
	order    []string // distinct protocol lines in first-request order
	pending  []string
	pendset  map[string]bool
	final    bool
	fails    []Fail
	failset  map[string]bool
	stats    map[string]int
	samples  []string
	requests int
}

const unknown = "?"

func (c *Ctx) ask(line string) string {
	c.requests++
	if r, ok := c.memo[line]; ok {
		return r
	}
	if !c.pendset[line] {
		c.pendset[line] = true
		c.pending = append(c.pending, line)
	}
	return unknown
}

// answers: "T" "F" "E" "PANIC" (or "?" while collecting)
func (c *Ctx) S(e string, a []string) string { return after(c.ask("S " + hx(e) + " " + hxl(a))) }
func (c *Ctx) V(e string) string             { return after(c.ask("V " + hx(e))) }
func (c *Ctx) R(e string) string             { return after(c.ask("R " + hx(e))) }
func (c *Ctx) E(e string) string             { return after(c.ask("E " + hx(e))) }
func (c *Ctx) Q(e string, a []string) string { return after(c.ask("Q " + hx(e) + " " + hxl(a))) }
func (c *Ctx) L(l []string) string           { return after(c.ask("L " + hxl(l))) }

// X: sorted set; O: in order.  ok=false on error/panic/unknown.
func (c *Ctx) X(e string) (string, []string) {
	r := after(c.ask("X " + hx(e)))
	if r == unknown || r == "E" || strings.HasPrefix(r, "PANIC") || strings.HasPrefix(r, "E-") {
		return r, nil
	}
	return "ok", unhxl(r)
}
func (c *Ctx) O(e string) (string, []string) {
	r := after(c.ask("O " + hx(e)))
	if r == unknown || r == "E" || strings.HasPrefix(r, "PANIC") || strings.HasPrefix(r, "E-") {
		return r, nil
	}
	return "ok", unhxl(r)
}
func after(r string) string {
	if r == unknown {
		return r
	}
	return r[2:]
}

func (c *Ctx) count(k string) { c.stats[k]++ }
func (c *Ctx) sample(s string) {
	if len(c.samples) < 12 {
		c.samples = append(c.samples, s)
	}
}

func (c *Ctx) fail(api string, args interface{}, observed, expected, how string) {
	if !c.final {
		return
	}
	key := fmt.Sprint(api, args, observed, expected)
	if c.failset[key] {
		return
	}
	c.failset[key] = true
	c.fails = append(c.fails, Fail{c.prop, api, args, linesOf(api, args), observed, expected, how})
}

func strs(v interface{}) []string {
	switch x := v.(type) {
	case []string:
		return x
	case nil:
		return nil
	}
	return nil
}

// linesOf derives the protocol lines that re-run the call(s) a failure is about
func linesOf(api string, args interface{}) []string {
	var out []string
	switch a := args.(type) {
	case map[string]interface{}:
		if d, ok := a["deep_line"].(string); ok {
			return []string{d}
		}
		e, _ := a["expression"].(string)
		if _, ok := a["expression"]; ok {
			if al, ok := a["allowed"]; ok {
				out = append(out, "S "+hx(e)+" "+hxl(strs(al)))
				for _, k := range []string{"allowed_variant", "allowed_extended"} {
					if v, ok := a[k]; ok {
						out = append(out, "S "+hx(e)+" "+hxl(strs(v)))
					}
				}
				if v, ok := a["expression_variant"].(string); ok {
					out = append(out, "S "+hx(v)+" "+hxl(strs(al)))
				}
				if v, ok := a["versus_expression"].(string); ok {
					out = append(out, "S "+hx(v)+" "+hxl(strs(al)))
				}
			} else {
				out = append(out, "O "+hx(e))
				if v, ok := a["expression_variant"].(string); ok {
					out = append(out, "O "+hx(v))
				}
			}
		}
	case string:
		if api == "ExtractLicenses" {
			out = append(out, "O "+hx(a), "R "+hx(a))
		}
	case []string:
		if api == "ValidateLicenses" {
			out = append(out, "L "+hxl(a))
		}
	}
	return out
}

func (c *Ctx) flush() {
	n := len(c.pending)
	res := make([]string, n)
	var wg sync.WaitGroup
	workers := runtime.NumCPU()
	ch := make(chan int, 1024)
	for w := 0; w < workers; w++ {
		wg.Add(1)
		go func() {
			defer wg.Done()
			for i := range ch {
				res[i] = evalLine(c.pending[i])
			}
		}()
	}
	for i := 0; i < n; i++ {
		ch <- i
	}
	close(ch)
	wg.Wait()
	for i, l := range c.pending {
		c.memo[l] = res[i]
		c.order = append(c.order, l)
	}
	c.pending = nil
	c.pendset = map[string]bool{}
}

// run executes gen repeatedly: calls whose answer is not yet known are queued and evaluated in
// parallel between passes; the last pass (nothing queued) is the one whose oracle verdicts count.
func (c *Ctx) run(gen func(*Ctx)) {
	for pass := 0; pass < 8; pass++ {
		c.rng = &SM64{c.seed}
		c.stats = map[string]int{}
		c.samples = nil
		c.requests = 0
		c.final = false
		gen(c)
		if len(c.pending) == 0 {
			c.rng = &SM64{c.seed}
			c.stats = map[string]int{}
			c.samples = nil
			c.requests = 0
			c.final = true
			gen(c)
			return
		}
		c.flush()
	}
	fmt.Fprintln(os.Stderr, "godriver: generator did not converge")
	os.Exit(2)
}

// auxiliary lines: the internal stages (tokens, tree, allowed-node list, range lookup) of the inputs of this run,
// reached through the guarded hooks of spdxexp/verif_hooks.go and compared with the model of the same stage.
// They are not observables of the exported API and never decide a verdict.
func (c *Ctx) addAuxiliary() {
	if !hooksAvailable {
		return
	}
	limit := 4000
	if c.thorough() {
		limit = 40000
	}
	seen := map[string]bool{}
	var aux []string
	add := func(l string) {
		if !seen[l] && len(l) < 6000 {
			seen[l] = true
			aux = append(aux, l)
		}
	}
	nE, nK := 0, 0
	for _, l := range c.order {
		f := strings.Split(l, " ")
		switch f[0] {
		case "V", "S", "X", "O", "R", "Q":
			if nE < limit && !seen["T "+f[1]] {
				nE++
				add("T " + f[1])
				add("P " + f[1])
			}
			if (f[0] == "S" || f[0] == "Q") && len(f) > 2 && nK < limit {
				if !seen["K "+f[2]] {
					nK++
				}
				add("K " + f[2])
			}
		}
	}
	if c.prop == "C02" || c.prop == "C11" || c.prop == "C08" {
		for _, x := range append(append([]string{}, tActive...), tDeprec...) {
			add("N " + hx(x))
			add("N " + hx(x+"-or-later"))
			add("N " + hx(strings.ToLower(x)))
		}
	}
	res := make([]string, len(aux))
	var wg sync.WaitGroup
	for w := 0; w < 16; w++ {
		wg.Add(1)
		go func(w int) {
			defer wg.Done()
			for i := w; i < len(aux); i += 16 {
				res[i] = evalLine(aux[i])
			}
		}(w)
	}
	wg.Wait()
	for i, l := range aux {
		if _, ok := c.memo[l]; !ok {
			c.memo[l] = res[i]
			c.order = append(c.order, l)
		}
	}
}

func (c *Ctx) write(dir string, extra map[string]interface{}) {
	must(os.MkdirAll(dir, 0o755))
	if c.prop != "C13" && c.prop != "C14" {
		c.addAuxiliary()
	}
	var cb, ib strings.Builder
	for _, l := range c.order {
		cb.WriteString(l + "\n")
		ib.WriteString(c.memo[l] + "\n")
	}
	must(os.WriteFile(filepath.Join(dir, "cases.txt"), []byte(cb.String()), 0o644))
	must(os.WriteFile(filepath.Join(dir, "impl.txt"), []byte(ib.String()), 0o644))
	var ob strings.Builder
	for _, f := range c.fails {
		j, _ := json.Marshal(f)
		ob.Write(j)
		ob.WriteString("\n")
	}
	must(os.WriteFile(filepath.Join(dir, "oracle.jsonl"), []byte(ob.String()), 0o644))
	dist := map[string]int{}
	for _, l := range c.order {
		dist["api_"+l[:1]]++
		if strings.ContainsAny(l[:1], "TPNKE") {
			// auxiliary stage lines: value / error only
			w := "value"
			if a := c.memo[l]; len(a) > 2 && (a[2:] == "E" || a[2:] == "none" || strings.HasPrefix(a[2:], "PANIC") || strings.HasPrefix(a[2:], "unsupported")) {
				w = a[2:]
			}
			dist["answer_"+l[:1]+"_"+w]++
			continue
		}
		dist["answer_"+strings.SplitN(c.memo[l], " ", 3)[0]+"_"+firstWord(c.memo[l][2:])]++
	}
	st := map[string]interface{}{
		"property": c.prop, "tier": c.tier, "seed": c.seed,
		"distinct_calls": len(c.order), "requests": c.requests,
		"oracle_failures": len(c.fails), "stats": c.stats, "answer_distribution": dist, "samples": c.samples,
	}
	for k, v := range extra {
		st[k] = v
	}
	j, _ := json.MarshalIndent(st, "", " ")
	must(os.WriteFile(filepath.Join(dir, "stats.json"), j, 0o644))
}

func firstWord(s string) string {
	w := strings.SplitN(s, " ", 2)[0]
	if strings.HasPrefix(w, "x") || w == "-" {
		return "list"
	}
	if _, err := strconv.Atoi(w); err == nil && len(s) > 2 {
		return w
	}
	return w
}

func must(err error) {
	if err != nil {
		fmt.Fprintln(os.Stderr, "godriver:", err)
		os.Exit(2)
	}
}
