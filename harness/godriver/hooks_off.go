//go:build !verif

package main

func evalExpand(e string) string { return "E unsupported-without-the-verif-tag" }
