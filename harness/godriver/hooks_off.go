//go:build !verif

package main

const hooksAvailable = false

func evalExpand(e string) string    { return "E unsupported-without-the-verif-tag" }
func evalTokens(e string) string    { return "T unsupported-without-the-verif-tag" }
func evalTree(e string) string      { return "P unsupported-without-the-verif-tag" }
func evalRange(id string) string    { return "N unsupported-without-the-verif-tag" }
func evalAllowed(l []string) string { return "K unsupported-without-the-verif-tag" }
