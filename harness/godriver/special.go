package main

import (
	"bufio"
	"bytes"
	"encoding/json"
	"fmt"
	"io"
	"os"
	"os/exec"
	"path/filepath"
	"reflect"
	"runtime"
	"sort"
	"strconv"
	"strings"
	"sync"
	"syscall"
	"time"

	"github.com/github/go-spdx/v2/spdxexp"
	"github.com/github/go-spdx/v2/spdxexp/spdxlicenses"
)

func evalStdin() {
	sc := bufio.NewScanner(os.Stdin)
	sc.Buffer(make([]byte, 1<<20), 1<<28)
	w := bufio.NewWriter(os.Stdout)
	defer w.Flush()
	for sc.Scan() {
		fmt.Fprintln(w, evalLine(sc.Text()))
	}
}

// ---------------- C12 ----------------
var c12extra map[string]interface{}

func repoDir() string {
	if d := os.Getenv("VERIF_REPO"); d != "" {
		return d
	}
	return "/repo"
}

type jl struct {
	ID  string
	Dep bool
}

func readJSONLists() (lic, exc []jl) {
	var ld struct {
		Licenses []struct {
			IsDeprecated bool   `json:"isDeprecatedLicenseId"`
			LicenseID    string `json:"licenseId"`
		} `json:"licenses"`
	}
	raw, err := os.ReadFile(filepath.Join(repoDir(), "cmd", "licenses.json"))
	must(err)
	must(json.Unmarshal(raw, &ld))
	for _, l := range ld.Licenses {
		lic = append(lic, jl{l.LicenseID, l.IsDeprecated})
	}
	var ed struct {
		Exceptions []struct {
			IsDeprecated bool   `json:"isDeprecatedLicenseId"`
			LicenseID    string `json:"licenseExceptionId"`
		} `json:"exceptions"`
	}
	raw, err = os.ReadFile(filepath.Join(repoDir(), "cmd", "exceptions.json"))
	must(err)
	must(json.Unmarshal(raw, &ed))
	for _, l := range ed.Exceptions {
		exc = append(exc, jl{l.LicenseID, l.IsDeprecated})
	}
	return
}

// writeSynthJSON writes the two SPDX data files.  sparse != nil: entries that are not deprecated carry the flag as
// false, as null, or not at all (seeded) - three spellings of "not deprecated" - and every entry carries the other
// fields of the real files
func writeSynthJSON(dir string, lic, exc []jl, sparse *SM64) {
	entry := func(idKey string, x jl, i int) map[string]interface{} {
		m := map[string]interface{}{idKey: x.ID, "name": "n", "referenceNumber": i, "seeAlso": []string{"https://example.org/" + x.ID}}
		switch {
		case x.Dep:
			m["isDeprecatedLicenseId"] = true
		case sparse == nil:
			m["isDeprecatedLicenseId"] = false
		default:
			switch sparse.Intn(3) {
			case 0:
				m["isDeprecatedLicenseId"] = false
			case 1:
				m["isDeprecatedLicenseId"] = nil
			}
		}
		return m
	}
	ls := []map[string]interface{}{}
	for i, x := range lic {
		ls = append(ls, entry("licenseId", x, i))
	}
	es := []map[string]interface{}{}
	for i, x := range exc {
		es = append(es, entry("licenseExceptionId", x, i))
	}
	top := map[string]interface{}{"licenseListVersion": "synthetic", "licenses": ls}
	topE := map[string]interface{}{"licenseListVersion": "synthetic", "exceptions": es}
	if sparse != nil {
		// other top-level members that mention the same key names (encoding/json sorts keys: these come first)
		nested := []map[string]interface{}{{"licenseId": "Nested-1.0", "licenseExceptionId": "Nested-exception", "isDeprecatedLicenseId": false}}
		top["aaa_changes"] = map[string]interface{}{"licenses": nested, "exceptions": nested}
		top["kind"] = "licenses"
		top["releaseDate"] = "2026-01-01"
		topE["aaa_changes"] = map[string]interface{}{"exceptions": nested, "licenses": nested}
		topE["kind"] = "exceptions"
	}
	j, _ := json.Marshal(top)
	must(os.WriteFile(filepath.Join(dir, "licenses.json"), j, 0o644))
	j, _ = json.Marshal(topE)
	must(os.WriteFile(filepath.Join(dir, "exceptions.json"), j, 0o644))
}

// runGenerator runs the real cmd program in a scratch copy; returns the bytes of the three files it wrote.
func runGenerator(scratch string, lic, exc []jl, useRepoJSON bool, sparse *SM64) (map[string][]byte, string) {
	os.RemoveAll(scratch)
	cmdDir := filepath.Join(scratch, "cmd")
	outDir := filepath.Join(scratch, "spdxexp", "spdxlicenses")
	must(os.MkdirAll(cmdDir, 0o755))
	must(os.MkdirAll(outDir, 0o755))
	// the files being regenerated already exist and are LONGER than what will be written (a table that lost ids)
	for _, f := range []string{"get_licenses.go", "get_deprecated.go", "get_exceptions.go"} {
		b, err := os.ReadFile(filepath.Join(repoDir(), "spdxexp", "spdxlicenses", f))
		must(err)
		b = append(b, []byte("\n// stale tail of a previous, longer table\nvar _ = []string{\"Stale-1.0\", \"Stale-2.0\"}\n")...)
		must(os.WriteFile(filepath.Join(outDir, f), b, 0o600))
	}
	src, _ := filepath.Glob(filepath.Join(repoDir(), "cmd", "*.go"))
	for _, f := range src {
		b, err := os.ReadFile(f)
		must(err)
		must(os.WriteFile(filepath.Join(cmdDir, filepath.Base(f)), b, 0o644))
	}
	for _, f := range []string{"go.mod", "go.sum"} {
		b, err := os.ReadFile(filepath.Join(repoDir(), f))
		must(err)
		must(os.WriteFile(filepath.Join(scratch, f), b, 0o644))
	}
	if useRepoJSON {
		for _, f := range []string{"licenses.json", "exceptions.json"} {
			b, err := os.ReadFile(filepath.Join(repoDir(), "cmd", f))
			must(err)
			must(os.WriteFile(filepath.Join(cmdDir, f), b, 0o644))
		}
	} else {
		writeSynthJSON(cmdDir, lic, exc, sparse)
	}
	bin := filepath.Join(scratch, "gen.bin")
	build := exec.Command("go", "build", "-o", bin, ".")
	build.Dir = cmdDir
	if o, err := build.CombinedOutput(); err != nil {
		return nil, "go build of cmd failed: " + string(o)
	}
	run := exec.Command(bin, "extract", "-l", "-e")
	run.Dir = cmdDir
	if o, err := run.CombinedOutput(); err != nil {
		return nil, "generator failed: " + string(o)
	}
	out := map[string][]byte{}
	for _, f := range []string{"get_licenses.go", "get_deprecated.go", "get_exceptions.go"} {
		b, err := os.ReadFile(filepath.Join(outDir, f))
		if err != nil {
			return nil, "generator did not write " + f
		}
		out[f] = b
	}
	return out, ""
}

func pairsLine(kind string, l []jl) string {
	var p []string
	for _, x := range l {
		d := "0"
		if x.Dep {
			d = "1"
		}
		p = append(p, hx(x.ID)+":"+d)
	}
	s := "-"
	if len(p) > 0 {
		s = strings.Join(p, ",")
	}
	return "G " + kind + " " + s
}

var c12genCases [][2]string // protocol line, impl answer (bytes the real generator wrote)
var c12genDone bool

func genC12(c *Ctx) {
	lic, exc := readJSONLists()
	// (i) the lists the code returns are exactly the partition of the JSON, in file order
	var wantA, wantD, wantE []string
	for _, x := range lic {
		if x.Dep {
			wantD = append(wantD, x.ID)
		} else {
			wantA = append(wantA, x.ID)
		}
	}
	for _, x := range exc {
		if !x.Dep {
			wantE = append(wantE, x.ID)
		}
	}
	cmpList := func(name string, got, want []string) {
		sortedCopy := func(l []string) []string { c := append([]string{}, l...); sort.Strings(c); return c }
		// same members with the same multiplicity (the ORDER of the generated tables is the generator's business: it is
		// pinned by "re-running the generator reproduces the committed files", not by this comparison)
		if !reflect.DeepEqual(sortedCopy(got), sortedCopy(want)) {
			gs, ws := map[string]bool{}, map[string]bool{}
			for _, x := range got {
				gs[x] = true
			}
			for _, x := range want {
				ws[x] = true
			}
			var d []string
			for _, x := range want {
				if !gs[x] {
					d = append(d, "missing "+x)
				}
			}
			for _, x := range got {
				if !ws[x] {
					d = append(d, "extra "+x)
				}
			}
			if len(d) == 0 {
				d = []string{"same members, different multiplicity"}
			}
			if len(d) > 6 {
				d = d[:6]
			}
			c.fail(name, "cmd/*.json", strings.Join(d, "; "), "exactly the ids of the JSON file", "partition of cmd/licenses.json / cmd/exceptions.json by isDeprecatedLicenseId")
		}
	}
	cmpList("spdxlicenses.GetLicenses", tActive, wantA)
	cmpList("spdxlicenses.GetDeprecated", tDeprec, wantD)
	cmpList("spdxlicenses.GetExceptions", tExcs, wantE)
	// (ii) disjoint, fold-unique
	seen := map[string]string{}
	for name, l := range map[string][]string{"active": tActive, "deprecated": tDeprec, "exceptions": tExcs} {
		for _, x := range l {
			k := strings.ToLower(x)
			if w, ok := seen[k]; ok {
				c.fail("spdxlicenses lists", x, name+" and "+w, "pairwise disjoint and no two ids equal up to letter case", "direct scan of the three lists")
			}
			seen[k] = name + ":" + x
		}
	}
	// (iii) generator reproduces the committed files, and the generator model is tied on synthetic JSON
	if !c12genDone {
		c12genDone = true
		scratch := filepath.Join(os.Getenv("VERIF_RUNDIR"), "gen")
		if os.Getenv("VERIF_RUNDIR") == "" {
			scratch = filepath.Join(os.TempDir(), "verif-c12-gen")
		}
		files, errs := runGenerator(scratch, nil, nil, true, nil)
		if errs != "" {
			c12genCases = append(c12genCases, [2]string{"G X -", "G " + errs})
		} else {
			for _, f := range []string{"get_licenses.go", "get_deprecated.go", "get_exceptions.go"} {
				committed, err := os.ReadFile(filepath.Join(repoDir(), "spdxexp", "spdxlicenses", f))
				must(err)
				if !bytes.Equal(committed, files[f]) {
					c12regenDiff = append(c12regenDiff, f)
				}
			}
			c12genCases = append(c12genCases,
				[2]string{pairsLine("L", lic), "G " + hx(string(files["get_licenses.go"]))},
				[2]string{pairsLine("D", lic), "G " + hx(string(files["get_deprecated.go"]))},
				[2]string{pairsLine("E", exc), "G " + hx(string(files["get_exceptions.go"]))})
		}
		nsyn := 3
		if c.thorough() {
			nsyn = 9
		}
		r := &SM64{c.seed ^ 0xc12}
		odd := []string{"A-1.0", "a-1.0+", "X.Y", "Z--", "0", "with-exception", "Q-only", "Q-or-later", "MIT", "mit-0",
			"AND-1.0", "WITH-exception", "OR", "and", "a\"b", "a\\b", "x`y", "CC-BY-100%-Free", "P%s", "%d-1.0", "Escaped-%%-twice", "trailing%", "%v", strings.Repeat("Long-Identifier-", 5) + "1.0"}
		for k := 0; k < nsyn; k++ {
			var sl, se []jl
			n := 4 + r.Intn(12)
			for j := 0; j < n; j++ {
				sl = append(sl, jl{odd[r.Intn(len(odd))] + strconv.Itoa(r.Intn(3)), r.Intn(3) == 0})
			}
			m := 3 + r.Intn(6)
			for j := 0; j < m; j++ {
				se = append(se, jl{odd[r.Intn(len(odd))] + "-exception", r.Intn(3) == 0})
			}
			if k == 0 {
				sl, se = nil, nil
			}
			var sparse *SM64
			if k%2 == 0 {
				sparse = r
			}
			files, errs := runGenerator(scratch, sl, se, false, sparse)
			if errs != "" {
				c12genCases = append(c12genCases, [2]string{pairsLine("L", sl), "G " + errs})
				continue
			}
			c12genCases = append(c12genCases,
				[2]string{pairsLine("L", sl), "G " + hx(string(files["get_licenses.go"]))},
				[2]string{pairsLine("D", sl), "G " + hx(string(files["get_deprecated.go"]))},
				[2]string{pairsLine("E", se), "G " + hx(string(files["get_exceptions.go"]))})
		}
		os.RemoveAll(scratch)
		refreshRan, refreshNote := refreshScenario(c, lic, exc)
		c12refresh = map[string]interface{}{"ran": refreshRan, "note": refreshNote}
		for _, gc := range c12genCases {
			c.memo[gc[0]] = gc[1]
			c.order = append(c.order, gc[0])
		}
		c12extra = map[string]interface{}{"generator_runs": len(c12genCases) / 3, "regenerated_files_differ": c12regenDiff, "refresh_scenario": c12refresh}
	}
	for _, f := range c12refreshFails {
		c.fail(f.api, f.args, f.obs, f.exp, f.how)
	}
	c.stats["refresh_probe_calls"] = c12refreshCalls
	for _, f := range c12regenDiff {
		c.fail("cmd extract -l -e", f, "differs from the committed file", "byte-for-byte identical", "the real generator run on /repo/cmd/*.json in a scratch copy")
	}
	c.checkAliasing()
	// (iv) every listed license id is a valid one-term expression; every exception id only after WITH
	for _, x := range append(append([]string{}, tActive...), tDeprec...) {
		if !isIDWord(x) {
			// ids such as GPL-2.0+ are spelt with an operator character: accepted as text all the same
		}
		c.count("license_ids")
		if r := c.V(x); r != unknown && r != "1" {
			c.fail("ValidateLicenses", []string{x}, "invalid", "valid", "every listed license id is accepted as a one-term expression")
		}
		if r, xs := c.X(x); r != unknown && (r != "ok" || len(xs) != 1) {
			c.fail("ExtractLicenses", x, r+fmt.Sprint(xs), "one term", "every listed license id is accepted as a one-term expression")
		}
	}
	for _, e := range tExcs {
		c.count("exception_ids")
		for s, want := range map[string]string{
			"MIT WITH " + e: "1", e: "0", e + " AND MIT": "0", "MIT AND " + e: "0", "(" + e + ")": "0",
			e + " WITH " + e: "0", "MIT OR " + e: "0", e + "+": "0", "MIT WITH (" + e + ")": "0",
		} {
			if r := c.V(s); r != unknown && r != want {
				c.fail("ValidateLicenses", []string{s}, r, want, "every exception id is accepted after WITH and nowhere else")
			}
		}
	}
	for _, x := range []string{"MIT", "GPL-2.0-only", "Apache-2.0"} {
		if r := c.V("MIT WITH " + x); r != unknown && r != "0" {
			c.fail("ValidateLicenses", []string{"MIT WITH " + x}, r, "0", "only exception ids are accepted after WITH")
		}
	}
}

var c12regenDiff []string
var c12refresh map[string]interface{}
var c12refreshCalls int

type c12rf struct {
	api      string
	args     interface{}
	obs, exp string
	how      string
}

var c12refreshFails []c12rf

// recorded once (the scenario runs in the first generator pass), reported in every pass
func c12refreshFail(api string, args interface{}, obs, exp, how string) {
	c12refreshFails = append(c12refreshFails, c12rf{api, args, obs, exp, how})
}

// refreshScenario: a data refresh seen end to end.  In a scratch copy of the whole module the SPDX JSON gets further
// entries (long ids, ids with digits and dots; active, deprecated, exceptions), the real generator is run there, this
// driver is built there against the regenerated tables, and every listed id must be accepted as a one-term expression,
// every exception after WITH and nowhere else - the last sentence of the property, for tables other than today's.
func refreshScenario(c *Ctx, lic, exc []jl) (ran bool, note string) {
	src := os.Getenv("VERIF_HARNESS")
	if src == "" || os.Getenv("VERIF_RUNDIR") == "" {
		return false, "VERIF_HARNESS / VERIF_RUNDIR not set"
	}
	scratch := filepath.Join(os.Getenv("VERIF_RUNDIR"), "refresh")
	os.RemoveAll(scratch)
	defer os.RemoveAll(scratch)
	copyTree := func(rel string, skipTests bool) {
		files, _ := filepath.Glob(filepath.Join(repoDir(), rel, "*"))
		must(os.MkdirAll(filepath.Join(scratch, rel), 0o755))
		for _, f := range files {
			st, err := os.Stat(f)
			if err != nil || st.IsDir() || (skipTests && strings.HasSuffix(f, "_test.go")) {
				continue
			}
			b, err := os.ReadFile(f)
			must(err)
			must(os.WriteFile(filepath.Join(scratch, rel, filepath.Base(f)), b, 0o644))
		}
	}
	copyTree(".", true)
	copyTree("cmd", true)
	copyTree("spdxexp", true)
	copyTree("spdxexp/spdxlicenses", true)
	os.Remove(filepath.Join(scratch, "spdxexp", "verif_hooks.go"))
	var newLic, newExc []jl
	for i, n := range []int{12, 33, 40, 63, 64, 65, 66, 100, 130, 300} {
		newLic = append(newLic, jl{"Refreshed-" + strings.Repeat("x", n-10), i%4 == 3})
		ky := n - 20
		if ky < 1 {
			ky = 1
		}
		newExc = append(newExc, jl{"Refreshed-" + strings.Repeat("y", ky) + "-exception", i%5 == 4})
	}
	newLic = append(newLic, jl{"Refreshed-2.0.1", false}, jl{"Refreshed-10.0", false}, jl{"zz-Refreshed.dotted.id-3", true})
	allLic := append(append([]jl{}, lic...), newLic...)
	allExc := append(append([]jl{}, exc...), newExc...)
	writeSynthJSON(filepath.Join(scratch, "cmd"), allLic, allExc, nil)
	bin := filepath.Join(scratch, "gen.bin")
	build := exec.Command("go", "build", "-o", bin, ".")
	build.Dir = filepath.Join(scratch, "cmd")
	if o, err := build.CombinedOutput(); err != nil {
		return false, "go build of cmd failed in the scratch copy: " + string(o)
	}
	run := exec.Command(bin, "extract", "-l", "-e")
	run.Dir = filepath.Join(scratch, "cmd")
	if o, err := run.CombinedOutput(); err != nil {
		c12refreshFail("cmd extract -l -e", "cmd/*.json extended with further ids", "generator failed: "+string(o), "regenerated tables", "real generator in a scratch copy of the module")
		return true, ""
	}
	must(os.MkdirAll(filepath.Join(scratch, "verifdriver"), 0o755))
	srcs, _ := filepath.Glob(filepath.Join(src, "godriver", "*.go"))
	for _, f := range srcs {
		b, err := os.ReadFile(f)
		must(err)
		must(os.WriteFile(filepath.Join(scratch, "verifdriver", filepath.Base(f)), b, 0o644))
	}
	probe := filepath.Join(scratch, "probe.bin")
	pb := exec.Command("go", "build", "-o", probe, "./verifdriver")
	pb.Dir = scratch
	if o, err := pb.CombinedOutput(); err != nil {
		return false, "the driver does not build against the regenerated tables: " + string(o)
	}
	var lines, want []string
	for _, x := range allLic {
		lines = append(lines, "V "+hx(x.ID), "V "+hx(strings.ToUpper(x.ID)), "S "+hx(x.ID)+" "+hxl([]string{x.ID}))
		want = append(want, "V 1", "V 1", "S T")
	}
	for _, x := range allExc {
		if x.Dep {
			continue
		}
		lines = append(lines, "V "+hx("MIT WITH "+x.ID), "V "+hx(x.ID), "V "+hx("MIT AND "+x.ID))
		want = append(want, "V 1", "V 0", "V 0")
	}
	ev := exec.Command(probe, "eval")
	ev.Dir = scratch
	ev.Stdin = strings.NewReader(strings.Join(lines, "\n") + "\n")
	o, err := ev.Output()
	if err != nil {
		c12refreshFail("library on regenerated tables", "cmd/*.json extended with further ids", "probe failed: "+err.Error(), "answers", "driver built in the scratch copy")
		return true, ""
	}
	got := strings.Split(strings.TrimSpace(string(o)), "\n")
	for i := range lines {
		c12refreshCalls++
		if i >= len(got) || got[i] != want[i] {
			g := "(no answer)"
			if i < len(got) {
				g = got[i]
			}
			c12refreshFail("library on regenerated tables", map[string]interface{}{"call": lines[i], "scenario": "cmd/*.json extended with further ids, generator re-run, library rebuilt"}, g, want[i],
				"every listed license id is accepted as a one-term expression (in any letter case) and matches itself; every exception id is accepted after WITH and nowhere else")
		}
	}
	return true, ""
}

// ---------------- C13 ----------------
type call struct {
	line string
	kind byte
	expr string
	list []string
}

func decodeCall(line string) call {
	f := strings.Split(line, " ")
	k := call{line: line, kind: line[0]}
	switch f[0] {
	case "S":
		k.expr = unhx(f[1])
		if f[2] != "-" {
			k.list = unhxl(f[2])
		}
	case "L":
		k.list = unhxl(f[1])
	default:
		k.expr = unhx(f[1])
	}
	return k
}

// execCall runs the call on the SHARED argument values (no copies) and returns the full, ordered result.
func execCall(k *call) (out string) {
	defer func() {
		if r := recover(); r != nil {
			out = "PANIC"
		}
	}()
	switch k.kind {
	case 'S':
		ok, err := spdxexp.Satisfies(k.expr, k.list)
		return fmt.Sprint(ok, err)
	case 'L':
		ok, bad := spdxexp.ValidateLicenses(k.list)
		return fmt.Sprint(ok, len(bad), bad)
	default:
		l, err := spdxexp.ExtractLicenses(k.expr)
		return fmt.Sprint(len(l), l, err)
	}
}

func runC13(c *Ctx, out string) {
	// workload drawn from the other generators
	var lines []string
	for _, p := range []string{"C01", "C04", "C06", "C07"} {
		cc := newCtx(p, "quick", c.seed)
		cc.run(gens[p])
		r := &SM64{c.seed ^ uint64(len(p))}
		idx := map[int]bool{}
		for len(idx) < 110 && len(idx) < len(cc.order) {
			idx[r.Intn(len(cc.order))] = true
		}
		for i := range cc.order {
			if idx[i] && cc.order[i][0] != 'V' && cc.order[i][0] != 'R' {
				lines = append(lines, cc.order[i])
			}
		}
	}
	lines = uniq(lines)
	// history stress: calls that differ only in the letter case of reference names / ids, long unsorted lists
	long := []string{"Zlib", "MIT", "Apache-2.0", "MIT", "ISC", "BSD-3-Clause", "Apache-2.0", "X11", "0BSD", "WTFPL", "curl", "Ruby", "Vim", "NCSA", "BSL-1.0", "CC0-1.0", "EPL-2.0", "Beerware", "ISC", "AAL"}
	lines = append(lines,
		"S "+hx("MIT")+" "+hxl([]string{"MIT", "LicenseRef-Corp-TOS"}),
		"S "+hx("LicenseRef-corp-tos")+" "+hxl([]string{"LicenseRef-corp-tos"}),
		"S "+hx("LicenseRef-corp-tos")+" "+hxl([]string{"MIT", "LicenseRef-corp-tos"}),
		"S "+hx("LicenseRef-Corp-TOS")+" "+hxl([]string{"MIT", "LicenseRef-corp-tos"}),
		"S "+hx("LicenseRef-corp-tos")+" "+hxl([]string{"LicenseRef-CORP-TOS", "mit"}),
		"S "+hx("DocumentRef-a:LicenseRef-b")+" "+hxl([]string{"DocumentRef-A:LicenseRef-b"}),
		"S "+hx("DocumentRef-a:LicenseRef-b")+" "+hxl([]string{"DocumentRef-a:LicenseRef-b"}),
		"S "+hx("mit")+" "+hxl([]string{"MIT"}), "S "+hx("MIT")+" "+hxl([]string{"mit"}),
		"S "+hx("MIT AND ISC")+" "+hxl(long), "S "+hx("AAL OR Vim")+" "+hxl(long), "L "+hxl(long),
		"X "+hx("LicenseRef-Acme AND LicenseRef-acme OR mit AND MIT"), "X "+hx("LicenseRef-acme AND LicenseRef-Acme"),
		"S "+hx("MIT OR Apache-2.0")+" "+hxl([]string{"MIT OR Apache-2.0"}), "S "+hx("MIT")+" "+hxl([]string{"MIT OR Apache-2.0"}),
		"S "+hx("MIT")+" "+hxl([]string{"MIT", "MIT OR Apache-2.0"}))
	lines = append(lines,
		"X "+hx("Apache-2.0-or-later AND NOT-A-LICENSE"), "X "+hx("BOGUS"), "X "+hx("MIT AND BOGUS-9.9"), "X "+hx("LicenseRef-"),
		"S "+hx("MIT")+" "+hxl([]string{"Apache-1.0-or-later", "MIT", "NOT-A-LICENSE"}), "S "+hx("MIT")+" "+hxl([]string{"NOT-A-LICENSE"}),
		"S "+hx("MIT-or-later AND Zlib-or-later AND FOO")+" "+hxl([]string{"MIT"}), "X "+hx("MIT OR FOO"))
	// argument-sharing stress: long allowed lists with duplicates in unsorted order
	lines = append(lines, "S "+hx("MIT OR Apache-2.0")+" "+hxl([]string{"Zlib", "MIT", "Apache-2.0", "MIT", "ISC", "BSD-3-Clause", "Apache-2.0"}),
		"S "+hx("GPL-2.0-or-later AND MIT")+" "+hxl([]string{"mit", "GPL-3.0-only", "Zlib", "GPL-3.0-only", "0BSD"}),
		"L "+hxl([]string{"Zlib", "FOO", "MIT", "BAR", "(", "Apache-2.0"}))
	// a flood of distinct inputs between repetitions of the same calls (bounded caches, recycled buffers): the
	// repetitions are the workload itself (every history re-executes every call)
	flood := 700
	facts, mutableState := staticScan(repoDir())
	if mutableState || c.thorough() {
		flood = 5000
	}
	for i := 0; i < flood; i++ {
		switch i % 3 {
		case 0:
			lines = append(lines, "X "+hx(fmt.Sprintf("LicenseRef-flood-%d OR MIT", i)))
		case 1:
			lines = append(lines, "S "+hx("MIT")+" "+hxl([]string{fmt.Sprintf("LicenseRef-flood-%d", i), "MIT"}))
		default:
			lines = append(lines, "L "+hxl([]string{fmt.Sprintf("LicenseRef-flood-%d", i), "Apache-2.0"}))
		}
	}
	// results that must come out in the same order every time: many terms, few distinct ones
	for _, n := range []int{9, 17, 33, 40, 65, 120, 300} {
		ids := []string{"MIT", "ISC", "Zlib", "Apache-2.0", "GPL-2.0-only", "LicenseRef-o1", "LicenseRef-o2", "0BSD", "X11", "curl", "Vim", "Ruby"}
		p := make([]string, n)
		for i := range p {
			p[i] = ids[(i*5+i/7)%len(ids)]
		}
		lines = append(lines, "X "+hx(strings.Join(p, " AND ")), "X "+hx(strings.Join(p, " OR ")))
	}
	// names that collide under the usual cheap checksums (31-polynomial: "Aa"/"BB"; sums: permutations; xor: doubled bytes)
	for _, pr := range [][2]string{{"Aa", "BB"}, {"AaAa", "BBBB"}, {"AaBB", "BBAa"}, {"ab", "ba"}, {"abc", "cba"}, {"aab", "aba"}, {"xx", "yy"}, {"a-b", "b-a"}, {"Ab", "BC"}, {"C#", "Bb"}} {
		a, b := "LicenseRef-"+strings.ReplaceAll(pr[0], "#", "."), "LicenseRef-"+strings.ReplaceAll(pr[1], "#", ".")
		lines = append(lines, "S "+hx(a)+" "+hxl([]string{b}), "S "+hx(b)+" "+hxl([]string{a}), "X "+hx(a), "X "+hx(b), "S "+hx(a)+" "+hxl([]string{a}), "X "+hx(a+" OR "+b))
	}
	// the same strings in different roles (expression / allowed entry / list element), interleaved
	for _, p := range confusable {
		a, b := p[0], p[1]
		lines = append(lines, "S "+hx(a)+" "+hxl([]string{b}), "S "+hx(b)+" "+hxl([]string{a}), "X "+hx(a+" AND "+b), "L "+hxl([]string{a, b, a}),
			"S "+hx(a+" OR "+b)+" "+hxl([]string{b, a, b}), "X "+hx(b), "S "+hx(a)+" "+hxl([]string{a}))
	}
	lines = uniq(lines)
	calls := make([]*call, len(lines))
	snapshot := make([]call, len(lines))
	const sentinel = "SENTINEL-beyond-the-length-of-the-callers-slice"
	for i, l := range lines {
		k := decodeCall(l)
		if k.list != nil {
			// the caller's slice has spare capacity: an append inside the library would write into the caller's array
			backing := make([]string, len(k.list), len(k.list)+4)
			copy(backing, k.list)
			full := backing[:cap(backing)]
			for j := len(k.list); j < len(full); j++ {
				full[j] = sentinel
			}
			k.list = backing
		}
		calls[i] = &k
		snapshot[i] = decodeCall(l)
	}
	// redirect stdout/stderr (both the os.File variables and the descriptors)
	pr, pw, err := os.Pipe()
	must(err)
	savedOut, savedErr := os.Stdout, os.Stderr
	fd1, _ := syscall.Dup(1)
	fd2, _ := syscall.Dup(2)
	syscall.Dup2(int(pw.Fd()), 1)
	syscall.Dup2(int(pw.Fd()), 2)
	os.Stdout, os.Stderr = pw, pw
	var captured bytes.Buffer
	done := make(chan struct{})
	go func() { io.Copy(&captured, pr); close(done) }()

	base := make([]string, len(calls))
	for i, k := range calls {
		base[i] = execCall(k)
	}
	type diff struct {
		Line, Phase, Got, Want string
	}
	var diffs []diff
	rng := &SM64{c.seed}
	order := func() []int {
		p := make([]int, len(calls))
		for i := range p {
			p[i] = i
		}
		for i := len(p) - 1; i > 0; i-- {
			j := rng.Intn(i + 1)
			p[i], p[j] = p[j], p[i]
		}
		return p
	}
	histories := 0
	for s := 0; s < 3; s++ {
		histories++
		for _, i := range order() {
			if r := execCall(calls[i]); r != base[i] {
				diffs = append(diffs, diff{lines[i], "shuffled sequential history", r, base[i]})
			}
		}
	}
	// the caller refills one slice between calls: same backing array, same length, other content.  All calls on the
	// reused slice come first, back to back; the reference answers (fresh slices) are computed afterwards, so that no
	// other call stands between two uses of the buffer
	for _, width := range []int{1, 2, 3} {
		buf := make([]string, width)
		type rec struct {
			e    string
			list []string
			got  bool
		}
		var recs []rec
		pool := []string{"MIT", "ISC", "Apache-2.0", "GPL-2.0-only", "GPL-2.0+", "LicenseRef-x", "Zlib"}
		for round := 0; round < 60; round++ {
			for j := range buf {
				buf[j] = pool[rng.Intn(len(pool))]
			}
			e := pool[rng.Intn(len(pool))]
			got, _ := spdxexp.Satisfies(e, buf)
			recs = append(recs, rec{e, append([]string{}, buf...), got})
		}
		for _, r := range recs {
			want, _ := spdxexp.Satisfies(r.e, append([]string{}, r.list...))
			histories++
			if r.got != want {
				diffs = append(diffs, diff{"S " + hx(r.e) + " " + hxl(r.list), "caller refilled the same slice since the previous call", fmt.Sprint(r.got), fmt.Sprint(want)})
			}
		}
	}
	G, reps := 32, 20
	if c.thorough() {
		G, reps = 64, 200
	}
	var mu sync.Mutex
	for rep := 0; rep < reps; rep++ {
		var wg sync.WaitGroup
		for g := 0; g < G; g++ {
			ord := order()
			wg.Add(1)
			go func() {
				defer wg.Done()
				for _, i := range ord[:len(ord)/4] {
					if r := execCall(calls[i]); r != base[i] {
						mu.Lock()
						diffs = append(diffs, diff{lines[i], "concurrent", r, base[i]})
						mu.Unlock()
					}
				}
			}()
		}
		wg.Wait()
		histories += G
	}
	// restore output
	syscall.Dup2(fd1, 1)
	syscall.Dup2(fd2, 2)
	os.Stdout, os.Stderr = savedOut, savedErr
	pw.Close()
	<-done
	// arguments unchanged
	var mutated []string
	for i := range calls {
		same := calls[i].expr == snapshot[i].expr && len(calls[i].list) == len(snapshot[i].list)
		for j := range snapshot[i].list {
			if same && calls[i].list[j] != snapshot[i].list[j] {
				same = false
			}
		}
		if !same {
			mutated = append(mutated, lines[i]+" -> "+fmt.Sprint(calls[i].list))
			continue
		}
		if calls[i].list != nil {
			full := calls[i].list[:cap(calls[i].list)]
			for j := len(calls[i].list); j < len(full); j++ {
				if full[j] != sentinel {
					mutated = append(mutated, lines[i]+" -> spare capacity of the caller's array overwritten with "+full[j])
					break
				}
			}
		}
	}
	cc := newCtx("C13", c.tier, c.seed)
	cc.final = true
	for _, l := range lines {
		cc.memo[l] = evalLine(l)
		cc.order = append(cc.order, l)
	}
	// ordered results too (O lines) for the model tie
	for _, l := range lines {
		if l[0] == 'X' {
			ol := "O" + l[1:]
			if _, ok := cc.memo[ol]; !ok {
				cc.memo[ol] = evalLine(ol)
				cc.order = append(cc.order, ol)
			}
		}
	}
	for _, d := range diffs {
		cc.fail("history", map[string]interface{}{"call": d.Line, "phase": d.Phase}, d.Got, d.Want, "result of the same call in the first sequential pass")
	}
	for _, m := range mutated {
		cc.fail("arguments", m, "argument slice modified by the call", "unchanged", "deep copy taken before the workload")
	}
	if captured.Len() > 0 {
		s := captured.String()
		if len(s) > 300 {
			s = s[:300]
		}
		cc.fail("output", "os.Stdout/os.Stderr during the workload", s, "no bytes", "descriptors 1 and 2 redirected to a pipe")
	}
	// cold start: fresh processes whose very first calls are concurrent (lazy initialisation without synchronisation)
	coldLines := []string{
		"S " + hx("GPL-3.0-only") + " " + hxl([]string{"GPL-2.0-or-later"}), "S " + hx("Apache-2.0") + " " + hxl([]string{"Apache-1.1+"}),
		"V " + hx("mit"), "X " + hx("gpl-2.0+ WITH classpath-exception-2.0 OR Zlib"), "S " + hx("LGPL-3.0-only") + " " + hxl([]string{"lgpl-2.1+"}),
		"S " + hx("CC-BY-4.0") + " " + hxl([]string{"CC-BY-1.0+"}), "V " + hx("0BSD AND (MPL-2.0 OR EPL-2.0)"), "S " + hx("AFL-3.0") + " " + hxl([]string{"AFL-1.1+"}),
	}
	coldWant := map[string]string{}
	for _, l := range coldLines {
		coldWant[l] = evalLine(l)
	}
	self, _ := os.Executable()
	coldRuns := 6
	if c.thorough() {
		coldRuns = 40
	}
	coldBad := 0
	for r := 0; r < coldRuns; r++ {
		cmd := exec.Command(self, append([]string{"c13cold"}, coldLines...)...)
		cmd.Env = os.Environ()
		out, _ := cmd.CombinedOutput()
		so := string(out)
		if !strings.Contains(so, "COLD-DONE") {
			coldBad++
			msg := so
			if len(msg) > 600 {
				msg = msg[:600]
			}
			cc.fail("cold start", map[string]interface{}{"calls": "first calls of a fresh process issued from many goroutines at once", "run": r}, "process died: "+msg, "the sequential results", "fresh child process, all goroutines released together")
			continue
		}
		for _, ln := range strings.Split(so, "\n") {
			f := strings.Split(ln, "\t")
			if len(f) == 3 && f[0] == "COLD" && coldWant[f[2]] != f[1] {
				coldBad++
				cc.fail("cold start", map[string]interface{}{"call": f[2], "run": r}, f[1], coldWant[f[2]], "the same call made sequentially in a warmed-up process")
			}
		}
	}
	cc.checkAliasing()
	cc.samples = lines[:5]
	cc.requests = len(lines) * (histories + 1)
	cc.write(out, map[string]interface{}{"calls": len(lines), "histories": histories, "goroutines": G, "repetitions": reps,
		"race_detector": raceEnabled, "cold_start_processes": coldRuns, "cold_start_differences": coldBad, "captured_output_bytes": captured.Len(), "mutated_arguments": len(mutated), "result_differences": len(diffs),
		"static_scan_of_the_package": facts, "heavier_history_workload_because_of_package_level_state": mutableState})
}

// ---------------- C14 ----------------
type family struct {
	name string
	mk   func(n int) (string, []string)
}

func rep(s, sep string, n int) string {
	p := make([]string, n)
	for i := range p {
		p[i] = s
	}
	return strings.Join(p, sep)
}

var families = []family{
	{"and_chain", func(n int) (string, []string) { return rep("MIT", " AND ", n), []string{"MIT"} }},
	{"or_chain", func(n int) (string, []string) { return rep("MIT", " OR ", n), []string{"ISC"} }},
	{"nesting", func(n int) (string, []string) {
		return strings.Repeat("(", n) + "MIT" + strings.Repeat(")", n), []string{"MIT"}
	}},
	{"and_of_ors", func(n int) (string, []string) { return rep("(MIT OR ISC)", " AND ", n), []string{"Apache-2.0"} }},
	{"and_of_ors_distinct", func(n int) (string, []string) {
		p := make([]string, n)
		for i := range p {
			p[i] = fmt.Sprintf("(LicenseRef-a%d OR LicenseRef-b%d)", i, i)
		}
		return strings.Join(p, " AND "), []string{"LicenseRef-b0"}
	}},
	{"or_of_ands", func(n int) (string, []string) { return rep("(MIT AND ISC)", " OR ", n), []string{"MIT"} }},
	{"alternating", func(n int) (string, []string) {
		s := "MIT"
		for i := 0; i < n; i++ {
			if i%2 == 0 {
				s = "ISC OR (" + s + " AND Zlib)"
			} else {
				s = "(" + s + " OR 0BSD) AND Apache-2.0"
			}
		}
		return s, []string{"Apache-2.0", "0BSD"}
	}},
	{"or_in_and_nested", func(n int) (string, []string) {
		s := "(MIT OR ISC)"
		for i := 0; i < n; i++ {
			s = "(" + s + " AND (Zlib OR 0BSD))"
		}
		return s, []string{"MIT", "Zlib"}
	}},
	{"long_allowed", func(n int) (string, []string) {
		a := make([]string, n)
		for i := range a {
			a[i] = fmt.Sprintf("LicenseRef-%d", (i*7919)%n)
		}
		return rep("MIT", " OR ", 8), a
	}},
	{"or_later_rewrites", func(n int) (string, []string) { return rep("Apache-2.0-or-later", " AND ", n), []string{"Apache-2.0"} }},
	{"long_id", func(n int) (string, []string) { return "MIT AND " + strings.Repeat("A", n*8), []string{"MIT"} }},
	// identifiers with many separators (hand-written or backtracking id matchers)
	{"dotted_ref", func(n int) (string, []string) { return "LicenseRef-" + strings.Repeat("a.", n) + "a", []string{"MIT"} }},
	{"dashed_ref", func(n int) (string, []string) {
		return "MIT OR LicenseRef-" + strings.Repeat("a-", n) + "a", []string{"MIT"}
	}},
	{"dotted_docref", func(n int) (string, []string) {
		return "DocumentRef-" + strings.Repeat("a.", n) + "a:LicenseRef-" + strings.Repeat("b.-", n/2) + "b", []string{"MIT"}
	}},
	{"dotted_unknown", func(n int) (string, []string) { return "MIT AND " + strings.Repeat("a.", n) + "a!", []string{"MIT"} }},
	{"dotted_allowed", func(n int) (string, []string) {
		return "MIT", []string{"MIT", "LicenseRef-" + strings.Repeat("1.0-", n) + "x"}
	}},
	// exceptions: one WITH term first / last / everywhere in a long chain
	{"with_first_or_chain", func(n int) (string, []string) {
		return "GPL-2.0-only WITH Classpath-exception-2.0 OR " + rep("MIT", " OR ", n), []string{"ISC", "GPL-2.0-only WITH Bison-exception-2.2"}
	}},
	{"with_first_and_chain", func(n int) (string, []string) {
		return "GPL-2.0-only WITH Classpath-exception-2.0 AND " + rep("MIT", " AND ", n), []string{"MIT", "GPL-2.0-only WITH Classpath-exception-2.0"}
	}},
	{"with_everywhere", func(n int) (string, []string) {
		return rep("GPL-2.0-or-later WITH Classpath-exception-2.0", " OR ", n), []string{"MIT"}
	}},
	{"with_distinct_chain", func(n int) (string, []string) {
		p := make([]string, n)
		for i := range p {
			p[i] = "MIT WITH " + tExcs[i%len(tExcs)]
		}
		return strings.Join(p, " AND "), []string{"MIT WITH " + tExcs[0], "MIT"}
	}},
	// the allowed list: duplicates, variants of one id, long list against long chain
	{"duplicate_allowed", func(n int) (string, []string) {
		a := make([]string, n)
		for i := range a {
			a[i] = []string{"MIT", "mit", "(MIT)", "MIT+", "ISC"}[i%5]
		}
		return "Apache-2.0 OR Zlib", a
	}},
	{"exception_variants_allowed", func(n int) (string, []string) {
		a := make([]string, n)
		for i := range a {
			a[i] = "MIT WITH " + tExcs[i%len(tExcs)]
		}
		return "MIT AND ISC", a
	}},
	{"list_times_chain", func(n int) (string, []string) {
		p, a := make([]string, n), make([]string, n)
		for i := range p {
			p[i] = fmt.Sprintf("LicenseRef-p%d", i)
			a[i] = fmt.Sprintf("LicenseRef-q%d", i)
		}
		return strings.Join(p, " AND "), append(a, "LicenseRef-p0")
	}},
	{"ranged_list_times_chain", func(n int) (string, []string) {
		a := make([]string, n)
		for i := range a {
			a[i] = []string{"GPL-1.0-only", "LGPL-2.0-only", "Apache-1.0", "OLDAP-1.1", "CC-BY-1.0", "AFL-1.1"}[i%6] + "+"
		}
		return rep("GPL-3.0-or-later", " AND ", n), a
	}},
	// repeated identical sub-expressions, invalid tails, runs of one byte
	{"and_of_ors_then_fail", func(n int) (string, []string) {
		return rep("(MIT OR ISC)", " AND ", n) + " AND GPL-3.0-only", []string{"MIT", "ISC"}
	}},
	{"fail_then_and_of_ors", func(n int) (string, []string) {
		return "GPL-3.0-only AND " + rep("(MIT OR ISC OR Zlib)", " AND ", n), []string{"MIT", "ISC", "Zlib"}
	}},
	{"and_chain_fail_duplicates", func(n int) (string, []string) {
		return rep("MIT", " AND ", n) + " AND Apache-1.1 AND " + rep("MIT", " AND ", n), []string{"MIT", "MIT", "MIT", "mit", "(MIT)"}
	}},
	{"and_chain_fail_variants", func(n int) (string, []string) {
		return rep("GPL-2.0-only", " AND ", n) + " AND Apache-1.1", []string{"GPL-2.0", "GPL-2.0-only", "GPL-2.0+", "GPL-1.0-or-later", "GPL-3.0-only"}
	}},
	{"or_of_ands_all_fail_late", func(n int) (string, []string) {
		return rep("(MIT AND ISC AND Zlib AND GPL-3.0-only)", " OR ", n), []string{"MIT", "ISC", "Zlib", "MIT"}
	}},
	{"many_short_entries", func(n int) (string, []string) {
		a := make([]string, n*20)
		for i := range a {
			a[i] = []string{"MIT", "ISC", "Zlib", "0BSD", "X11", "curl", "Vim"}[i%7]
		}
		return "MIT AND ISC", a
	}},
	{"long_names_list", func(n int) (string, []string) {
		a := make([]string, n)
		for i := range a {
			a[i] = "LicenseRef-" + strings.Repeat("long-name.", 20) + strconv.Itoa((i*7919)%n)
		}
		return a[0] + " OR MIT", a
	}},
	{"many_distinct_terms", func(n int) (string, []string) {
		p := make([]string, n)
		for i := range p {
			p[i] = "LicenseRef-" + strings.Repeat("t", 30) + strconv.Itoa(i)
		}
		return strings.Join(p, " OR "), []string{"MIT"}
	}},
	{"nested_invalid", func(n int) (string, []string) {
		return strings.Repeat("(MIT AND ", n) + "FOO" + strings.Repeat(")", n), []string{"MIT"}
	}},
	{"repeated_group", func(n int) (string, []string) { return rep("(MIT AND (ISC OR Zlib))", " OR ", n), []string{"Zlib"} }},
	{"twin_groups", func(n int) (string, []string) {
		return rep("(MIT OR ISC AND Zlib) AND (MIT AND ISC OR Zlib)", " AND ", n/2+1), []string{"MIT", "Zlib"}
	}},
	{"invalid_tail", func(n int) (string, []string) { return rep("MIT", " AND ", n) + " AND", []string{"MIT"} }},
	{"unknown_ids", func(n int) (string, []string) {
		return rep("MIT", " OR ", n) + " OR NOT-A-LICENSE-" + strings.Repeat("x", n), []string{"MIT"}
	}},
	{"spaces", func(n int) (string, []string) {
		return "MIT" + strings.Repeat(" ", n*8) + "AND" + strings.Repeat(" ", n*8) + "ISC", []string{"MIT", "ISC"}
	}},
	{"plus_run", func(n int) (string, []string) { return "GPL-2.0" + strings.Repeat("+", n), []string{"MIT"} }},
	{"open_parens", func(n int) (string, []string) { return strings.Repeat("(", n) + "MIT", []string{"MIT"} }},
	{"case_mixed_rewrites", func(n int) (string, []string) { return rep("apache-2.0-OR-LATER", " or ", n), []string{"APACHE-1.0+"} }},
}

func c14child(args []string) {
	fam, _ := strconv.Atoi(args[0])
	n, _ := strconv.Atoi(args[1])
	limit := uint64(1536) << 20
	go func() {
		var m runtime.MemStats
		for {
			time.Sleep(5 * time.Millisecond)
			runtime.ReadMemStats(&m)
			if m.Sys > limit {
				fmt.Println("MEMLIMIT")
				os.Exit(3)
			}
		}
	}()
	e, a := families[fam].mk(n)
	var m0, m1, m2 runtime.MemStats
	runtime.GC()
	runtime.ReadMemStats(&m0)
	t0 := time.Now()
	ok, err := spdxexp.Satisfies(e, a)
	d1 := time.Since(t0)
	runtime.ReadMemStats(&m1)
	t1 := time.Now()
	l, err2 := spdxexp.ExtractLicenses(e)
	d2 := time.Since(t1)
	runtime.ReadMemStats(&m2)
	// ValidateLicenses over the allowed entries plus the expression (folded into the ExtractLicenses figures)
	var m3 runtime.MemStats
	t2 := time.Now()
	spdxexp.ValidateLicenses(append(append([]string{}, a...), e))
	d2 += time.Since(t2)
	runtime.ReadMemStats(&m3)
	m2.TotalAlloc = m3.TotalAlloc
	size := len(e)
	for _, x := range a {
		size += len(x)
	}
	fmt.Printf("OK %d %d %d %d %d %v %v %d %v\n", size, m1.TotalAlloc-m0.TotalAlloc, d1.Nanoseconds(), m2.TotalAlloc-m1.TotalAlloc, d2.Nanoseconds(), ok, err != nil, len(l), err2 != nil)
}

type c14row struct {
	Family   string `json:"family"`
	N        int    `json:"n"`
	Size     int    `json:"input_bytes"`
	SatAlloc int64  `json:"satisfies_alloc_bytes"`
	SatNs    int64  `json:"satisfies_ns"`
	ExtAlloc int64  `json:"extract_alloc_bytes"`
	ExtNs    int64  `json:"extract_ns"`
	Status   string `json:"status"`
}

func runC14(c *Ctx, out string) {
	self, err := os.Executable()
	must(err)
	ns := []int{6, 12, 24, 48, 96, 192}
	if c.thorough() {
		ns = []int{6, 12, 24, 33, 48, 65, 96, 130, 192, 384, 768}
	}
	var rows []c14row
	cc := newCtx("C14", c.tier, c.seed)
	cc.final = true
	// one worker per family walks its sizes in increasing order and stops at the first size that exceeds a budget
	// (the larger ones would only take longer to say the same); families run six at a time
	res := make([][]c14row, len(families))
	var wg sync.WaitGroup
	sem := make(chan struct{}, 6)
	for fi := range families {
		wg.Add(1)
		go func(fi int) {
			defer wg.Done()
			sem <- struct{}{}
			defer func() { <-sem }()
			for _, n := range ns {
				cmd := exec.Command(self, "c14child", strconv.Itoa(fi), strconv.Itoa(n))
				var ob bytes.Buffer
				cmd.Stdout = &ob
				must(cmd.Start())
				donec := make(chan error, 1)
				go func() { donec <- cmd.Wait() }()
				row := c14row{Family: families[fi].name, N: n}
				e, a := families[fi].mk(n)
				row.Size = len(e)
				for _, x := range a {
					row.Size += len(x)
				}
				select {
				case <-donec:
					var okb, e1, e2 string
					var nl int
					if _, err := fmt.Sscanf(ob.String(), "OK %d %d %d %d %d %s %s %d %s", &row.Size, &row.SatAlloc, &row.SatNs, &row.ExtAlloc, &row.ExtNs, &okb, &e1, &nl, &e2); err == nil {
						row.Status = "ok"
					} else if strings.Contains(ob.String(), "MEMLIMIT") {
						row.Status = "memory budget of 1.5 GB exceeded"
					} else {
						row.Status = "child failed: " + strings.TrimSpace(ob.String())
					}
				case <-time.After(60 * time.Second):
					cmd.Process.Kill()
					row.Status = "time budget of 60 s exceeded"
				}
				res[fi] = append(res[fi], row)
				if row.Status != "ok" {
					break
				}
			}
		}(fi)
	}
	wg.Wait()
	for _, rs := range res {
		rows = append(rows, rs...)
	}
	// verdicts
	byFam := map[string][]c14row{}
	for _, r := range rows {
		byFam[r.Family] = append(byFam[r.Family], r)
	}
	for _, f := range families {
		rs := byFam[f.name]
		for i, r := range rs {
			args := map[string]interface{}{"family": r.Family, "n": r.N, "input_bytes": r.Size}
			if r.Status != "ok" {
				cc.fail("Satisfies/ExtractLicenses", args, r.Status, "completion within 1.5 GB and 60 s", "single call in a child process")
				continue
			}
			// absolute: a few hundred bytes must not allocate hundreds of megabytes or run for seconds
			if r.Size <= 2000 && (r.SatAlloc > 1<<30 || r.ExtAlloc > 1<<30 || r.SatNs > 10e9 || r.ExtNs > 10e9) {
				cc.fail("Satisfies/ExtractLicenses", args, fmt.Sprintf("alloc %d / %d bytes, %d / %d ns", r.SatAlloc, r.ExtAlloc, r.SatNs, r.ExtNs), "no gigabytes and no 10 s for an input of <= 2000 bytes", "runtime.MemStats.TotalAlloc delta and wall time of one call (the usual figures are kilobytes and milliseconds)")
			}
			// compare with the largest earlier size that is at most half of this one (a buffer that doubles between two
			// neighbouring sizes must not look like super-cubic growth)
			pi := -1
			for j := i - 1; j >= 0; j-- {
				if rs[j].Status == "ok" && rs[j].N*2 <= r.N {
					pi = j
					break
				}
			}
			if pi >= 0 {
				p := rs[pi]
				// growth of the input: bytes, or the family parameter when a constant prefix dominates the small sizes
				grow := float64(r.Size) / float64(p.Size)
				if g2 := float64(r.N) / float64(p.N); g2 > grow {
					grow = g2
				}
				lim := grow * grow * grow * 1.25 // degree <= 3 per size ratio, with slack
				for _, m := range [][3]interface{}{{"Satisfies", r.SatAlloc, p.SatAlloc}, {"ExtractLicenses+ValidateLicenses", r.ExtAlloc, p.ExtAlloc}} {
					cur, prev := float64(m[1].(int64)), float64(m[2].(int64))
					// the law is about asymptotic growth: below a few megabytes constant costs (tables, regexps) dominate
					if prev > 4096 && cur > 4<<20 && cur/prev > lim {
						cc.fail(m[0].(string), args, fmt.Sprintf("allocation grew x%.1f (%d -> %d bytes) while the input grew x%.2f", cur/prev, m[2], m[1], grow), fmt.Sprintf("growth <= x%.1f (cubic in the input growth, 25%% slack)", lim), "TotalAlloc delta at n and 2n")
					}
				}
			}
		}
	}
	// the calls themselves, for the model tie (answers only)
	quickRow := map[string]bool{}
	for _, r := range rows {
		if r.Status == "ok" && r.SatNs < 1e9 && r.ExtNs < 1e9 {
			quickRow[fmt.Sprintf("%s/%d", r.Family, r.N)] = true
		}
	}
	for _, f := range families {
		for _, n := range ns[:2] {
			if !quickRow[fmt.Sprintf("%s/%d", f.name, n)] {
				continue // the child did not finish this call quickly: do not repeat it in this process
			}
			e, a := f.mk(n)
			for _, l := range []string{"S " + hx(e) + " " + hxl(a), "X " + hx(e)} {
				cc.memo[l] = evalLine(l)
				cc.order = append(cc.order, l)
			}
		}
	}
	cc.requests = 2*len(rows) + len(cc.order)
	cc.samples = []string{"and_of_ors n=12: " + func() string { e, _ := families[3].mk(12); return e }()}
	cc.write(out, map[string]interface{}{"measurements": rows})
}

// ---------------- table getters return independent values (child process: it scribbles over what it gets) --------
func aliasChild() {
	snap := func() string {
		j, _ := json.Marshal(map[string]interface{}{"a": spdxlicenses.GetLicenses(), "d": spdxlicenses.GetDeprecated(), "e": spdxlicenses.GetExceptions(), "r": spdxlicenses.LicenseRanges()})
		return string(j)
	}
	before := snap()
	probe := func() string {
		return evalLine("S "+hx("AFL-3.0")+" "+hxl([]string{"AFL-1.1+"})) + evalLine("V "+hx("0BSD")) + evalLine("X "+hx("mit WITH 389-EXCEPTION")) + evalLine("S "+hx("GPL-3.0-only")+" "+hxl([]string{"GPL-2.0+"}))
	}
	p0 := probe()
	// what a caller may do with slices it was handed: filter in place, re-case, sort, reverse
	for _, l := range [][]string{spdxlicenses.GetLicenses(), spdxlicenses.GetDeprecated(), spdxlicenses.GetExceptions()} {
		for i := range l {
			l[i] = strings.ToUpper(l[i]) + "-X"
		}
		for i, j := 0, len(l)-1; i < j; i, j = i+1, j-1 {
			l[i], l[j] = l[j], l[i]
		}
		_ = l[:0]
	}
	R := spdxlicenses.LicenseRanges()
	for _, fam := range R {
		for i, j := 0, len(fam)-1; i < j; i, j = i+1, j-1 {
			fam[i], fam[j] = fam[j], fam[i]
		}
		for _, g := range fam {
			for k := range g {
				g[k] = "zz-" + g[k]
			}
		}
	}
	if len(R) > 1 {
		R[0], R[1] = R[1], R[0]
	}
	after := snap()
	p1 := probe()
	if before != after {
		fmt.Println("TABLES-SHARED: the values returned by the spdxlicenses getters changed after a caller modified the slices it had been handed")
	}
	if p0 != p1 {
		fmt.Println("RESULTS-CHANGED: " + p0 + " -> " + p1)
	}
	fmt.Println("ALIAS-DONE")
}

func runAliasChild() (string, bool) {
	self, err := os.Executable()
	must(err)
	cmd := exec.Command(self, "aliaschild")
	out, _ := cmd.CombinedOutput()
	s := string(out)
	if !strings.Contains(s, "ALIAS-DONE") {
		return "child failed: " + s, false
	}
	if strings.Contains(s, "TABLES-SHARED") || strings.Contains(s, "RESULTS-CHANGED") {
		return strings.TrimSpace(strings.Replace(s, "ALIAS-DONE", "", 1)), false
	}
	return "", true
}

func (c *Ctx) checkAliasing() {
	if !c.final {
		return
	}
	if msg, ok := runAliasChild(); !ok {
		c.fail("spdxlicenses getters", "GetLicenses / GetDeprecated / GetExceptions / LicenseRanges after a caller modified the returned slices", msg, "fresh, independent values on every call", "child process: snapshot, scribble over the returned slices, snapshot again, re-run probes")
	}
}

// ---------------- C13 cold start: the FIRST calls of a fresh process are concurrent ----------------
func coldChild(args []string) {
	// args: protocol lines; every goroutine starts at the same moment and runs all of them
	n := runtime.GOMAXPROCS(0) * 2
	if n < 8 {
		n = 8
	}
	start := make(chan struct{})
	res := make([][]string, n)
	var wg sync.WaitGroup
	for g := 0; g < n; g++ {
		wg.Add(1)
		go func(g int) {
			defer wg.Done()
			<-start
			for i := range args {
				res[g] = append(res[g], evalLine(args[(i+g)%len(args)])+"\t"+args[(i+g)%len(args)])
			}
		}(g)
	}
	close(start)
	wg.Wait()
	for g := range res {
		for _, r := range res[g] {
			fmt.Println("COLD\t" + r)
		}
	}
	fmt.Println("COLD-DONE")
}

// ---------------- C03: megabyte-sized inputs in a child process ----------------
// A stack overflow is a fatal error, not a panic: recover() cannot see it and it takes the whole process down.  Inputs
// whose nesting depth or length is in the millions therefore run in a child; the protocol line "D <kind> <n>" is
// answered "D returns" or "D CRASH <first line of the runtime's message>".
func deepInput(kind string, n int) string {
	switch kind {
	case "open":
		return strings.Repeat("(", n)
	case "nest":
		return strings.Repeat("(", n) + "MIT" + strings.Repeat(")", n)
	case "close":
		return "MIT" + strings.Repeat(")", n)
	case "and":
		return strings.Repeat("MIT AND ", n) + "MIT"
	case "or":
		return strings.Repeat("MIT OR ", n) + "ISC"
	case "nest_or":
		return strings.Repeat("(MIT OR ", n) + "ISC" + strings.Repeat(")", n)
	}
	return "MIT"
}

func deepChild(args []string) {
	n, _ := strconv.Atoi(args[1])
	s := deepInput(args[0], n)
	spdxexp.ValidateLicenses([]string{s})
	spdxexp.Satisfies(s, []string{"ISC"})
	spdxexp.Satisfies("MIT", []string{s})
	spdxexp.ExtractLicenses(s)
	fmt.Println("DEEP-DONE")
}

func evalDeep(kind string, n string) string {
	self, err := os.Executable()
	if err != nil {
		return "D unsupported"
	}
	cmd := exec.Command(self, "c03deep", kind, n)
	var ob, eb bytes.Buffer
	cmd.Stdout, cmd.Stderr = &ob, &eb
	if err := cmd.Start(); err != nil {
		return "D unsupported"
	}
	done := make(chan error, 1)
	go func() { done <- cmd.Wait() }()
	select {
	case <-done:
	case <-time.After(900 * time.Second):
		cmd.Process.Kill()
		return "D no-answer-within-900s" // slow is not a crash: C03 is about returning normally, cost is C14's subject
	}
	if strings.Contains(ob.String(), "DEEP-DONE") {
		return "D returns"
	}
	for _, l := range strings.Split(eb.String(), "\n") {
		if strings.HasPrefix(l, "fatal error") || strings.HasPrefix(l, "panic") {
			return "D CRASH " + strings.ReplaceAll(l, " ", "_")
		}
	}
	return "D killed-or-out-of-memory" // no runtime message: the process was killed from outside (memory limit), not a panic
}

var deepOnce sync.Once
var deepResults = map[string]string{}
var deepOrder []string

func deepProbes(c *Ctx) {
	deepOnce.Do(func() {
		cases := [][2]string{{"open", "3000000"}, {"nest", "2500000"}}
		if c.thorough() {
			cases = append(cases, [2]string{"open", "5000000"}, [2]string{"nest", "4000000"}, [2]string{"close", "3000000"}, [2]string{"nest_or", "800000"}, [2]string{"and", "1000000"}, [2]string{"or", "1000000"})
		}
		var wg sync.WaitGroup
		var mu sync.Mutex
		sem := make(chan struct{}, 3)
		for _, k := range cases {
			l := "D " + k[0] + " " + k[1]
			deepOrder = append(deepOrder, l)
			wg.Add(1)
			go func(l string, k [2]string) {
				defer wg.Done()
				sem <- struct{}{}
				defer func() { <-sem }()
				r := evalDeep(k[0], k[1])
				mu.Lock()
				deepResults[l] = r
				mu.Unlock()
			}(l, k)
		}
		wg.Wait()
	})
	for _, l := range deepOrder {
		if _, ok := c.memo[l]; !ok {
			c.memo[l] = deepResults[l]
			c.order = append(c.order, l)
		}
		c.count("deep_inputs_in_child_processes")
		if strings.HasPrefix(deepResults[l], "D CRASH") {
			f := strings.Split(l, " ")
			c.fail("ValidateLicenses / Satisfies / ExtractLicenses", map[string]interface{}{"input": "deepInput(" + f[1] + ", " + f[2] + ")", "kind": f[1], "n": f[2], "deep_line": l},
				strings.TrimPrefix(deepResults[l], "D "), "a result or an error value", "the three entry points called on the input in a child process (a fatal runtime error cannot be recovered)")
		}
	}
}
