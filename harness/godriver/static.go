package main

import (
	"go/ast"
	"go/parser"
	"go/token"
	"path/filepath"
	"sort"
	"strings"
)

// staticScan: structural facts about the package under test that bear on C13 (purity): package-level variables and
// whether any function writes to them, goroutines, synchronisation primitives, writes to the standard streams.
// Evidence only - a cache behind a lock is allowed by the property - but a tree with package-level mutable state gets the
// heavier history workload even in the quick tier.
func staticScan(repo string) (facts map[string]interface{}, mutableState bool) {
	var files []string
	for _, d := range []string{"spdxexp", "spdxexp/spdxlicenses"} {
		fs, _ := filepath.Glob(filepath.Join(repo, d, "*.go"))
		files = append(files, fs...)
	}
	fset := token.NewFileSet()
	globals := map[string]string{} // name -> file
	var parsed []*ast.File
	var names []string
	for _, f := range files {
		b := filepath.Base(f)
		if strings.HasSuffix(b, "_test.go") || b == "verif_hooks.go" {
			continue
		}
		af, err := parser.ParseFile(fset, f, nil, 0)
		if err != nil {
			continue
		}
		parsed = append(parsed, af)
		names = append(names, b)
		for _, d := range af.Decls {
			if g, ok := d.(*ast.GenDecl); ok && g.Tok == token.VAR {
				for _, s := range g.Specs {
					for _, n := range s.(*ast.ValueSpec).Names {
						if n.Name != "_" {
							globals[n.Name] = b
						}
					}
				}
			}
		}
	}
	written := map[string]bool{}
	var goStmts, syncUse, prints, inits []string
	root := func(e ast.Expr) string {
		for {
			switch x := e.(type) {
			case *ast.Ident:
				return x.Name
			case *ast.IndexExpr:
				e = x.X
			case *ast.SelectorExpr:
				e = x.X
			case *ast.StarExpr:
				e = x.X
			case *ast.ParenExpr:
				e = x.X
			default:
				return ""
			}
		}
	}
	for i, af := range parsed {
		for _, im := range af.Imports {
			p := strings.Trim(im.Path.Value, `"`)
			if p == "sync" || p == "sync/atomic" || p == "unsafe" || p == "log" {
				syncUse = append(syncUse, names[i]+": import "+p)
			}
		}
		for _, d := range af.Decls {
			fd, ok := d.(*ast.FuncDecl)
			if !ok || fd.Body == nil {
				continue
			}
			if fd.Name.Name == "init" && fd.Recv == nil {
				inits = append(inits, names[i])
			}
			locals := map[string]bool{}
			ast.Inspect(fd, func(n ast.Node) bool {
				switch x := n.(type) {
				case *ast.AssignStmt:
					for _, l := range x.Lhs {
						if id, ok := l.(*ast.Ident); ok && x.Tok == token.DEFINE {
							locals[id.Name] = true
						} else if r := root(l); r != "" && globals[r] != "" && !locals[r] && fd.Name.Name != "init" {
							written[r] = true
						}
					}
				case *ast.IncDecStmt:
					if r := root(x.X); r != "" && globals[r] != "" && !locals[r] {
						written[r] = true
					}
				case *ast.UnaryExpr:
					if x.Op == token.AND {
						if r := root(x.X); r != "" && globals[r] != "" && !locals[r] {
							written[r] = true // address taken: may be written through the pointer
						}
					}
				case *ast.GoStmt:
					goStmts = append(goStmts, names[i]+": go statement in "+fd.Name.Name)
				case *ast.CallExpr:
					if s, ok := x.Fun.(*ast.SelectorExpr); ok {
						if p, ok := s.X.(*ast.Ident); ok {
							if (p.Name == "fmt" && strings.HasPrefix(s.Sel.Name, "Print")) || p.Name == "log" || (p.Name == "os" && (s.Sel.Name == "Stdout" || s.Sel.Name == "Stderr")) {
								prints = append(prints, names[i]+": "+p.Name+"."+s.Sel.Name+" in "+fd.Name.Name)
							}
							// method call on a package-level variable (map store through a method, Once.Do, Pool.Get ...)
							if globals[p.Name] != "" && !locals[p.Name] {
								written[p.Name] = true
							}
						}
					}
				case *ast.SelectorExpr:
					if p, ok := x.X.(*ast.Ident); ok && p.Name == "os" && (x.Sel.Name == "Stdout" || x.Sel.Name == "Stderr") {
						prints = append(prints, names[i]+": os."+x.Sel.Name+" in "+fd.Name.Name)
					}
				}
				return true
			})
		}
	}
	var gl, wr []string
	for g, f := range globals {
		gl = append(gl, f+": "+g)
		if written[g] {
			wr = append(wr, f+": "+g)
		}
	}
	sort.Strings(gl)
	sort.Strings(wr)
	facts = map[string]interface{}{
		"files_scanned": len(parsed), "package_level_variables": gl, "package_level_variables_written_or_shared_by_functions": wr,
		"go_statements": goStmts, "sync_unsafe_log_imports": syncUse, "writes_to_standard_streams": prints, "init_functions": inits,
	}
	return facts, len(wr) > 0 || len(goStmts) > 0 || len(syncUse) > 0
}
