package main

import (
	"fmt"
	"strings"

	"github.com/github/go-spdx/v2/spdxexp/spdxlicenses"
)

// ---------- tables of the tree under test ----------
var (
	tActive  = spdxlicenses.GetLicenses()
	tDeprec  = spdxlicenses.GetDeprecated()
	tExcs    = spdxlicenses.GetExceptions()
	tRanges  = spdxlicenses.LicenseRanges()
	tListed  = map[string]bool{}
	tFoldSet = map[string]string{} // lower -> listed spelling (active+deprecated+exceptions)
)

func init() {
	for _, l := range [][]string{tActive, tDeprec, tExcs} {
		for _, x := range l {
			tListed[x] = true
			tFoldSet[strings.ToLower(x)] = x
		}
	}
}

func isIDWord(s string) bool {
	if s == "" {
		return false
	}
	for i := 0; i < len(s); i++ {
		c := s[i]
		if !(c >= 'A' && c <= 'Z' || c >= 'a' && c <= 'z' || c >= '0' && c <= '9' || c == '-' || c == '.') {
			return false
		}
	}
	return true
}

// ---------- expression trees ----------
type Tree struct {
	Op   byte // 'A' and, 'O' or, 0 leaf
	L, R *Tree
	Leaf string
}

func leaf(s string) *Tree    { return &Tree{Leaf: s} }
func and(a, b *Tree) *Tree   { return &Tree{Op: 'A', L: a, R: b} }
func or(a, b *Tree) *Tree    { return &Tree{Op: 'O', L: a, R: b} }
func (t *Tree) isLeaf() bool { return t.Op == 0 }
func (t *Tree) leaves() []string {
	if t.isLeaf() {
		return []string{t.Leaf}
	}
	return append(t.L.leaves(), t.R.leaves()...)
}
func (t *Tree) size() int {
	if t.isLeaf() {
		return 1
	}
	return t.L.size() + t.R.size()
}
func (t *Tree) eval(v func(string) bool) bool {
	if t.isLeaf() {
		return v(t.Leaf)
	}
	if t.Op == 'A' {
		return t.L.eval(v) && t.R.eval(v)
	}
	return t.L.eval(v) || t.R.eval(v)
}
func (t *Tree) mapLeaves(f func(string) string) *Tree {
	if t.isLeaf() {
		return leaf(f(t.Leaf))
	}
	return &Tree{Op: t.Op, L: t.L.mapLeaves(f), R: t.R.mapLeaves(f)}
}
func (t *Tree) clone() *Tree { return t.mapLeaves(func(s string) string { return s }) }

// shapes(n): all binary tree shapes with n leaves, leaves labelled by index placeholders
func shapes(n int) []*Tree {
	if n == 1 {
		return []*Tree{leaf("")}
	}
	var out []*Tree
	for k := 1; k < n; k++ {
		for _, l := range shapes(k) {
			for _, r := range shapes(n - k) {
				out = append(out, &Tree{Op: 'A', L: l, R: r})
			}
		}
	}
	return out
}

// assignOps enumerates all AND/OR assignments of the internal nodes of shape s (bits of mask).
func withOps(s *Tree, mask *int) *Tree {
	if s.isLeaf() {
		return leaf("")
	}
	op := byte('A')
	if *mask&1 == 1 {
		op = 'O'
	}
	*mask >>= 1
	l := withOps(s.L, mask)
	r := withOps(s.R, mask)
	return &Tree{Op: op, L: l, R: r}
}
func label(t *Tree, ls []string, i *int) *Tree {
	if t.isLeaf() {
		x := ls[*i%len(ls)]
		*i++
		return leaf(x)
	}
	l := label(t.L, ls, i)
	r := label(t.R, ls, i)
	return &Tree{Op: t.Op, L: l, R: r}
}

// allTrees(n): every shape x operator assignment with exactly n leaves (unlabelled)
func allTrees(n int) []*Tree {
	var out []*Tree
	for _, s := range shapes(n) {
		for m := 0; m < 1<<(n-1); m++ {
			mm := m
			out = append(out, withOps(s, &mm))
		}
	}
	return out
}

func randTree(r *SM64, n int) *Tree {
	if n == 1 {
		return leaf("")
	}
	k := 1 + r.Intn(n-1)
	op := byte('A')
	if r.Intn(2) == 1 {
		op = 'O'
	}
	return &Tree{Op: op, L: randTree(r, k), R: randTree(r, n-k)}
}

// render styles:
//
//	0 minimal parentheses (the parser is right-recursive: a right operand of the same operator needs none)
//	1 fully parenthesised
//	2 minimal + redundant parentheses around leaves / the whole, extra spaces (seeded)
func (t *Tree) render(style int, r *SM64) string {
	switch style {
	case 1:
		return t.renderFull()
	case 2:
		s := t.renderNoise(r, 0)
		return s
	case 3:
		return tighten(t.renderFull())
	case 4:
		return tighten(t.renderMin(0))
	}
	return t.renderMin(0)
}

// tighten removes the blanks next to parentheses: "(A) AND (B OR C)" -> "(A)AND(B OR C)"
func tighten(s string) string {
	for _, p := range [][2]string{{"( ", "("}, {" )", ")"}, {") ", ")"}, {" (", "("}} {
		s = strings.ReplaceAll(s, p[0], p[1])
	}
	return s
}
func opName(o byte) string {
	if o == 'A' {
		return "AND"
	}
	return "OR"
}

// ctx: 0 top / inside parens; 1 left operand of OR / right operand of OR (no parens needed for AND or OR-right);
// precise rule: tree parses back to itself iff
//
//	AND node: left child must be atom (leaf or parenthesised) ; right child may be leaf or AND (right-nested), OR needs parens
//	OR node:  left child may be leaf or AND, OR needs parens ; right child anything
func (t *Tree) renderMin(_ int) string {
	if t.isLeaf() {
		return t.Leaf
	}
	l, r := t.L.renderMin(0), t.R.renderMin(0)
	if t.Op == 'A' {
		if !t.L.isLeaf() {
			l = "(" + l + ")"
		}
		if t.R.Op == 'O' {
			r = "(" + r + ")"
		}
	} else {
		if t.L.Op == 'O' {
			l = "(" + l + ")"
		}
	}
	return l + " " + opName(t.Op) + " " + r
}
func (t *Tree) renderFull() string {
	if t.isLeaf() {
		return t.Leaf
	}
	return "(" + t.L.renderFull() + " " + opName(t.Op) + " " + t.R.renderFull() + ")"
}
func sp(r *SM64) string { return strings.Repeat(" ", 1+r.Intn(3)) }
func (t *Tree) renderNoise(r *SM64, depth int) string {
	if t.isLeaf() {
		s := t.Leaf
		if r.Intn(4) == 0 {
			s = "(" + strings.Repeat(" ", r.Intn(2)) + s + strings.Repeat(" ", r.Intn(2)) + ")"
		}
		return s
	}
	l, rr := t.L.renderNoise(r, depth+1), t.R.renderNoise(r, depth+1)
	if t.Op == 'A' {
		if !t.L.isLeaf() || r.Intn(5) == 0 {
			l = "(" + l + ")"
		}
		if t.R.Op == 'O' || r.Intn(5) == 0 {
			rr = "(" + rr + ")"
		}
	} else {
		if t.L.Op == 'O' || r.Intn(5) == 0 {
			l = "(" + l + ")"
		}
		if r.Intn(6) == 0 {
			rr = "(" + rr + ")"
		}
	}
	s := l + sp(r) + opName(t.Op) + sp(r) + rr
	if depth == 0 {
		if r.Intn(3) == 0 {
			s = "((" + s + "))"
		}
		s = strings.Repeat(" ", r.Intn(3)) + s + strings.Repeat(" ", r.Intn(3))
	}
	return s
}

// ---------- pools ----------
// a term spelling together with spellings that match it and spellings that do not
var leafPool = []string{
	"MIT", "ISC", "Apache-2.0", "Apache-2.0+", "Apache-1.1+", "Apache-2.0-only", "Apache-1.0-or-later",
	"GPL-2.0", "GPL-2.0+", "GPL-2.0-only", "GPL-2.0-or-later", "GPL-3.0-only", "GPL-1.0-or-later",
	"GPL-2.0-or-later WITH Bison-exception-2.2", "GPL-2.0-only WITH Classpath-exception-2.0",
	"GPL-2.0+ WITH Classpath-exception-2.0",
	"LicenseRef-x", "LicenseRef-y", "DocumentRef-d:LicenseRef-x", "DocumentRef-e:LicenseRef-x",
	"BSD-3-Clause", "BSD-2-Clause", "eCos-2.0", "AGPL-1.0", "AGPL-1.0-only", "AGPL-3.0-or-later",
	"mit", "apache-2.0+", "LGPL-2.1+", "LGPL-3.0-only", "CECILL-2.1", "CECILL-1.0+", "EUPL-1.2", "EUPL-1.0+",
	"MPL-2.0-no-copyleft-exception", "MPL-1.1+", "MPL-2.0", "CC-BY-3.0", "CC-BY-2.0+", "CC-BY-NC-SA-2.5",
	"AFL-1.1+", "AFL-3.0", "LPPL-1.3a+", "LPPL-1.3c", "LPL-1.02", "LPL-1.0+",
	// ids outside every family, with +; reference names that differ only in case or embed id text
	"MIT+", "ISC+", "Zlib+ WITH Bison-exception-2.2", "LicenseRef-X", "LicenseRef-acme", "LicenseRef-ACME",
	"DocumentRef-D:LicenseRef-x", "LicenseRef-MIT-or-later", "MIT-or-later", "LicenseRef-Apache-2.0-or-later",
	"DocumentRef-Apache-1.0-or-later:LicenseRef-GPL-2.0-or-later", "gpl-2.0-OR-LATER", "GPL-2.0-OR-LATER",
	"GFDL-1.1-invariants-only", "GFDL-1.1-invariants-or-later", "GFDL-1.2-no-invariants-only", "GFDL-1.2-no-invariants-or-later",
	"Apache-1.0", "Apache-1.0+", "GPL-2.0-only+", "0BSD", "GPL-3.0-only WITH 389-exception",
}
var simplePool = []string{"MIT", "ISC", "Apache-2.0", "BSD-3-Clause", "LicenseRef-x", "GPL-2.0-only", "Zlib", "DocumentRef-d:LicenseRef-y"}

// allowed-list candidates related to a leaf: itself, equivalent / neighbouring spellings
func related(l string) []string {
	out := []string{l}
	base, exc := l, ""
	if i := strings.Index(l, " WITH "); i >= 0 {
		base, exc = l[:i], l[i:]
	}
	if strings.HasPrefix(base, "LicenseRef-") || strings.HasPrefix(base, "DocumentRef-") {
		i := strings.LastIndex(base, "-")
		return append(out, "LicenseRef-x", "LicenseRef-z", "DocumentRef-d:LicenseRef-x",
			base[:i+1]+strings.ToUpper(base[i+1:]), base[:i+1]+strings.ToLower(base[i+1:]))
	}
	plain := strings.TrimSuffix(strings.TrimSuffix(strings.TrimSuffix(base, "+"), "-or-later"), "-only")
	out = append(out, plain+exc, plain+"+"+exc, plain+"-only"+exc, strings.ToLower(plain)+exc)
	// neighbours in the family table
	for _, fam := range tRanges {
		for gi, g := range fam {
			for _, x := range g {
				if strings.EqualFold(x, plain) {
					if gi > 0 {
						out = append(out, fam[gi-1][0]+exc, fam[gi-1][0]+"+"+exc)
					}
					if gi+1 < len(fam) {
						out = append(out, fam[gi+1][0]+exc, fam[gi+1][0]+"+"+exc)
					}
				}
			}
		}
	}
	if exc != "" {
		out = append(out, plain, plain+" WITH Classpath-exception-2.0")
	} else {
		out = append(out, plain+" WITH Classpath-exception-2.0", plain+"-or-later", plain+"-only WITH Classpath-exception-2.0")
	}
	return out
}

func uniq(xs []string) []string {
	seen := map[string]bool{}
	var out []string
	for _, x := range xs {
		if !seen[x] {
			seen[x] = true
			out = append(out, x)
		}
	}
	return out
}

// subsets of xs (non-empty), at most 2^len
func subsets(xs []string) [][]string {
	var out [][]string
	for m := 1; m < 1<<len(xs); m++ {
		var s []string
		for i, x := range xs {
			if m>>i&1 == 1 {
				s = append(s, x)
			}
		}
		out = append(out, s)
	}
	return out
}

func caseMix(r *SM64, s string) string {
	b := []byte(s)
	for i, c := range b {
		if r.Intn(2) == 0 {
			if c >= 'a' && c <= 'z' {
				b[i] = c - 32
			} else if c >= 'A' && c <= 'Z' {
				b[i] = c + 32
			}
		}
	}
	return string(b)
}

// pairs of distinct terms that a careless key (id only, case-folded text, version group) would confuse
var confusable = [][2]string{
	{"LicenseRef-acme", "LicenseRef-ACME"}, {"DocumentRef-d:LicenseRef-x", "DocumentRef-D:LicenseRef-x"}, {"LicenseRef-x", "DocumentRef-d:LicenseRef-x"},
	{"MIT", "MIT+"}, {"Apache-1.0", "Apache-1.0+"}, {"Apache-2.0", "Apache-1.1+"}, {"GPL-2.0-only", "GPL-2.0-or-later"}, {"GPL-2.0", "GPL-2.0+"},
	{"GPL-2.0-only", "GPL-2.0-only WITH Classpath-exception-2.0"}, {"GPL-2.0+ WITH Bison-exception-2.2", "GPL-2.0+ WITH Classpath-exception-2.0"},
	{"GPL-2.0-only", "GPL-2.0"}, {"LGPL-2.1-only", "LGPL-2.1+"}, {"AGPL-1.0", "AGPL-1.0-only"}, {"CC-BY-3.0", "CC-BY-NC-3.0"}, {"MPL-2.0", "MPL-2.0-no-copyleft-exception"},
	{"GFDL-1.1-invariants-only", "GFDL-1.1-invariants-or-later"}, {"LicenseRef-MIT", "MIT"}, {"mit", "MIT"}, {"BSD-3-Clause", "BSD-3-Clause-Clear"},
	{"MIT", "MIT-0"}, {"DocumentRef-MIT:LicenseRef-MIT", "LicenseRef-MIT"}, {"LicenseRef-a1", "LicenseRef-a2"}, {"GPL-2.0+", "GPL-2.0-or-later"}, {"MIT WITH Bison-exception-2.2", "MIT WITH Bison-exception-1.24"},
	{"OLDAP-2.2", "OLDAP-2.2.1"}, {"CC-BY-SA-2.0", "CC-BY-2.0"}, {"LGPL-2.1-only", "GPL-2.0-only"},
	{"LicenseRef-7", "LicenseRef-007"}, {"LicenseRef-Vendor-1.0", "LicenseRef-Vendor-1.00"}, {"DocumentRef-doc-01:LicenseRef-x", "DocumentRef-doc-1:LicenseRef-x"}, {"LicenseRef-a.b", "LicenseRef-a-b"},
}

// confusableTrees: small expressions holding both terms of a confusable pair, in both orders
func confusableTrees() []*Tree {
	var out []*Tree
	for _, p := range confusable {
		a, b := leaf(p[0]), leaf(p[1])
		x, y := leaf("Zlib"), leaf("0BSD")
		out = append(out, and(a, b), or(a, b), and(b, a), or(b, a),
			or(and(a, x), and(b, y)), or(and(b, x), and(a, y)), and(or(a, x), or(b, y)), and(or(b, x), or(a, y)),
			or(a, and(b, x)), and(a, or(b, x)), or(and(x, a), b), and(or(x, b), a),
			// one of them repeated with the other in between
			and(a, and(b, a)), and(b, and(a, b)), or(a, or(b, a)), or(and(a, b), a), and(or(b, a), b), and(and(a, x), and(b, a)), or(or(b, x), or(a, or(y, b))))
	}
	return out
}
func confusableAllowed(t *Tree) []string {
	var cand []string
	for _, l := range uniq(t.leaves()) {
		cand = append(cand, l)
		for _, p := range confusable {
			if p[0] == l {
				cand = append(cand, p[1])
			}
		}
	}
	cand = append(cand, "Apache-2.0", "GPL-3.0-only", "GPL-3.0-only WITH Classpath-exception-2.0")
	return uniq(cand)
}

// scaleTrees: wide and deep expressions (thresholds, fixed-size buffers, recursion limits)
func scaleTrees(r *SM64, thorough bool) []*Tree {
	var out []*Tree
	sizes := []int{33, 65, 130, 257}
	if thorough {
		sizes = append(sizes, 513, 1025)
	}
	pool := []string{"MIT", "ISC", "Zlib", "Apache-2.0", "GPL-2.0-only", "LicenseRef-x", "BSD-3-Clause", "0BSD", "Apache-1.0-or-later", "MPL-2.0+"}
	for _, n := range sizes {
		chain := func(op byte, right bool) *Tree {
			t := leaf(pool[r.Intn(len(pool))])
			for i := 1; i < n; i++ {
				l := leaf(pool[r.Intn(len(pool))])
				if right {
					t = &Tree{Op: op, L: l, R: t}
				} else {
					t = &Tree{Op: op, L: t, R: l}
				}
			}
			return t
		}
		out = append(out, chain('A', true), chain('O', true), chain('A', false), chain('O', false))
		// alternating nest of depth n
		t := leaf("MIT")
		for i := 0; i < n; i++ {
			if i%2 == 0 {
				t = or(leaf(pool[r.Intn(len(pool))]), and(t, leaf(pool[r.Intn(len(pool))])))
			} else {
				t = and(or(t, leaf(pool[r.Intn(len(pool))])), leaf(pool[r.Intn(len(pool))]))
			}
		}
		out = append(out, t)
		out = append(out, label(randTree(r, n), pool, new(int)))
	}
	return out
}

// distinctChains: chains whose i-th operand is its own term, so that an assignment can single out one position
// (first, middle, last) - depth limits and fixed-size buffers answer wrongly only for the deep positions
func distinctChains(sizes []int) []*Tree {
	var out []*Tree
	for _, n := range sizes {
		for _, op := range []byte{'A', 'O'} {
			for _, right := range []bool{true, false} {
				t := leaf("LicenseRef-s0")
				for i := 1; i < n; i++ {
					l := leaf(fmt.Sprintf("LicenseRef-s%d", i))
					if right {
						t = &Tree{Op: op, L: l, R: t}
					} else {
						t = &Tree{Op: op, L: t, R: l}
					}
				}
				out = append(out, t)
			}
		}
	}
	return out
}

// scaleAssignments: all terms; only / all but the first, middle, last and two seeded terms
func scaleAssignments(t *Tree, r *SM64) [][]string {
	ls := uniq(t.leaves())
	out := [][]string{ls}
	pick := []int{0, len(ls) / 2, len(ls) - 1, r.Intn(len(ls)), r.Intn(len(ls))}
	for _, k := range pick {
		out = append(out, []string{ls[k]})
		if len(ls) > 1 {
			var rest []string
			rest = append(rest, ls[:k]...)
			rest = append(rest, ls[k+1:]...)
			out = append(out, rest)
		}
	}
	return out
}

// deepTrees: seeded trees of 6..12 leaves over a small pool of plain terms (nesting depth 3 and more, repeated
// terms, several OR groups under one AND): beyond the sizes that are enumerated exhaustively
func deepTrees(r *SM64, n int) []*Tree {
	pool := []string{"MIT", "ISC", "Zlib", "0BSD", "Apache-2.0", "BSD-3-Clause", "MPL-2.0", "GPL-2.0-only", "LicenseRef-x", "Unlicense"}
	var out []*Tree
	for i := 0; i < n; i++ {
		k := 6 + r.Intn(7)
		sh := randTree(r, k)
		var lab []string
		for j := 0; j < k; j++ {
			lab = append(lab, pool[r.Intn(len(pool))])
		}
		out = append(out, label(sh, lab, new(int)))
	}
	return out
}

// byteSweep: every byte value inside / next to an identifier.  refOnly: the templates whose validity is known
// without a tokeniser (a reference name is valid iff every byte of it is an id character)
var sweepRefTemplates = []string{"LicenseRef-a%sc", "DocumentRef-a%sc:LicenseRef-x", "DocumentRef-d:LicenseRef-a%sc", "MIT AND LicenseRef-q%sz OR ISC"}
var sweepOtherTemplates = []string{"MIT%sor-later", "Apache-2.0%sor-later", "MIT%sonly", "MIT-or-late%s", "MIT-onl%s", "GPL-2.0%sor-later", "GPL-2.0-or-later%s", "MIT WITH Bison-exception-2.2%sonly", "LicenseRef-%s", "MIT AND LicenseRef-q%s", "DocumentRef-%s:LicenseRef-x", "MIT%s", "%sMIT", "MIT%sISC", "MIT %s ISC", "MIT WITH Bison-exception-2.2%s", "GPL-2.0%sonly", "(MIT%s)"}

func isIDByte(b byte) bool {
	return b >= 'a' && b <= 'z' || b >= 'A' && b <= 'Z' || b >= '0' && b <= '9' || b == '-' || b == '.'
}

// twinTrees: every expression that uses each of the given leaves exactly once (all orders, shapes, operators).  Two of
// them joined by AND / OR are sub-expressions over the SAME multiset of terms with, in general, different Boolean
// functions - what a memo keyed on the terms of a group, or an "identical operands" shortcut, confuses.
func twinTrees(leaves []string) []*Tree {
	var out []*Tree
	for _, p := range perms(leaves) {
		for _, sh := range allTrees(len(leaves)) {
			i := 0
			out = append(out, label(sh, p, &i))
		}
	}
	return out
}
