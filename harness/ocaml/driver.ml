(* modelrun: evaluates the extracted Coq model on the case file read from stdin and prints one
   canonical line per case (same format as harness/godriver prints for the implementation). *)
module M = Model

let bit c i = (Char.code c lsr i) land 1 = 1
let ascii_of_char c = M.Ascii (bit c 0, bit c 1, bit c 2, bit c 3, bit c 4, bit c 5, bit c 6, bit c 7)
let char_of_ascii (M.Ascii (b0,b1,b2,b3,b4,b5,b6,b7)) =
  let v b i = if b then 1 lsl i else 0 in
  Char.chr (v b0 0 + v b1 1 + v b2 2 + v b3 3 + v b4 4 + v b5 5 + v b6 6 + v b7 7)
let str_of_string (s : string) = List.init (String.length s) (fun i -> ascii_of_char s.[i])
let string_of_str l = let b = Buffer.create 16 in List.iter (fun a -> Buffer.add_char b (char_of_ascii a)) l; Buffer.contents b
let rec int_of_nat = function M.O -> 0 | M.S n -> 1 + int_of_nat n

let unhex (s : string) : string =
  (* "x" ^ hex *)
  let n = (String.length s - 1) / 2 in
  String.init n (fun i -> Char.chr (int_of_string ("0x" ^ String.sub s (1 + 2*i) 2)))
let hex (s : string) : string =
  let b = Buffer.create (1 + 2 * String.length s) in
  Buffer.add_char b 'x';
  String.iter (fun c -> Buffer.add_string b (Printf.sprintf "%02x" (Char.code c))) s; Buffer.contents b
let unlist (s : string) : string list =
  if s = "-" then [] else List.map unhex (String.split_on_char ',' s)
let hexlist (l : string list) : string = if l = [] then "-" else String.concat "," (List.map hex l)

let rec coq_string_of (s : string) (i : int) : M.string =
  if i >= String.length s then M.EmptyString else M.String (ascii_of_char s.[i], coq_string_of s (i + 1))
let ocaml_of_coq_string (s : M.string) : string =
  let b = Buffer.create 1024 in
  let rec go = function M.EmptyString -> () | M.String (a, r) -> Buffer.add_char b (char_of_ascii a); go r in
  go s; Buffer.contents b
let pairs (s : string) : (M.string * bool) list =
  if s = "-" then [] else
  List.map (fun p -> match String.split_on_char ':' p with
                     | [h; d] -> (coq_string_of (unhex h) 0, d = "1")
                     | _ -> failwith "bad pair") (String.split_on_char ',' s)
let t0 = M.t0

let line_of (l : string) : string =
  match String.split_on_char ' ' l with
  | ["V"; e] ->
      (match M.parse t0 (str_of_string (unhex e)) with
       | M.Ok _ -> "V 1" | M.Err _ -> "V 0" | M.Panic -> "V PANIC" | M.Fuel -> "V FUEL")
  | ["S"; e; a] ->
      (match M.satisfies t0 (str_of_string (unhex e)) (List.map str_of_string (unlist a)) with
       | M.Ok true -> "S T" | M.Ok false -> "S F" | M.Err _ -> "S E" | M.Panic -> "S PANIC" | M.Fuel -> "S FUEL")
  | ["X"; e] ->
      (match M.extract_licenses t0 (str_of_string (unhex e)) with
       | M.Ok l -> "X " ^ hexlist (List.sort compare (List.map string_of_str l))
       | M.Err _ -> "X E" | M.Panic -> "X PANIC" | M.Fuel -> "X FUEL")
  | ["O"; e] ->  (* ExtractLicenses in order *)
      (match M.extract_licenses t0 (str_of_string (unhex e)) with
       | M.Ok l -> "O " ^ hexlist (List.map string_of_str l)
       | M.Err _ -> "O E" | M.Panic -> "O PANIC" | M.Fuel -> "O FUEL")
  | ["L"; a] ->
      (match M.validate_licenses t0 (List.map str_of_string (unlist a)) with
       | M.Ok (v, bad) -> Printf.sprintf "L %d %s" (if v then 1 else 0) (hexlist (List.map string_of_str bad))
       | M.Err _ -> "L E" | M.Panic -> "L PANIC" | M.Fuel -> "L FUEL")
  | ["R"; e] ->
      (match M.parse t0 (str_of_string (unhex e)) with
       | M.Ok _ -> "R ok"
       | M.Err (M.EUnknownLicense (w, o)) -> Printf.sprintf "R unk %d %s" (int_of_nat o) (hex (string_of_str w))
       | M.Err (M.EExpectedId o) -> Printf.sprintf "R eid %d" (int_of_nat o)
       | M.Err _ -> "R other" | M.Panic -> "R PANIC" | M.Fuel -> "R FUEL")
  | ["E"; e] ->
      (match M.parse t0 (str_of_string (unhex e)) with
       | M.Ok t ->
           let alts = M.expand t in
           let term n = match M.canon n with Some s -> string_of_str s | None -> "?" in
           let one a = String.concat "," (List.map hex (List.sort compare (List.map term a))) in
           "E " ^ String.concat "|" (List.sort compare (List.map one alts))
       | _ -> "E E")
  | ["Q"; e; a] ->
      (match M.satisfies t0 (str_of_string (unhex e)) (List.map str_of_string (unlist a)) with
       | M.Ok _ -> "Q ok"
       | M.Err (M.EUnknownLicense (w, o)) -> Printf.sprintf "Q unk %d %s" (int_of_nat o) (hex (string_of_str w))
       | M.Err (M.EExpectedId o) -> Printf.sprintf "Q eid %d" (int_of_nat o)
       | M.Err _ -> "Q other" | M.Panic -> "Q PANIC" | M.Fuel -> "Q FUEL")
  | ["T"; e] ->  (* scan(): role letter + value per token *)
      let op_text = function M.OWith -> "WITH" | M.OAnd -> "AND" | M.OOr -> "OR" | M.OLp -> "(" | M.ORp -> ")" | M.OColon -> ":" | M.OPlus -> "+" in
      (match M.scan t0 (str_of_string (unhex e)) with
       | M.Ok [] -> "T -"
       | M.Ok ts ->
           "T " ^ String.concat "," (List.map (function
             | M.TOp o -> "o" ^ hex (op_text o) | M.TDoc x -> "d" ^ hex (string_of_str x) | M.TRef x -> "r" ^ hex (string_of_str x)
             | M.TLic x -> "l" ^ hex (string_of_str x) | M.TExc x -> "e" ^ hex (string_of_str x)) ts)
       | M.Err _ -> "T E" | M.Panic -> "T PANIC" | M.Fuel -> "T FUEL")
  | ["P"; e] ->  (* parse(): the tree in node.string() notation *)
      let rec show = function
        | M.NAnd (a, b) -> "{ LEFT: " ^ show a ^ " and RIGHT: " ^ show b ^ " }"
        | M.NOr (a, b) -> "{ LEFT: " ^ show a ^ " or RIGHT: " ^ show b ^ " }"
        | M.NLic (l, p, x) -> string_of_str l ^ (if p then "+" else "") ^ (match x with Some y -> " with " ^ string_of_str y | None -> "")
        | M.NRef (d, r) -> (match d with Some y -> "DocumentRef-" ^ string_of_str y ^ ":" | None -> "") ^ "LicenseRef-" ^ string_of_str r in
      (* answered by the model of parseExpression AS WRITTEN (Model/ParseStack.v: stack of operand groups); the
         recursive-descent model must give the same answer (Proofs/ParseStack.v: stack_equals_recursive) *)
      let s = str_of_string (unhex e) in
      let line = function
        | M.Ok t -> "P " ^ hex (show t)
        | M.Err _ -> "P E" | M.Panic -> "P PANIC" | M.Fuel -> "P FUEL" in
      let recursive = line (M.parse t0 s) in
      let as_written = (match s with
        | [] -> recursive
        | _ -> (match M.scan t0 s with
                | M.Ok ts -> line (M.ps_tokens ts)
                | M.Err _ -> "P E" | M.Panic -> "P PANIC" | M.Fuel -> "P FUEL")) in
      if as_written = recursive then as_written else "P MODEL-SPLIT"
  | ["N"; i] ->  (* getLicenseRange() *)
      (match M.license_range t0 (str_of_string (unhex i)) with
       | Some (g, v) -> Printf.sprintf "N %d %d" (int_of_nat g) (int_of_nat v)
       | None -> "N none")
  | ["K"; a] ->  (* stringsToNodes + sortAndDedup as Satisfies uses them *)
      (match M.strings_to_nodes t0 (List.map str_of_string (unlist a)) with
       | M.Ok ns ->
           (match M.sort_and_dedup ns with
            | M.Ok ns' -> "K " ^ hexlist (List.map (fun n -> match M.canon n with Some s -> string_of_str s | None -> "?") ns')
            | M.Err _ -> "K E" | M.Panic -> "K PANIC" | M.Fuel -> "K FUEL")
       | M.Err _ -> "K E" | M.Panic -> "K PANIC" | M.Fuel -> "K FUEL")
  | ["G"; k; ps] ->
      let j = pairs ps in
      let f = (match k with "L" -> M.gen_licenses_file M.tpl_licenses j | "D" -> M.gen_deprecated_file M.tpl_deprecated j
                            | _ -> M.gen_exceptions_file M.tpl_exceptions j) in
      "G " ^ hex (ocaml_of_coq_string f)
  | _ -> "? " ^ l

let () =
  try
    while true do
      let l = input_line stdin in
      print_endline (try line_of l with Stack_overflow -> "STACKOVERFLOW")
    done
  with End_of_file -> ()
