module verifharness

go 1.21

require github.com/github/go-spdx/v2 v2.0.0

replace github.com/github/go-spdx/v2 => /repo
