// translate: regenerates coq/Gen/*.v from /repo's current working tree.
//   Tables.v   - GetLicenses / GetDeprecated / GetExceptions / LicenseRanges as the code returns them now
//   SpdxJson.v - (id, isDeprecated) pairs of cmd/licenses.json and cmd/exceptions.json, in file order
//   Files.v    - the bytes of the three generated Go files as committed in the working tree
// It prints what it read and nothing else; all checking happens in Coq.
package main

import (
	"encoding/json"
	"fmt"
	"os"
	"os/exec"
	"path/filepath"
	"strings"

	"github.com/github/go-spdx/v2/spdxexp/spdxlicenses"
)

func q(s string) string { return "\"" + strings.ReplaceAll(s, "\"", "\"\"") + "\"" }

func lst(b *strings.Builder, name string, xs []string) {
	fmt.Fprintf(b, "Definition %s : list string := [\n", name)
	for i, x := range xs {
		sep := ";"
		if i == len(xs)-1 {
			sep = ""
		}
		fmt.Fprintf(b, "  %s%s\n", q(x), sep)
	}
	b.WriteString("].\n")
}

// field names as in cmd/license.go and cmd/exceptions.go
type licenseData struct {
	Licenses []struct {
		IsDeprecated bool   `json:"isDeprecatedLicenseId"`
		LicenseID    string `json:"licenseId"`
	} `json:"licenses"`
}
type exceptionData struct {
	Exceptions []struct {
		IsDeprecated bool   `json:"isDeprecatedLicenseId"`
		LicenseID    string `json:"licenseExceptionId"`
	} `json:"exceptions"`
}

func pairs(b *strings.Builder, name string, ids []string, dep []bool) {
	fmt.Fprintf(b, "Definition %s : list (string * bool) := [\n", name)
	for i := range ids {
		sep := ";"
		if i == len(ids)-1 {
			sep = ""
		}
		fmt.Fprintf(b, "  (%s, %v)%s\n", q(ids[i]), dep[i], sep)
	}
	b.WriteString("].\n")
}

func must(err error) {
	if err != nil {
		fmt.Fprintln(os.Stderr, "translate:", err)
		os.Exit(2)
	}
}

func writeIfChanged(path, content string) {
	old, err := os.ReadFile(path)
	if err == nil && string(old) == content {
		return
	}
	must(os.WriteFile(path, []byte(content), 0o644))
}

// ---- the generator's file template, derived by RUNNING cmd/ on small synthetic JSON in a scratch directory ----
type pair struct {
	id  string
	dep bool
}

func runGen(scratch, repo string, lic, exc []pair) (map[string]string, error) {
	os.RemoveAll(scratch)
	cmdDir := filepath.Join(scratch, "cmd")
	outDir := filepath.Join(scratch, "spdxexp", "spdxlicenses")
	if err := os.MkdirAll(cmdDir, 0o755); err != nil {
		return nil, err
	}
	if err := os.MkdirAll(outDir, 0o755); err != nil {
		return nil, err
	}
	src, _ := filepath.Glob(filepath.Join(repo, "cmd", "*.go"))
	for _, f := range src {
		b, err := os.ReadFile(f)
		if err != nil {
			return nil, err
		}
		os.WriteFile(filepath.Join(cmdDir, filepath.Base(f)), b, 0o644)
	}
	for _, f := range []string{"go.mod", "go.sum"} {
		b, err := os.ReadFile(filepath.Join(repo, f))
		if err != nil {
			return nil, err
		}
		os.WriteFile(filepath.Join(scratch, f), b, 0o644)
	}
	type L struct {
		Dep bool   `json:"isDeprecatedLicenseId"`
		ID  string `json:"licenseId"`
	}
	type E struct {
		Dep bool   `json:"isDeprecatedLicenseId"`
		ID  string `json:"licenseExceptionId"`
	}
	ls, es := []L{}, []E{}
	for _, x := range lic {
		ls = append(ls, L{x.dep, x.id})
	}
	for _, x := range exc {
		es = append(es, E{x.dep, x.id})
	}
	j, _ := json.Marshal(map[string]interface{}{"licenseListVersion": "t", "licenses": ls})
	os.WriteFile(filepath.Join(cmdDir, "licenses.json"), j, 0o644)
	j, _ = json.Marshal(map[string]interface{}{"licenseListVersion": "t", "exceptions": es})
	os.WriteFile(filepath.Join(cmdDir, "exceptions.json"), j, 0o644)
	bin := filepath.Join(scratch, "gen.bin")
	build := exec.Command("go", "build", "-o", bin, ".")
	build.Dir = cmdDir
	if o, err := build.CombinedOutput(); err != nil {
		return nil, fmt.Errorf("go build of cmd failed: %s", o)
	}
	run := exec.Command(bin, "extract", "-l", "-e")
	run.Dir = cmdDir
	if o, err := run.CombinedOutput(); err != nil {
		return nil, fmt.Errorf("generator failed: %s", o)
	}
	out := map[string]string{}
	for _, f := range []string{"get_licenses.go", "get_deprecated.go", "get_exceptions.go"} {
		b, err := os.ReadFile(filepath.Join(outDir, f))
		if err != nil {
			return nil, err
		}
		out[f] = string(b)
	}
	return out, nil
}

// template: file = header ++ concat [pre ++ id ++ post | id <- ids] ++ footer
func deriveTemplate(empty, one, two string, id1 string, ids2 [2]string) (h, pre, post, f string, ok bool) {
	n := 0
	for n < len(empty) && n < len(one) && empty[n] == one[n] {
		n++
	}
	i := strings.Index(one, id1)
	if i < 0 {
		return
	}
	if n > i {
		n = i
	}
	h = empty[:n]
	f = empty[n:]
	pre = one[n:i]
	rest := one[i+len(id1):]
	if !strings.HasSuffix(rest, f) {
		return
	}
	post = rest[:len(rest)-len(f)]
	if h+pre+ids2[0]+post+pre+ids2[1]+post+f != two {
		return
	}
	return h, pre, post, f, true
}

func main() {
	if len(os.Args) != 3 {
		fmt.Fprintln(os.Stderr, "usage: translate <repo> <outdir>")
		os.Exit(2)
	}
	repo, out := os.Args[1], os.Args[2]
	must(os.MkdirAll(out, 0o755))

	var b strings.Builder
	b.WriteString("(* GENERATED by harness/translate from /repo on every run. Do not edit. *)\n")
	b.WriteString("From Coq Require Import String List. Import ListNotations.\nFrom Spdx Require Import Model.Tables.\nLocal Open Scope string_scope.\n")
	lst(&b, "licenses", spdxlicenses.GetLicenses())
	lst(&b, "deprecated", spdxlicenses.GetDeprecated())
	lst(&b, "exceptions", spdxlicenses.GetExceptions())
	b.WriteString("Definition ranges : list (list (list string)) := [\n")
	R := spdxlicenses.LicenseRanges()
	for i, fam := range R {
		var gs []string
		for _, g := range fam {
			var qs []string
			for _, x := range g {
				qs = append(qs, q(x))
			}
			gs = append(gs, "["+strings.Join(qs, "; ")+"]")
		}
		sep := ";"
		if i == len(R)-1 {
			sep = ""
		}
		fmt.Fprintf(&b, "  [%s]%s\n", strings.Join(gs, "; "), sep)
	}
	b.WriteString("].\n")
	b.WriteString("Definition T0 : tables := Eval vm_compute in mk_tables licenses deprecated exceptions ranges.\n")
	writeIfChanged(filepath.Join(out, "Tables.v"), b.String())

	b.Reset()
	b.WriteString("(* GENERATED by harness/translate from /repo/cmd/*.json on every run. Do not edit. *)\n")
	b.WriteString("From Coq Require Import String List Bool. Import ListNotations.\nLocal Open Scope string_scope.\n")
	var ld licenseData
	raw, err := os.ReadFile(filepath.Join(repo, "cmd", "licenses.json"))
	must(err)
	must(json.Unmarshal(raw, &ld))
	var ids []string
	var dep []bool
	for _, l := range ld.Licenses {
		ids = append(ids, l.LicenseID)
		dep = append(dep, l.IsDeprecated)
	}
	pairs(&b, "json_licenses", ids, dep)
	var ed exceptionData
	raw, err = os.ReadFile(filepath.Join(repo, "cmd", "exceptions.json"))
	must(err)
	must(json.Unmarshal(raw, &ed))
	ids, dep = nil, nil
	for _, l := range ed.Exceptions {
		ids = append(ids, l.LicenseID)
		dep = append(dep, l.IsDeprecated)
	}
	pairs(&b, "json_exceptions", ids, dep)
	writeIfChanged(filepath.Join(out, "SpdxJson.v"), b.String())

	b.Reset()
	b.WriteString("(* GENERATED by harness/translate: bytes of the generated Go files in /repo's working tree. Do not edit. *)\n")
	b.WriteString("From Coq Require Import String.\nLocal Open Scope string_scope.\n")
	for _, f := range [][2]string{{"file_get_licenses", "get_licenses.go"}, {"file_get_deprecated", "get_deprecated.go"}, {"file_get_exceptions", "get_exceptions.go"}} {
		raw, err := os.ReadFile(filepath.Join(repo, "spdxexp", "spdxlicenses", f[1]))
		must(err)
		fmt.Fprintf(&b, "Definition %s : string := %s.\n", f[0], q(string(raw)))
	}
	writeIfChanged(filepath.Join(out, "Files.v"), b.String())

	// Template.v: how the generator lays a file out, observed by running it (scratch copy, removed afterwards)
	scratch := filepath.Join(filepath.Dir(filepath.Clean(out)), "..", "build", "run", "translate-gen")
	defer os.RemoveAll(scratch)
	b.Reset()
	b.WriteString("(* GENERATED by harness/translate: the file layout of cmd/, derived by running it on 0, 1 and 2 ids. Do not edit. *)\n")
	b.WriteString("From Coq Require Import String.\nLocal Open Scope string_scope.\n")
	e0, err0 := runGen(scratch, repo, nil, nil)
	e1, err1 := runGen(scratch, repo, []pair{{"Aa-1.0", false}, {"Bb-2.0", true}}, []pair{{"Cc-exception", false}})
	e2, err2 := runGen(scratch, repo, []pair{{"Aa-1.0", false}, {"Bb-2.0", true}, {"Dddd", false}, {"E", true}}, []pair{{"Cc-exception", false}, {"F-exception-2", false}})
	okAll := err0 == nil && err1 == nil && err2 == nil
	type tp struct{ name, file, id1 string; ids2 [2]string }
	for _, t := range []tp{{"tpl_licenses", "get_licenses.go", "Aa-1.0", [2]string{"Aa-1.0", "Dddd"}},
		{"tpl_deprecated", "get_deprecated.go", "Bb-2.0", [2]string{"Bb-2.0", "E"}},
		{"tpl_exceptions", "get_exceptions.go", "Cc-exception", [2]string{"Cc-exception", "F-exception-2"}}} {
		h, pre, post, f := "", "", "", ""
		ok := false
		if okAll {
			h, pre, post, f, ok = deriveTemplate(e0[t.file], e1[t.file], e2[t.file], t.id1, t.ids2)
		}
		if !ok {
			// not of the form header ++ lines ++ footer (or the generator could not be run): the obligations that
			// use the template will not hold
			h, pre, post, f = "<<generator layout could not be derived>>", "", "", ""
		}
		fmt.Fprintf(&b, "Definition %s : string * string * string * string := (%s, %s, %s, %s).\n", t.name, q(h), q(pre), q(post), q(f))
	}
	writeIfChanged(filepath.Join(out, "Template.v"), b.String())
}
