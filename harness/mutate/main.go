// mutate: mechanical mutants of the package under test, for measuring what the checks notice.
//
//	mutate <repo> <outdir>
//
// For every non-test Go file of spdxexp (hooks and test helpers excluded) it applies one syntactic change at a
// time - comparison / logical / arithmetic operator swaps, negated conditions, integer literals +-1, shortened
// string literals, true<->false, deleted statements - and writes <outdir>/<id>/<file> (the whole mutated file)
// plus <outdir>/index.jsonl (id, file, line, operator, before -> after).  Mutants that do not compile or that the
// package's own tests reject are filtered by the runner (seeded/mutation_run.py), not here.
package main

import (
	"bytes"
	"encoding/json"
	"fmt"
	"go/ast"
	"go/parser"
	"go/printer"
	"go/token"
	"os"
	"path/filepath"
	"strconv"
	"strings"
)

type site struct {
	line  int
	op    string
	desc  string
	apply func()
	undo  func()
}

func main() {
	repo, out := os.Args[1], os.Args[2]
	must(os.MkdirAll(out, 0o755))
	idx, err := os.Create(filepath.Join(out, "index.jsonl"))
	must(err)
	defer idx.Close()
	files, _ := filepath.Glob(filepath.Join(repo, "spdxexp", "*.go"))
	n := 0
	for _, f := range files {
		base := filepath.Base(f)
		if strings.HasSuffix(base, "_test.go") || base == "verif_hooks.go" || base == "test_helper.go" || base == "doc.go" {
			continue
		}
		fset := token.NewFileSet()
		file, err := parser.ParseFile(fset, f, nil, parser.ParseComments)
		must(err)
		for _, s := range sites(fset, file) {
			s.apply()
			var buf bytes.Buffer
			err := printer.Fprint(&buf, fset, file)
			s.undo()
			if err != nil {
				continue
			}
			n++
			id := fmt.Sprintf("m%04d", n)
			must(os.MkdirAll(filepath.Join(out, id), 0o755))
			must(os.WriteFile(filepath.Join(out, id, base), buf.Bytes(), 0o644))
			j, _ := json.Marshal(map[string]interface{}{"id": id, "file": "spdxexp/" + base, "line": s.line, "operator": s.op, "change": s.desc})
			idx.Write(append(j, '\n'))
		}
	}
	fmt.Println(n, "mutants")
}

func sites(fset *token.FileSet, file *ast.File) []site {
	var out []site
	line := func(p token.Pos) int { return fset.Position(p).Line }
	swaps := map[token.Token][]token.Token{
		token.EQL: {token.NEQ}, token.NEQ: {token.EQL},
		token.LSS: {token.LEQ, token.GTR}, token.LEQ: {token.LSS}, token.GTR: {token.GEQ, token.LSS}, token.GEQ: {token.GTR},
		token.LAND: {token.LOR}, token.LOR: {token.LAND},
		token.ADD: {token.SUB}, token.SUB: {token.ADD},
	}
	isStr := func(e ast.Expr) bool {
		b, ok := e.(*ast.BasicLit)
		return ok && b.Kind == token.STRING
	}
	ast.Inspect(file, func(nd ast.Node) bool {
		switch x := nd.(type) {
		case *ast.ImportSpec:
			return false
		case *ast.BinaryExpr:
			if x.Op == token.ADD && (isStr(x.X) || isStr(x.Y)) {
				break
			}
			for _, to := range swaps[x.Op] {
				from, to := x.Op, to
				out = append(out, site{line(x.OpPos), "operator", from.String() + " -> " + to.String(), func() { x.Op = to }, func() { x.Op = from }})
			}
		case *ast.IfStmt:
			c := x.Cond
			out = append(out, site{line(x.If), "negate-condition", "if c -> if !(c)", func() { x.Cond = &ast.UnaryExpr{Op: token.NOT, X: &ast.ParenExpr{X: c}} }, func() { x.Cond = c }})
		case *ast.ForStmt:
			if x.Cond != nil {
				c := x.Cond
				out = append(out, site{line(x.For), "negate-condition", "for c -> for !(c)", func() { x.Cond = &ast.UnaryExpr{Op: token.NOT, X: &ast.ParenExpr{X: c}} }, func() { x.Cond = c }})
			}
		case *ast.BasicLit:
			old := x.Value
			switch x.Kind {
			case token.INT:
				if v, err := strconv.Atoi(old); err == nil {
					out = append(out, site{line(x.Pos()), "int+1", old + " -> " + strconv.Itoa(v+1), func() { x.Value = strconv.Itoa(v + 1) }, func() { x.Value = old }})
					if v > 0 {
						out = append(out, site{line(x.Pos()), "int-1", old + " -> " + strconv.Itoa(v-1), func() { x.Value = strconv.Itoa(v - 1) }, func() { x.Value = old }})
					}
				}
			case token.STRING:
				if s, err := strconv.Unquote(old); err == nil && len(s) > 0 {
					short := strconv.Quote(s[:len(s)-1])
					out = append(out, site{line(x.Pos()), "string-shorten", old + " -> " + short, func() { x.Value = short }, func() { x.Value = old }})
					if len(s) > 1 {
						alt := strconv.Quote(s[1:])
						out = append(out, site{line(x.Pos()), "string-behead", old + " -> " + alt, func() { x.Value = alt }, func() { x.Value = old }})
					}
				}
			}
		case *ast.Ident:
			if x.Name == "true" || x.Name == "false" {
				old := x.Name
				nw := map[string]string{"true": "false", "false": "true"}[old]
				out = append(out, site{line(x.Pos()), "bool-flip", old + " -> " + nw, func() { x.Name = nw }, func() { x.Name = old }})
			}
		case *ast.BlockStmt:
			for i := range x.List {
				i := i
				st := x.List[i]
				switch s := st.(type) {
				case *ast.ExprStmt, *ast.IncDecStmt, *ast.BranchStmt:
					out = append(out, site{line(st.Pos()), "delete-statement", "statement removed", func() { x.List[i] = &ast.EmptyStmt{Semicolon: st.Pos(), Implicit: false} }, func() { x.List[i] = st }})
				case *ast.AssignStmt:
					if s.Tok != token.DEFINE {
						out = append(out, site{line(st.Pos()), "delete-statement", "assignment removed", func() { x.List[i] = &ast.EmptyStmt{Semicolon: st.Pos()} }, func() { x.List[i] = st }})
					}
				}
			}
		}
		return true
	})
	return out
}

func must(err error) {
	if err != nil {
		fmt.Fprintln(os.Stderr, "mutate:", err)
		os.Exit(2)
	}
}
