//go:build verif

package spdxexp

// Hooks for the verification harness kept outside this repository.  This file is compiled only with the
// build tag "verif"; the package's behaviour is unchanged without it.  Each function exposes one internal
// stage of the package so that the stage can be compared with the formal model of that stage.

// VerifExpand exposes node.expand(true).
// Each alternative is returned as the canonical strings of its terms.
func VerifExpand(expression string) ([][]string, error) {
	n, err := parse(expression)
	if err != nil {
		return nil, err
	}
	var out [][]string
	for _, alternative := range n.expand(true) {
		terms := make([]string, 0, len(alternative))
		for _, term := range alternative {
			terms = append(terms, *term.reconstructedLicenseString())
		}
		out = append(out, terms)
	}
	return out, nil
}

// VerifTokens exposes scan(): the role (o operator, d DocumentRef, r LicenseRef, l license, e exception)
// and the value of each token.
func VerifTokens(expression string) (roles []byte, values []string, err error) {
	tokens, err := scan(expression)
	if err != nil {
		return nil, nil, err
	}
	for _, t := range tokens {
		var r byte
		switch t.role {
		case operatorToken:
			r = 'o'
		case documentRefToken:
			r = 'd'
		case licenseRefToken:
			r = 'r'
		case licenseToken:
			r = 'l'
		case exceptionToken:
			r = 'e'
		default:
			r = '?'
		}
		roles = append(roles, r)
		values = append(values, t.value)
	}
	return roles, values, nil
}

// VerifTree exposes parse(): the tree in the package's own notation (node.string()).
func VerifTree(expression string) (string, error) {
	n, err := parse(expression)
	if err != nil {
		return "", err
	}
	return n.string(), nil
}

// VerifRange exposes getLicenseRange(): license group and version group of the id.
func VerifRange(id string) (group int, version int, found bool) {
	r := getLicenseRange(id)
	if r == nil {
		return 0, 0, false
	}
	return r.location[licenseGroup], r.location[versionGroup], true
}

// VerifAllowed exposes the node list Satisfies evaluates an expression against: stringsToNodes followed by
// sortAndDedup, used exactly as Satisfies uses them.  A nil entry is reported as "<nil>".
func VerifAllowed(allowedList []string) ([]string, error) {
	allowedNodes, err := stringsToNodes(allowedList)
	if err != nil {
		return nil, err
	}
	sortAndDedup(allowedNodes)
	out := make([]string, 0, len(allowedNodes))
	for _, n := range allowedNodes {
		if n == nil {
			out = append(out, "<nil>")
			continue
		}
		out = append(out, *n.reconstructedLicenseString())
	}
	return out, nil
}
