(* Which words are identifiers, in the property's own terms and independently of the lookup cascade of scan.go:
   a word is read as a license / exception id iff it is on the SPDX lists up to letter case, or is such an id carrying
   the documented -only / -or-later suffix, or (before a '+') is the base of a listed X-or-later id, or is a deprecated
   id (R2 of DESIGN section 4: the suffix rules consult the active and exception lists only).  classify - shared by
   the model of the scanner and the reference tokeniser - recognises exactly these words. *)
From Spdx Require Import Model.Tokens Proofs.BytesFacts Proofs.NodeInv.
Local Open Scope list_scope.

Definition on_list (l : list str) (w : str) : Prop := exists x, In x l /\ fold_eqb x w = true.
Definition listed_ae (T : tables) (w : str) : Prop := on_list (active T) w \/ on_list (excs T) w.
Definition id_word (T : tables) (w : str) (next_plus : bool) : Prop :=
  listed_ae T w
  \/ (exists b, w = b ++ k_only /\ listed_ae T b)
  \/ (next_plus = true /\ listed_ae T (w ++ k_orlater))
  \/ (exists b, w = b ++ k_orlater /\ listed_ae T b)
  \/ on_list (deprec T) w.

Lemma in_list_iff l w : in_list l w <> None <-> on_list l w.
Proof.
  split.
  - destruct (in_list l w) as [p|] eqn:E; [|intros H; contradiction H; reflexivity].
    intros _. exists p. exact (in_list_some l w p E).
  - intros [x [Hx F]] E. rewrite (in_list_none l w E x Hx) in F. discriminate.
Qed.
Lemma license_lookup_iff T w : license_lookup T w <> None <-> listed_ae T w.
Proof.
  unfold license_lookup, listed_ae. rewrite <- !in_list_iff.
  destruct (in_list (active T) w), (in_list (excs T) w); split; intros H; try (left; discriminate); try (right; discriminate);
    try discriminate; try (destruct H as [H|H]; contradiction H; reflexivity); contradiction H; reflexivity.
Qed.
Lemma deprecated_lookup_iff T w : deprecated_lookup T w <> None <-> on_list (deprec T) w.
Proof.
  unfold deprecated_lookup. rewrite <- in_list_iff. destruct (in_list (deprec T) w); split; intros H; try discriminate; contradiction H; reflexivity.
Qed.

Theorem classify_known_iff T w np : classify T w np <> NUnknown <-> id_word T w np.
Proof.
  unfold classify, id_word. split.
  - intros H.
    destruct (license_lookup T w) eqn:E1; [left; apply license_lookup_iff; congruence|].
    destruct (strip_suffix k_only w) as [b1|] eqn:S1.
    + destruct (license_lookup T b1) eqn:E2.
      * right; left. exists b1. split; [exact (strip_suffix_spec _ _ _ S1)|apply license_lookup_iff; congruence].
      * destruct np.
        -- destruct (license_lookup T (w ++ k_orlater)) eqn:E3; [right; right; left; split; [reflexivity|apply license_lookup_iff; congruence]|].
           destruct (strip_suffix k_orlater w) as [b2|] eqn:S2.
           ++ destruct (license_lookup T b2) eqn:E4; [right; right; right; left; exists b2; split; [exact (strip_suffix_spec _ _ _ S2)|apply license_lookup_iff; congruence]|].
              destruct (deprecated_lookup T w) eqn:E5; [right; right; right; right; apply deprecated_lookup_iff; congruence|contradiction H; reflexivity].
           ++ destruct (deprecated_lookup T w) eqn:E5; [right; right; right; right; apply deprecated_lookup_iff; congruence|contradiction H; reflexivity].
        -- destruct (strip_suffix k_orlater w) as [b2|] eqn:S2.
           ++ destruct (license_lookup T b2) eqn:E4; [right; right; right; left; exists b2; split; [exact (strip_suffix_spec _ _ _ S2)|apply license_lookup_iff; congruence]|].
              destruct (deprecated_lookup T w) eqn:E5; [right; right; right; right; apply deprecated_lookup_iff; congruence|contradiction H; reflexivity].
           ++ destruct (deprecated_lookup T w) eqn:E5; [right; right; right; right; apply deprecated_lookup_iff; congruence|contradiction H; reflexivity].
    + destruct np.
      * destruct (license_lookup T (w ++ k_orlater)) eqn:E3; [right; right; left; split; [reflexivity|apply license_lookup_iff; congruence]|].
        destruct (strip_suffix k_orlater w) as [b2|] eqn:S2.
        -- destruct (license_lookup T b2) eqn:E4; [right; right; right; left; exists b2; split; [exact (strip_suffix_spec _ _ _ S2)|apply license_lookup_iff; congruence]|].
           destruct (deprecated_lookup T w) eqn:E5; [right; right; right; right; apply deprecated_lookup_iff; congruence|contradiction H; reflexivity].
        -- destruct (deprecated_lookup T w) eqn:E5; [right; right; right; right; apply deprecated_lookup_iff; congruence|contradiction H; reflexivity].
      * destruct (strip_suffix k_orlater w) as [b2|] eqn:S2.
        -- destruct (license_lookup T b2) eqn:E4; [right; right; right; left; exists b2; split; [exact (strip_suffix_spec _ _ _ S2)|apply license_lookup_iff; congruence]|].
           destruct (deprecated_lookup T w) eqn:E5; [right; right; right; right; apply deprecated_lookup_iff; congruence|contradiction H; reflexivity].
        -- destruct (deprecated_lookup T w) eqn:E5; [right; right; right; right; apply deprecated_lookup_iff; congruence|contradiction H; reflexivity].
  - intros H.
    destruct (license_lookup T w) eqn:E1; [discriminate|].
    assert (N1 : ~ listed_ae T w) by (intros K; apply license_lookup_iff in K; contradiction).
    destruct H as [H|[[b [-> Hb]]|[[-> Hp]|[[b [-> Hb]]|Hd]]]]; [contradiction| | | |].
    + rewrite strip_suffix_app. apply license_lookup_iff in Hb. destruct (license_lookup T b); [discriminate|contradiction Hb; reflexivity].
    + apply license_lookup_iff in Hp.
      destruct (match strip_suffix k_only w with Some adj => license_lookup T adj | None => None end); [discriminate|].
      destruct (license_lookup T (w ++ k_orlater)); [discriminate|contradiction Hp; reflexivity].
    + apply license_lookup_iff in Hb.
      destruct (match strip_suffix k_only (b ++ k_orlater) with Some adj => license_lookup T adj | None => None end); [discriminate|].
      destruct (if np then license_lookup T ((b ++ k_orlater) ++ k_orlater) else None); [discriminate|].
      rewrite strip_suffix_app. destruct (license_lookup T b); [discriminate|contradiction Hb; reflexivity].
    + apply deprecated_lookup_iff in Hd.
      destruct (match strip_suffix k_only w with Some adj => license_lookup T adj | None => None end); [discriminate|].
      destruct (if np then license_lookup T (w ++ k_orlater) else None); [discriminate|].
      destruct (match strip_suffix k_orlater w with Some adj => license_lookup T adj | None => None end); [discriminate|].
      destruct (deprecated_lookup T w); [discriminate|contradiction Hd; reflexivity].
Qed.
