(* The parser as written does a linear amount of work: the cost twin of Model/ParseStackTicks.v erases to the machine
   of Model/ParseStack.v and its tick count is at most 5 * |tokens| + 3.  The argument is the usual potential one: every
   operand sits in exactly one group until one joinOperands consumes it, so the cost of all joins together is bounded
   by the number of operands ever created (atoms + joined chains), not by (number of joins) x (chain length). *)
From Coq Require Import Lia.
From Spdx Require Import Model.Parse Model.ParseStack Model.ParseStackTicks Proofs.ParseGrammar Proofs.ParseStack.
Local Open Scope list_scope.

Lemma A_body_t_fst rA rB rA' rB' enc cur ts :
  (forall e c r, fst (rA' e c r) = rA e c r) -> (forall e c r, fst (rB' e c r) = rB e c r) ->
  fst (A_body_t rA' rB' enc cur ts) = A_body rA rB enc cur ts.
Proof.
  intros HA HB. unfold A_body_t, A_body. destruct (p_op OLp ts); [apply HA|].
  destruct (ps_atom ts) as [[a r]| | |]; try reflexivity. apply HB.
Qed.
Lemma B_body_t_fst rA rB rA' rB' enc cur ts :
  (forall e c r, fst (rA' e c r) = rA e c r) -> (forall e c r, fst (rB' e c r) = rB e c r) ->
  fst (B_body_t rA' rB' enc cur ts) = B_body rA rB enc cur ts.
Proof.
  intros HA HB. unfold B_body_t, B_body. destruct ts as [|t0 ts'].
  - destruct enc; reflexivity.
  - destruct (p_op OAnd (t0 :: ts')) as [[|r0 r]|]; try reflexivity; [apply HA|].
    destruct (p_op OOr (t0 :: ts')) as [r|].
    + destruct (close_terms cur); try reflexivity. destruct r; [reflexivity|apply HA].
    + destruct enc as [|top enc']; [reflexivity|].
      destruct (p_op ORp (t0 :: ts')); [|reflexivity]. destruct (group_node cur); try reflexivity. apply HB.
Qed.

Theorem stack_ticks_erase f :
  (forall enc cur ts, fst (runA_t f enc cur ts) = runA f enc cur ts) /\
  (forall enc cur ts, fst (runB_t f enc cur ts) = runB f enc cur ts).
Proof.
  induction f as [|f [IA IB]]; [split; reflexivity|].
  split; intros enc cur ts.
  - rewrite runA_S. apply A_body_t_fst; assumption.
  - rewrite runB_S. apply B_body_t_fst; assumption.
Qed.

(* operands waiting in the groups of the stack *)
Definition gsize (g : group) : nat := length (alts g) + length (terms g).
Fixpoint esize (enc : list group) : nat := match enc with [] => 0 | g :: r => gsize g + esize r end.
Definition phi (enc : list group) (cur : group) : nat := gsize cur + esize enc.

Lemma close_terms_size g g' : close_terms g = Ok g' -> gsize g' + length (terms g) = gsize g + 1.
Proof.
  unfold close_terms. destruct (join_ops NAnd (terms g)); try discriminate.
  intros H; inversion H; subst. unfold gsize. cbn [alts terms]. rewrite app_length. simpl. lia.
Qed.
Lemma add_term_size g n : gsize (add_term g n) = gsize g + 1.
Proof. unfold gsize, add_term. cbn [alts terms]. rewrite app_length. simpl. lia. Qed.
Lemma node_cost_size g : node_cost g = gsize g + 2.
Proof. unfold node_cost, close_cost, gsize. lia. Qed.
Lemma close_cost_size g : close_cost g = length (terms g) + 1.
Proof. reflexivity. Qed.

Theorem stack_ticks_cost f :
  (forall enc cur ts, snd (runA_t f enc cur ts) <= 5 * length ts + phi enc cur + 3) /\
  (forall enc cur ts, snd (runB_t f enc cur ts) <= 5 * length ts + phi enc cur + 3).
Proof.
  induction f as [|f [IA IB]]; [split; intros; simpl; lia|].
  split; intros enc cur ts.
  - change (runA_t (S f) enc cur ts) with (A_body_t (runA_t f) (runB_t f) enc cur ts). unfold A_body_t.
    destruct (p_op OLp ts) as [r|] eqn:EL.
    + apply p_op_some in EL; subst. specialize (IA (cur :: enc) g0 r).
      unfold tick. cbn [snd length]. unfold phi, g0 in *. cbn [esize] in *. unfold gsize in *. cbn [alts terms length] in *. lia.
    + destruct (ps_atom ts) as [[a r]|e| |] eqn:EA; cbn [snd]; try lia.
      pose proof (ps_atom_shorter _ _ _ EA) as Hlen. specialize (IB enc (add_term cur a) r).
      unfold tick. cbn [snd]. unfold phi in *. rewrite add_term_size in IB. lia.
  - change (runB_t (S f) enc cur ts) with (B_body_t (runA_t f) (runB_t f) enc cur ts). unfold B_body_t.
    destruct ts as [|t0 ts'].
    + destruct enc; cbn [snd]; [|lia]. rewrite node_cost_size. unfold phi. simpl. lia.
    + destruct (p_op OAnd (t0 :: ts')) as [r|] eqn:E1.
      * apply p_op_some in E1. inversion E1; subst. destruct r as [|r0 r]; cbn [snd]; [lia|].
        specialize (IA enc cur (r0 :: r)). unfold tick. cbn [snd length] in *. lia.
      * destruct (p_op OOr (t0 :: ts')) as [r|] eqn:E2.
        -- apply p_op_some in E2. inversion E2; subst. rewrite close_cost_size.
           assert (Hg : length (terms cur) <= gsize cur) by (unfold gsize; lia).
           destruct (close_terms cur) as [cur'|e| |] eqn:EC; cbn [snd length]; unfold phi; try lia.
           apply close_terms_size in EC.
           destruct r as [|r0 r]; cbn [snd length]; [lia|].
           specialize (IA enc cur' (r0 :: r)). unfold tick. cbn [snd length] in *. unfold phi in IA. lia.
        -- destruct enc as [|top enc'].
           ++ cbn [snd]. rewrite node_cost_size. unfold phi. cbn [length]. lia.
           ++ destruct (p_op ORp (t0 :: ts')) as [r|] eqn:E3; cbn [snd length]; [|lia].
              apply p_op_some in E3. inversion E3; subst. rewrite node_cost_size.
              destruct (group_node cur) as [inner|e| |]; cbn [snd length]; unfold phi; cbn [esize]; try lia.
              specialize (IB enc' (add_term top inner) r). unfold tick. cbn [snd]. unfold phi in IB.
              rewrite add_term_size in IB. lia.
Qed.

(* as run by parseTokens: from the empty stack *)
Theorem stack_parser_linear ts :
  fst (runA_t (S (length ts)) [] g0 ts) = runA (S (length ts)) [] g0 ts /\
  snd (runA_t (S (length ts)) [] g0 ts) <= 5 * length ts + 3.
Proof.
  split; [apply stack_ticks_erase|].
  pose proof (proj1 (stack_ticks_cost (S (length ts))) [] g0 ts) as H. unfold phi in H. simpl in H. simpl. lia.
Qed.
