(* Two texts with the same parse outcome (same tree, or both invalid) are interchangeable everywhere in the API. *)
From Coq Require Import Lia.
From Spdx Require Import Model.Api Spec.Eval Spec.WF Spec.Units Proofs.BytesFacts Proofs.NodeInv Proofs.Sat Proofs.ApiFacts Proofs.Laws
  Proofs.Lexo Proofs.Split Proofs.Replace Proofs.Respell.
Local Open Scope list_scope.

Section SameT.
Variable T : tables.
Hypothesis HT : license_lookup T [] = None.
Hypothesis Hnr : forall l, In l (lic_ids T) -> no_ref_prefix l.

Definition same_parse (s s' : str) : Prop := oks (parse T s) = oks (parse T s').

Lemma same_parse_cases s s' : same_parse s s' ->
  (exists t, parse T s = Ok t /\ parse T s' = Ok t) \/ (validb T s = false /\ validb T s' = false).
Proof.
  unfold same_parse. intros H. destruct (parse_cases T HT s) as [[t Ht]|[e He]].
  - left. exists t. split; [assumption|]. rewrite Ht in H. simpl in H. symmetry in H. apply oks_ok in H. assumption.
  - right. split; [apply (validb_false T HT); eauto|]. rewrite He in H. simpl in H.
    destruct (parse_cases T HT s') as [[t Ht]|[e' He']]; [rewrite Ht in H; discriminate|apply (validb_false T HT); eauto].
Qed.

Theorem same_parse_valid s s' : same_parse s s' -> validb T s = validb T s'.
Proof.
  intros H. destruct (same_parse_cases s s' H) as [[t [H1 H2]]|[H1 H2]]; [|congruence].
  unfold validb. rewrite H1, H2. reflexivity.
Qed.
(* as the expression *)
Theorem same_parse_expression s s' A : same_parse s s' -> obs (satisfies T s A) = obs (satisfies T s' A).
Proof.
  intros H. destruct (same_parse_cases s s' H) as [[t [H1 H2]]|[H1 H2]].
  - unfold satisfies. rewrite H1, H2. reflexivity.
  - apply (validb_false T HT) in H1, H2. destruct H1 as [e1 H1]. destruct H2 as [e2 H2].
    unfold satisfies. rewrite H1, H2. reflexivity.
Qed.
(* as an allowed entry, at any position *)
Theorem same_parse_allowed e A1 s s' A2 : same_parse s s' ->
  obs (satisfies T e (A1 ++ s :: A2)) = obs (satisfies T e (A1 ++ s' :: A2)).
Proof.
  intros H. destruct (same_parse_cases s s' H) as [[t [H1 H2]]|[H1 H2]].
  - destruct (is_leaf t) eqn:EL.
    + apply (sat_respell T HT Hnr); [exists t; auto|exists t; auto|unfold pn; rewrite H1, H2; reflexivity].
    + assert (K : forall x, parse T x = Ok t -> obs (satisfies T e (A1 ++ x :: A2)) = None).
      { intros x Hx. apply (satisfies_err_iff T HT). right. right. intros F. apply Forall_app in F. destruct F as [_ F].
        inversion F as [|? ? [n [Hn Ln]] _]; subst. rewrite Hx in Hn. inversion Hn; subst. congruence. }
      rewrite (K s H1), (K s' H2). reflexivity.
  - assert (K : forall x, validb T x = false -> obs (satisfies T e (A1 ++ x :: A2)) = None).
    { intros x Hx. apply (satisfies_err_iff T HT). right. right. intros F. apply Forall_app in F. destruct F as [_ F].
      inversion F as [|? ? [n [Hn Ln]] _]; subst. apply (validb_false T HT) in Hx. destruct Hx as [er Hx]. rewrite Hx in Hn. discriminate. }
    rewrite (K s H1), (K s' H2). reflexivity.
Qed.
Theorem same_parse_extract s s' : same_parse s s' -> obs (extract_licenses T s) = obs (extract_licenses T s').
Proof.
  intros H. pose proof (extract_licenses_spec T HT s) as E1. pose proof (extract_licenses_spec T HT s') as E2.
  destruct (same_parse_cases s s' H) as [[t [H1 H2]]|[H1 H2]].
  - rewrite H1 in E1. rewrite H2 in E2. rewrite E1, E2. reflexivity.
  - apply (validb_false T HT) in H1, H2. destruct H1 as [e1 H1]. destruct H2 as [e2 H2].
    rewrite H1 in E1. rewrite H2 in E2. rewrite E1, E2. reflexivity.
Qed.

(* ---- C08: X+ and X-or-later at any term position of any text ---- *)
Lemma toks_eqb_eq a : forall b, toks_eqb a b = true -> a = b.
Proof.
  induction a as [|x a IH]; intros [|y b] H; simpl in H; try discriminate; [reflexivity|].
  destruct (tok_eqb x y) eqn:E; [|discriminate]. f_equal; [|apply IH; assumption].
  destruct x as [o1| | | |], y as [o2| | | |]; simpl in E; try discriminate; try (apply str_eqb_eq in E; subst; reflexivity).
  destruct o1, o2; simpl in E; try discriminate; reflexivity.
Qed.
Lemma lex_of_lexo s : lex_of T s = lexo T s.
Proof. unfold lex_of, lexo. destruct (ref_tokens T s); reflexivity. Qed.
Lemma olex_eqb_eq a b : olex_eqb a b = true -> a = b.
Proof. destruct a, b; simpl; intros H; try discriminate; [apply toks_eqb_eq in H; subst|]; reflexivity. Qed.
Lemma is_word_starts x : is_word x = true -> starts_idchar x /\ Forall (fun c => is_idchar c = true) x.
Proof.
  unfold is_word. destruct x as [|c x]; [discriminate|]. intros H. simpl in H. apply andb_true_iff in H. destruct H as [H1 H2].
  split; [exact H1|]. constructor; [assumption|]. apply Forall_forall. rewrite forallb_forall in H2. assumption.
Qed.

Hypothesis HU : chk_unit_tokens T = true.

Theorem plus_orlater_anywhere x p q :
  In x (lic_ids T) -> is_word x = true -> validb T (x ++ plus) = true -> validb T (x ++ k_orlater) = true ->
  (q = [] \/ exists c q', q = c :: q' /\ is_idchar c = false /\ c <> "+"%char) ->
  (p = [] \/ exists p' c1, p = p' ++ [c1] /\ boundary p' c1) ->
  same_parse (p ++ (x ++ plus) ++ q) (p ++ (x ++ k_orlater) ++ q).
Proof.
  intros Hin Hw V1 V2 Hq Hp. destruct (is_word_starts x Hw) as [Hs _].
  assert (HL : lexo T (x ++ plus) = lexo T (x ++ k_orlater)).
  { unfold chk_unit_tokens in HU. rewrite forallb_forall in HU. specialize (HU x Hin). rewrite Hw in HU.
    apply andb_true_iff in HU. destruct HU as [H1 _]. unfold valid_b in H1. unfold validb in V1, V2.
    destruct (parse T (x ++ plus)); try discriminate. destruct (parse T (x ++ k_orlater)); try discriminate.
    apply olex_eqb_eq in H1. rewrite !lex_of_lexo in H1. assumption. }
  apply (parse_context T HT p (x ++ plus) (x ++ k_orlater) q HL).
  - destruct x; [contradiction|exact Hs].
  - destruct x; [contradiction|exact Hs].
  - destruct Hq as [->|[c [q' [-> [Hc Hnp]]]]]; [left; reflexivity|]. right. exists c, q'.
    split; [reflexivity|]. split; apply boundary_clean; assumption.
  - assumption.
Qed.

Theorem only_unlisted_anywhere x p q :
  In x (lic_ids T) -> is_word x = true -> validb T x = true -> validb T (x ++ k_only) = true ->
  existsb (fold_eqb (x ++ k_only)) (lic_ids T) = false ->
  (q = [] \/ exists c q', q = c :: q' /\ boundary x c /\ boundary (x ++ k_only) c) ->
  (p = [] \/ exists p' c1, p = p' ++ [c1] /\ boundary p' c1) ->
  same_parse (p ++ x ++ q) (p ++ (x ++ k_only) ++ q).
Proof.
  intros Hin Hw V1 V2 Hnl Hq Hp. destruct (is_word_starts x Hw) as [Hs _].
  assert (HL : lexo T x = lexo T (x ++ k_only)).
  { unfold chk_unit_tokens in HU. rewrite forallb_forall in HU. specialize (HU x Hin). rewrite Hw in HU.
    apply andb_true_iff in HU. destruct HU as [_ H1]. unfold valid_b in H1. unfold validb in V1, V2.
    destruct (parse T x); try discriminate. destruct (parse T (x ++ k_only)); try discriminate.
    rewrite Hnl in H1. apply olex_eqb_eq in H1. rewrite !lex_of_lexo in H1. assumption. }
  apply (parse_context T HT p x (x ++ k_only) q HL); try assumption.
  destruct x; [contradiction|exact Hs].
Qed.
End SameT.
