(* Replacing a lexical unit inside an arbitrary text: if two units give the same tokens on their own, they give
   the same tokens in every context whose neighbouring bytes are boundaries. *)
From Coq Require Import Lia.
From Spdx Require Import Model.Scan Model.Parse Spec.Lex Proofs.BytesFacts Proofs.ScanRef Proofs.Split Proofs.Lexo Proofs.Respell.
Local Open Scope list_scope.

Definition starts_idchar (s : str) : Prop := match s with c :: _ => is_idchar c = true | [] => False end.

Lemma idchar_neq x c : is_idchar x = true -> is_idchar c = false -> Ascii.eqb x c = false.
Proof. intros Hx Hc. destruct (Ascii.eqb x c) eqn:E; [|reflexivity]. apply Ascii.eqb_eq in E. subst. congruence. Qed.

Section ReplaceT.
Variable T : tables.
Hypothesis HT : license_lookup T [] = None.

(* a byte that is neither an id character, nor one of ( ) : + , nor a space, cannot start any item *)
Lemma lexo_garbage c r : is_idchar c = false -> is_space c = false ->
  Ascii.eqb c "(" = false -> Ascii.eqb c ")" = false -> Ascii.eqb c ":" = false -> Ascii.eqb c "+" = false ->
  lexo T (c :: r) = None.
Proof.
  intros Hc Hs H1 H2 H3 H4. rewrite (lexo_unfold T), (ref_run_unfold T HT). cbn [span]. rewrite Hs.
  unfold ref_item. unfold ops, k_docref, k_licref. cbn [first_op s2l list_ascii_of_string strip_prefix].
  rewrite (idchar_neq "W" c eq_refl Hc), (idchar_neq "A" c eq_refl Hc), (idchar_neq "O" c eq_refl Hc).
  rewrite (Ascii.eqb_sym "(" c), H1, (Ascii.eqb_sym ")" c), H2, (Ascii.eqb_sym ":" c), H3, (Ascii.eqb_sym "+" c), H4.
  rewrite (idchar_neq "D" c eq_refl Hc), (idchar_neq "L" c eq_refl Hc). cbn [span]. rewrite Hc. reflexivity.
Qed.

(* prepending one non-id byte is a congruence for lexo, on texts that start with an id character *)
Lemma lexo_cons_cong c r r' : is_idchar c = false -> starts_idchar r -> starts_idchar r' ->
  lexo T r = lexo T r' -> lexo T (c :: r) = lexo T (c :: r').
Proof.
  intros Hc Hr Hr' HL.
  assert (Hnp : forall x, starts_idchar x -> forall x', x <> "+"%char :: x').
  { intros x Hx x' E. subst. simpl in Hx. discriminate. }
  destruct (is_space c) eqn:Es.
  { unfold is_space in Es. apply Ascii.eqb_eq in Es. subst c.
    rewrite (lexo_space_then T HT r (Hnp r Hr)), (lexo_space_then T HT r' (Hnp r' Hr')). assumption. }
  destruct (Ascii.eqb c "(") eqn:E1. { apply Ascii.eqb_eq in E1. subst. rewrite !(lexo_lp T HT), HL. reflexivity. }
  destruct (Ascii.eqb c ")") eqn:E2. { apply Ascii.eqb_eq in E2. subst. rewrite !(lexo_rp T HT), HL. reflexivity. }
  destruct (Ascii.eqb c ":") eqn:E3. { apply Ascii.eqb_eq in E3. subst. rewrite !(lexo_colon T HT), HL. reflexivity. }
  destruct (Ascii.eqb c "+") eqn:E4. { apply Ascii.eqb_eq in E4. subst. rewrite !(lexo_plus T HT), HL. reflexivity. }
  rewrite (lexo_garbage c r), (lexo_garbage c r'); auto.
Qed.

(* the context theorem *)
Theorem lexo_context p w w' q :
  lexo T w = lexo T w' -> starts_idchar w -> starts_idchar w' ->
  (q = [] \/ exists c q', q = c :: q' /\ boundary w c /\ boundary w' c) ->
  (p = [] \/ exists p' c1, p = p' ++ [c1] /\ boundary p' c1) ->
  lexo T (p ++ w ++ q) = lexo T (p ++ w' ++ q).
Proof.
  intros HL Hw Hw' Hq Hp.
  assert (H1 : lexo T (w ++ q) = lexo T (w' ++ q)).
  { destruct Hq as [->|[c [q' [-> [B1 B2]]]]]; [rewrite !app_nil_r; assumption|].
    rewrite (lexo_app T HT w c q' B1), (lexo_app T HT w' c q' B2), HL. reflexivity. }
  destruct Hp as [->|[p' [c1 [-> B]]]]; [assumption|].
  rewrite <- !app_assoc. cbn [app].
  rewrite (lexo_app T HT p' c1 (w ++ q) B), (lexo_app T HT p' c1 (w' ++ q) B).
  destruct (lexo T p'); [|reflexivity]. f_equal.
  apply lexo_cons_cong; [apply B| | |assumption].
  - destruct w; [contradiction|exact Hw].
  - destruct w'; [contradiction|exact Hw'].
Qed.

(* ... and therefore the same parse result (tree or "invalid") *)
Theorem parse_context p w w' q :
  lexo T w = lexo T w' -> starts_idchar w -> starts_idchar w' ->
  (q = [] \/ exists c q', q = c :: q' /\ boundary w c /\ boundary w' c) ->
  (p = [] \/ exists p' c1, p = p' ++ [c1] /\ boundary p' c1) ->
  oks (parse T (p ++ w ++ q)) = oks (parse T (p ++ w' ++ q)).
Proof.
  intros HL Hw Hw' Hq Hp. rewrite !(parse_via_lexo T HT), (lexo_context p w w' q HL Hw Hw' Hq Hp).
  destruct w as [|x w0]; [contradiction|]. destruct w' as [|x' w0']; [contradiction|].
  destruct p; reflexivity.
Qed.
End ReplaceT.
