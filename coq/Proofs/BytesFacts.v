(* Facts about the byte-string operations of Model/Bytes.v. *)
From Coq Require Import Lia.
From Spdx Require Import Model.Bytes.
Local Open Scope list_scope.

Lemma frev_rev {A} (l : list A) : frev l = rev l.
Proof. unfold frev. rewrite rev_append_rev, app_nil_r. reflexivity. Qed.
Lemma rapp_rev {A} (a b : list A) : rev_append a b = rev a ++ b.
Proof. apply rev_append_rev. Qed.

Lemma ascii_eqb_refl a : Ascii.eqb a a = true.
Proof. apply Ascii.eqb_refl. Qed.

Lemma str_eqb_eq a : forall b, str_eqb a b = true <-> a = b.
Proof.
  induction a as [|x a IH]; intros [|y b]; simpl; split; intros H; try reflexivity; try discriminate.
  - destruct (Ascii.eqb x y) eqn:E; [|discriminate]. apply Ascii.eqb_eq in E. apply IH in H. subst. reflexivity.
  - inversion H; subst. rewrite Ascii.eqb_refl. apply IH. reflexivity.
Qed.
Lemma str_eqb_refl a : str_eqb a a = true.
Proof. apply str_eqb_eq. reflexivity. Qed.
Lemma str_eqb_neq a b : str_eqb a b = false <-> a <> b.
Proof.
  split.
  - intros H E. apply str_eqb_eq in E. congruence.
  - intros H. destruct (str_eqb a b) eqn:E; [|reflexivity]. apply str_eqb_eq in E. contradiction.
Qed.

Lemma fold_eqb_refl a : fold_eqb a a = true.
Proof. induction a as [|x a IH]; simpl; [reflexivity|]. rewrite Ascii.eqb_refl. exact IH. Qed.
Lemma fold_eqb_sym a : forall b, fold_eqb a b = fold_eqb b a.
Proof.
  induction a as [|x a IH]; intros [|y b]; simpl; try reflexivity.
  rewrite (Ascii.eqb_sym (lower x) (lower y)). rewrite IH. reflexivity.
Qed.
Lemma fold_eqb_trans a : forall b c, fold_eqb a b = true -> fold_eqb b c = true -> fold_eqb a c = true.
Proof.
  induction a as [|x a IH]; intros [|y b] [|z c]; simpl; try discriminate; try reflexivity.
  destruct (Ascii.eqb (lower x) (lower y)) eqn:E1; [|discriminate].
  destruct (Ascii.eqb (lower y) (lower z)) eqn:E2; [|discriminate].
  apply Ascii.eqb_eq in E1, E2. rewrite E1, E2, Ascii.eqb_refl. apply IH.
Qed.
Lemma fold_eqb_length a : forall b, fold_eqb a b = true -> length a = length b.
Proof.
  induction a as [|x a IH]; intros [|y b]; simpl; try discriminate; try reflexivity.
  destruct (Ascii.eqb (lower x) (lower y)); [|discriminate]. intros H. f_equal. apply IH. exact H.
Qed.
Lemma fold_eqb_app a : forall b c d, length a = length b ->
  fold_eqb (a ++ c) (b ++ d) = if fold_eqb a b then fold_eqb c d else false.
Proof.
  induction a as [|x a IH]; intros [|y b] c d H; simpl in *; try discriminate; try reflexivity.
  destruct (Ascii.eqb (lower x) (lower y)); [|reflexivity]. apply IH. lia.
Qed.
Lemma str_eqb_fold a b : str_eqb a b = true -> fold_eqb a b = true.
Proof. intros H. apply str_eqb_eq in H. subst. apply fold_eqb_refl. Qed.

Lemma strip_prefix_spec p : forall s r, strip_prefix p s = Some r -> s = p ++ r.
Proof.
  induction p as [|x p IH]; intros s r H; simpl in *.
  - inversion H; reflexivity.
  - destruct s as [|y s]; [discriminate|]. destruct (Ascii.eqb x y) eqn:E; [|discriminate].
    apply Ascii.eqb_eq in E; subst. rewrite (IH _ _ H). reflexivity.
Qed.
Lemma strip_prefix_app p r : strip_prefix p (p ++ r) = Some r.
Proof. induction p as [|x p IH]; simpl; [reflexivity|]. rewrite Ascii.eqb_refl. exact IH. Qed.
Lemma strip_prefix_none p s : strip_prefix p s = None -> forall r, s <> p ++ r.
Proof. intros H r E. subst. rewrite strip_prefix_app in H. discriminate. Qed.
Lemma strip_suffix_spec sfx s r : strip_suffix sfx s = Some r -> s = r ++ sfx.
Proof.
  unfold strip_suffix. rewrite !frev_rev. destruct (strip_prefix (rev sfx) (rev s)) as [q|] eqn:E; [|discriminate].
  intros H; inversion H; subst. apply strip_prefix_spec in E. rewrite frev_rev.
  rewrite <- (rev_involutive s), E, rev_app_distr, rev_involutive. reflexivity.
Qed.
Lemma strip_suffix_app r sfx : strip_suffix sfx (r ++ sfx) = Some r.
Proof.
  unfold strip_suffix. rewrite !frev_rev, rev_app_distr, strip_prefix_app, frev_rev, rev_involutive. reflexivity.
Qed.
Lemma strip_suffix_none sfx s : strip_suffix sfx s = None -> forall r, s <> r ++ sfx.
Proof. intros H r E. subst. rewrite strip_suffix_app in H. discriminate. Qed.

Lemma span_spec p : forall s a b, span p s = (a, b) ->
  s = a ++ b /\ Forall (fun c => p c = true) a /\ match b with [] => True | c :: _ => p c = false end.
Proof.
  induction s as [|x s IH]; intros a b H; simpl in H.
  - inversion H; subst. repeat split; constructor.
  - destruct (p x) eqn:E.
    + destruct (span p s) as [a' b'] eqn:E'. inversion H; subst.
      destruct (IH _ _ eq_refl) as [-> [F L]]. repeat split; [constructor; assumption|assumption].
    + inversion H; subst. repeat split; [constructor|assumption].
Qed.
(* span is determined by the split *)
Lemma span_app p a : forall b, Forall (fun c => p c = true) a ->
  match b with [] => True | c :: _ => p c = false end -> span p (a ++ b) = (a, b).
Proof.
  induction a as [|x a IH]; intros b Fa Hb; simpl.
  - destruct b as [|c b]; [reflexivity|]. simpl. rewrite Hb. reflexivity.
  - inversion Fa; subst. rewrite H1. rewrite IH; auto.
Qed.

Lemma idchar_not_space c : is_idchar c = true -> is_space c = false.
Proof.
  unfold is_space. destruct (Ascii.eqb c " ") eqn:E; [|reflexivity].
  apply Ascii.eqb_eq in E; subst. vm_compute. discriminate.
Qed.

(* all 256 bytes: a finite sweep lifted to a quantified statement *)
Definition all_bytes : list ascii :=
  flat_map (fun b7 => flat_map (fun b6 => flat_map (fun b5 => flat_map (fun b4 =>
  flat_map (fun b3 => flat_map (fun b2 => flat_map (fun b1 => map (fun b0 => Ascii b0 b1 b2 b3 b4 b5 b6 b7)
  [false; true]) [false; true]) [false; true]) [false; true]) [false; true]) [false; true]) [false; true]) [false; true].
Lemma all_bytes_complete a : In a all_bytes.
Proof.
  assert (H : existsb (Ascii.eqb a) all_bytes = true) by (destruct a as [[] [] [] [] [] [] [] []]; vm_compute; reflexivity).
  apply existsb_exists in H. destruct H as [x [Hx E]]. apply Ascii.eqb_eq in E. subst. assumption.
Qed.
Lemma forall_bytes (P : ascii -> bool) : forallb P all_bytes = true -> forall a, P a = true.
Proof. intros H a. rewrite forallb_forall in H. apply H, all_bytes_complete. Qed.

Lemma lower_idem a : lower (lower a) = lower a.
Proof.
  apply Ascii.eqb_eq. revert a. apply (forall_bytes (fun a => Ascii.eqb (lower (lower a)) (lower a))).
  vm_compute. reflexivity.
Qed.
