(* Extra spaces anywhere between lexical items never change the parse: at any byte c that is not an id character and
   not a '+' (a '+' must abut its id), any run of spaces may be inserted in front of c. *)
From Coq Require Import Lia.
From Spdx Require Import Model.Scan Model.Parse Spec.Lex Proofs.BytesFacts Proofs.ScanRef Proofs.Offsets Proofs.Split Proofs.Lexo.
Local Open Scope list_scope.

Section SpacesT.
Variable T : tables.
Hypothesis HT : license_lookup T [] = None.

Theorem lexo_extra_spaces a c b sp : boundary a c -> c <> "+"%char -> Forall (fun ch => is_space ch = true) sp ->
  lexo T (a ++ sp ++ c :: b) = lexo T (a ++ c :: b).
Proof.
  intros Bd Hc Fs. destruct sp as [|s0 sp']; [reflexivity|].
  inversion Fs as [|? ? Hs0 Fs']; subst.
  assert (Bs : boundary a s0).
  { split; [|intros ->; discriminate Hs0].
    unfold is_space in Hs0. apply Ascii.eqb_eq in Hs0. subst. reflexivity. }
  change (a ++ (s0 :: sp') ++ c :: b) with (a ++ s0 :: (sp' ++ c :: b)).
  rewrite (lexo_app T HT a s0 (sp' ++ c :: b) Bs), (lexo_app T HT a c b Bd).
  destruct (lexo T a) as [t1|]; [|reflexivity]. f_equal.
  change (s0 :: sp' ++ c :: b) with ((s0 :: sp') ++ c :: b).
  apply (lexo_spaces T HT (s0 :: sp') (c :: b) Fs). intros r' E. inversion E. contradiction.
Qed.

Theorem parse_extra_spaces a c b sp t : boundary a c -> c <> "+"%char -> Forall (fun ch => is_space ch = true) sp ->
  (parse T (a ++ sp ++ c :: b) = Ok t <-> parse T (a ++ c :: b) = Ok t).
Proof.
  intros Bd Hc Fs.
  pose proof (parse_via_lexo T HT (a ++ sp ++ c :: b)) as P1. pose proof (parse_via_lexo T HT (a ++ c :: b)) as P2.
  rewrite (lexo_extra_spaces a c b sp Bd Hc Fs) in P1.
  assert (N1 : a ++ sp ++ c :: b <> []) by (destruct a; [destruct sp; discriminate|discriminate]).
  assert (N2 : a ++ c :: b <> []) by (destruct a; discriminate).
  destruct (a ++ sp ++ c :: b) as [|x1 r1] eqn:E1; [contradiction|]. destruct (a ++ c :: b) as [|x2 r2] eqn:E2; [contradiction|].
  rewrite <- P2 in P1. clear P2.
  destruct (parse T (x1 :: r1)) as [t1|e1| |], (parse T (x2 :: r2)) as [t2|e2| |]; simpl in P1; try discriminate;
    split; intros H; try discriminate; inversion P1; subst; assumption.
Qed.
End SpacesT.
