(* The parser is parametric in the text of license ids (it only asks whether an id ends in "-or-later"):
   related token lists give related trees.  Used for C08: X and X-only are different ids that the matcher cannot
   tell apart. *)
From Coq Require Import Lia.
From Spdx Require Import Model.Parse Model.Api Spec.Eval Proofs.BytesFacts Proofs.ParseGrammar Proofs.Sat.
Local Open Scope list_scope.

Section Rel.
Variable R : str -> str -> Prop.
Hypothesis R_refl : forall a, R a a.
Hypothesis R_orlater : forall a b, R a b -> ends_orlater a = ends_orlater b.

Definition tok_rel (t t' : tok) : Prop :=
  match t, t' with TLic a, TLic b => R a b | _, _ => t = t' end.
Fixpoint tree_rel (t t' : node) : Prop :=
  match t, t' with
  | NLic a p e, NLic b p' e' => R a b /\ p = p' /\ e = e'
  | NRef d r, NRef d' r' => d = d' /\ r = r'
  | NAnd a b, NAnd a' b' | NOr a b, NOr a' b' => tree_rel a a' /\ tree_rel b b'
  | _, _ => False
  end.
Definition res_rel (r r' : res (node * list tok)) : Prop :=
  match r, r' with
  | Ok (n, ts), Ok (n', ts') => tree_rel n n' /\ Forall2 tok_rel ts ts'
  | Err _, Err _ => True
  | Panic, Panic => True
  | Fuel, Fuel => True
  | _, _ => False
  end.
Definition ores_rel (r r' : res (option (node * list tok))) : Prop :=
  match r, r' with
  | Ok (Some (n, ts)), Ok (Some (n', ts')) => tree_rel n n' /\ Forall2 tok_rel ts ts'
  | Ok None, Ok None => True
  | Err _, Err _ => True
  | _, _ => False
  end.

Lemma tok_rel_refl t : tok_rel t t. Proof. destruct t; simpl; auto. Qed.
Lemma toks_rel_refl ts : Forall2 tok_rel ts ts. Proof. induction ts; constructor; auto using tok_rel_refl. Qed.

Lemma p_op_rel o ts ts' : Forall2 tok_rel ts ts' ->
  match p_op o ts, p_op o ts' with
  | Some r, Some r' => Forall2 tok_rel r r'
  | None, None => True
  | _, _ => False
  end.
Proof.
  intros F. destruct F as [|t t' ts ts' Ht F]; [exact I|].
  destruct t as [o1| | | |], t' as [o2| | | |]; simpl in Ht; try discriminate; simpl; auto.
  inversion Ht; subst. destruct (op_eqb o o2); [assumption|exact I].
Qed.

Lemma p_ref_rel ts ts' : Forall2 tok_rel ts ts' -> ores_rel (p_ref ts) (p_ref ts').
Proof.
  intros F. destruct F as [|t t' ts ts' Ht F]; [exact I|].
  destruct t as [o1|d|x|l|e], t' as [o2|d'|x'|l'|e']; simpl in Ht; try discriminate; try (inversion Ht; subst); try exact I.
  - (* DocumentRef *)
    cbn [p_ref]. pose proof (p_op_rel OColon ts ts' F) as H.
    destruct (p_op OColon ts) as [r|], (p_op OColon ts') as [r'|]; try contradiction; [|exact I].
    destruct H as [|u u' r r' Hu Hr]; [exact I|].
    destruct u as [o1| |y| |], u' as [o2| |y'| |]; simpl in Hu; try discriminate; try (inversion Hu; subst); try exact I.
    simpl. auto.
  - (* LicenseRef *) simpl. auto.
Qed.

Lemma p_lic_rel ts ts' : Forall2 tok_rel ts ts' -> ores_rel (p_lic ts) (p_lic ts').
Proof.
  intros F. destruct F as [|t t' ts ts' Ht F]; [exact I|].
  destruct t as [o1|d|x|l|e], t' as [o2|d'|x'|l'|e']; simpl in Ht; try discriminate; try (inversion Ht; subst); simpl; auto.
  pose proof (p_op_rel OPlus ts ts' F) as HP.
  assert (Hstep : forall (pl pl' : bool) r1 r1', pl = pl' -> Forall2 tok_rel r1 r1' ->
     ores_rel (match p_op OWith r1 with None => Ok (Some (NLic l pl None, r1))
               | Some r2 => match r2 with TExc e :: r3 => Ok (Some (NLic l pl (Some e), r3)) | _ => Err ESyntax end end)
              (match p_op OWith r1' with None => Ok (Some (NLic l' pl' None, r1'))
               | Some r2 => match r2 with TExc e :: r3 => Ok (Some (NLic l' pl' (Some e), r3)) | _ => Err ESyntax end end)).
  { intros pl pl' r1 r1' -> F1. pose proof (p_op_rel OWith r1 r1' F1) as HW.
    destruct (p_op OWith r1) as [r2|], (p_op OWith r1') as [r2'|]; try contradiction.
    - destruct HW as [|u u' r3 r3' Hu Hr]; [exact I|].
      destruct u as [o1| | | |e1], u' as [o2| | | |e2]; simpl in Hu; try discriminate; try (inversion Hu; subst); simpl; auto.
    - simpl. auto. }
  destruct (p_op OPlus ts) as [r1|], (p_op OPlus ts') as [r1'|]; try contradiction.
  - apply Hstep; auto.
  - apply Hstep; auto.
Qed.

Lemma p_all_rel f :
  (forall ts ts', Forall2 tok_rel ts ts' -> res_rel (p_expr f ts) (p_expr f ts')) /\
  (forall ts ts', Forall2 tok_rel ts ts' -> res_rel (p_and f ts) (p_and f ts')) /\
  (forall ts ts', Forall2 tok_rel ts ts' -> res_rel (p_atom f ts) (p_atom f ts')).
Proof.
  induction f as [|f [IHe [IHa IHt]]]; [repeat split; intros; exact I|].
  repeat split; intros ts ts' F.
  - rewrite !p_expr_S. unfold e_body. specialize (IHa ts ts' F).
    destruct (p_and f ts) as [[l r]|e1| |], (p_and f ts') as [[l' r']|e2| |]; try contradiction; try exact I.
    destruct IHa as [Hl Hr]. pose proof (p_op_rel OOr r r' Hr) as HO.
    destruct (p_op OOr r) as [r1|], (p_op OOr r') as [r1'|]; try contradiction; [|split; assumption].
    destruct HO as [|u u' r2 r2' Hu Hr2]; [exact I|].
    specialize (IHe (u :: r2) (u' :: r2') (Forall2_cons _ _ Hu Hr2)).
    destruct (p_expr f (u :: r2)) as [[g s]|e1| |], (p_expr f (u' :: r2')) as [[g' s']|e2| |]; try contradiction; try exact I.
    destruct IHe as [Hg Hs]. split; [split; assumption|assumption].
  - rewrite !p_and_S. unfold a_body. specialize (IHt ts ts' F).
    destruct (p_atom f ts) as [[l r]|e1| |], (p_atom f ts') as [[l' r']|e2| |]; try contradiction; try exact I.
    destruct IHt as [Hl Hr]. pose proof (p_op_rel OAnd r r' Hr) as HO.
    destruct (p_op OAnd r) as [r1|], (p_op OAnd r') as [r1'|]; try contradiction; [|split; assumption].
    destruct HO as [|u u' r2 r2' Hu Hr2]; [exact I|].
    specialize (IHa (u :: r2) (u' :: r2') (Forall2_cons _ _ Hu Hr2)).
    destruct (p_and f (u :: r2)) as [[g s]|e1| |], (p_and f (u' :: r2')) as [[g' s']|e2| |]; try contradiction; try exact I.
    destruct IHa as [Hg Hs]. split; [split; assumption|assumption].
  - rewrite !p_atom_S. unfold t_body. pose proof (p_op_rel OLp ts ts' F) as HL.
    destruct (p_op OLp ts) as [r|], (p_op OLp ts') as [r'|]; try contradiction.
    + specialize (IHe r r' HL).
      destruct (p_expr f r) as [[g s]|e1| |], (p_expr f r') as [[g' s']|e2| |]; try contradiction; try exact I.
      destruct IHe as [Hg Hs]. pose proof (p_op_rel ORp s s' Hs) as HR.
      destruct (p_op ORp s), (p_op ORp s'); try contradiction; [split; assumption|exact I].
    + pose proof (p_ref_rel ts ts' F) as HRf.
      destruct (p_ref ts) as [[[n r]|]|e1| |], (p_ref ts') as [[[n' r']|]|e2| |]; try contradiction; try exact I; try exact HRf.
      pose proof (p_lic_rel ts ts' F) as HLc.
      destruct (p_lic ts) as [[[n r]|]|e1| |], (p_lic ts') as [[[n' r']|]|e2| |]; try contradiction; try exact I; exact HLc.
Qed.

Theorem p_tokens_rel ts ts' : Forall2 tok_rel ts ts' ->
  match p_tokens ts, p_tokens ts' with
  | Ok t, Ok t' => tree_rel t t'
  | Err _, Err _ => True
  | Panic, Panic => True
  | Fuel, Fuel => True
  | _, _ => False
  end.
Proof.
  intros F. unfold p_tokens.
  destruct F as [|t t' ts ts' Ht F]; [exact I|].
  assert (HL : length ts = length ts') by (clear -F; induction F; simpl; congruence).
  destruct (p_all_rel (3 * length (t :: ts) + 3)) as [He _]. specialize (He (t :: ts) (t' :: ts') (Forall2_cons _ _ Ht F)).
  replace (length (t' :: ts')) with (length (t :: ts)) by (simpl; congruence).
  destruct (p_expr (3 * length (t :: ts) + 3) (t :: ts)) as [[n r]|e1| |], (p_expr (3 * length (t :: ts) + 3) (t' :: ts')) as [[n' r']|e2| |];
    try contradiction; try exact I.
  destruct He as [Hn Hr]. destruct Hr; [assumption|exact I].
Qed.
End Rel.
