(* The OR-of-ANDs expansion denotes the Boolean function of the tree (this is what the repairs of expandOrTerm and
   appendTerms restored), and its flattening has exactly the leaves. *)
From Coq Require Import Lia.
From Spdx Require Import Model.Expand Spec.Eval Proofs.Laws.
Local Open Scope list_scope.

Theorem expand_is_eval v t : existsb (forallb v) (expand t) = eval v t.
Proof.
  induction t as [l p e|d r|a IHa b IHb|a IHa b IHb]; simpl; try (rewrite andb_true_r, orb_false_r; reflexivity).
  - rewrite <- IHa, <- IHb. clear IHa IHb. induction (expand b) as [|y ys IH]; simpl; [rewrite andb_false_r; reflexivity|].
    rewrite existsb_app, IH. clear IH.
    assert (H : existsb (forallb v) (map (fun l => l ++ y) (expand a)) = existsb (forallb v) (expand a) && forallb v y).
    { induction (expand a) as [|x xs IHx]; simpl; [reflexivity|]. rewrite IHx, forallb_app.
      destruct (forallb v x), (forallb v y), (existsb (forallb v) xs); reflexivity. }
    rewrite H. destruct (existsb (forallb v) (expand a)), (forallb v y), (existsb (forallb v) ys); reflexivity.
  - rewrite existsb_app, IHa, IHb. reflexivity.
Qed.

Lemma expand_nonempty t : expand t <> [].
Proof.
  induction t as [l p e|d r|a IHa b IHb|a IHa b IHb]; simpl; try discriminate.
  - destruct (expand b) as [|r0 rs]; [contradiction|]. destruct (expand a) as [|l0 ls]; [contradiction|]. simpl. discriminate.
  - destruct (expand a); [contradiction|discriminate].
Qed.

Theorem expand_leaves t x : In x (concat (expand t)) <-> In x (tree_leaves t).
Proof.
  revert x. induction t as [l p e|d r|a IHa b IHb|a IHa b IHb]; intros x; simpl; try tauto.
  - rewrite in_app_iff, <- IHa, <- IHb. rewrite !in_concat. split.
    + intros [alt [Halt Hx]]. apply in_flat_map in Halt. destruct Halt as [r [Hr Hm]]. apply in_map_iff in Hm. destruct Hm as [l0 [<- Hl]].
      apply in_app_or in Hx. destruct Hx; [left; exists l0; auto|right; exists r; auto].
    + pose proof (expand_nonempty a) as Na. pose proof (expand_nonempty b) as Nb.
      intros [[l0 [Hl Hx]]|[r [Hr Hx]]].
      * destruct (expand b) as [|r0 rs] eqn:Eb; [contradiction|]. exists (l0 ++ r0). split; [|apply in_or_app; left; assumption].
        apply in_flat_map. exists r0. split; [left; reflexivity|]. apply in_map_iff. exists l0. split; [reflexivity|assumption].
      * destruct (expand a) as [|l0 ls] eqn:Ea; [contradiction|]. exists (l0 ++ r). split; [|apply in_or_app; right; assumption].
        apply in_flat_map. exists r. split; [assumption|]. apply in_map_iff. exists l0. split; [reflexivity|left; reflexivity].
  - rewrite concat_app, !in_app_iff, IHa, IHb. reflexivity.
Qed.
