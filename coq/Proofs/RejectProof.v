(* shape_ok (Spec/Reject.v) is exactly derivability: every derivable sequence passes the shape test (so everything in a
   named rejection class is rejected), and every sequence that passes it is derivable (so the classes are exhaustive). *)
From Coq Require Import Lia.
From Spdx Require Import Spec.Reject Proofs.BytesFacts Proofs.ParseGrammar.
Local Open Scope list_scope.

Lemma hdt_app a b : a <> [] -> hdt (a ++ b) = hdt a.
Proof. destruct a; [contradiction|reflexivity]. Qed.
Lemma lastt_cons x b : b <> [] -> lastt (x :: b) = lastt b.
Proof. destruct b; [contradiction|reflexivity]. Qed.
Lemma lastt_app a b : b <> [] -> lastt (a ++ b) = lastt b.
Proof.
  intros Hb. induction a as [|x a IH]; [reflexivity|].
  change ((x :: a) ++ b) with (x :: (a ++ b)). rewrite lastt_cons; [exact IH|].
  destruct a; [exact Hb|discriminate].
Qed.
Lemma lastt_snoc a x : lastt (a ++ [x]) = x.
Proof. rewrite lastt_app; [reflexivity|discriminate]. Qed.

Lemma pairs_app a b : a <> [] -> b <> [] ->
  pairs_ok (a ++ b) = (pairs_ok a && adj_ok (lastt a) (hdt b) && pairs_ok b)%bool.
Proof.
  intros Ha Hb. induction a as [|x a IH]; [contradiction|].
  destruct a as [|x' a'].
  - destruct b as [|y b']; [contradiction|].
    change (pairs_ok ([x] ++ y :: b')) with (if adj_ok x y then pairs_ok (y :: b') else false).
    change (lastt [x]) with x. change (hdt (y :: b')) with y. change (pairs_ok [x]) with true.
    destruct (adj_ok x y); reflexivity.
  - change ((x :: x' :: a') ++ b) with (x :: x' :: (a' ++ b)).
    change (pairs_ok (x :: x' :: a' ++ b)) with (if adj_ok x x' then pairs_ok ((x' :: a') ++ b) else false).
    change (pairs_ok (x :: x' :: a')) with (if adj_ok x x' then pairs_ok (x' :: a') else false).
    rewrite lastt_cons by discriminate.
    destruct (adj_ok x x'); [apply IH; discriminate|reflexivity].
Qed.

Lemma bal_app d a b : bal d (a ++ b) = match bal d a with Some d' => bal d' b | None => None end.
Proof.
  revert d. induction a as [|x a IH]; intros d; [reflexivity|].
  destruct x as [[]| | | |]; simpl; try apply IH. destruct d; [reflexivity|apply IH].
Qed.
Lemma bal_shift ts : forall d k, bal d ts = Some k -> forall m, bal (m + d) ts = Some (m + k).
Proof.
  induction ts as [|x r IH]; intros d k H m.
  - simpl in *. inversion H. reflexivity.
  - destruct x as [[]| | | |]; simpl in *; try (apply IH; assumption).
    + rewrite plus_n_Sm. apply (IH (S d)). assumption.
    + destruct d as [|d']; [discriminate|]. rewrite <- plus_n_Sm. cbn [bal]. apply IH. assumption.
Qed.
Lemma bal_any ts : bal 0 ts = Some 0 -> forall d, bal d ts = Some d.
Proof. intros H d. pose proof (bal_shift ts 0 0 H d) as E. rewrite !Nat.add_0_r in E. exact E. Qed.

Lemma starts_adj t o : o = OLp \/ o = OAnd \/ o = OOr -> adj_ok (TOp o) t = starts_term t.
Proof. intros [ -> | [ -> | -> ] ]; reflexivity. Qed.
Lemma ends_adj t b : ends_term t = true -> closes b = true -> adj_ok t b = true.
Proof.
  destruct t as [[]| | | |]; simpl; intros H C; try discriminate; try assumption;
    destruct b as [[]| | | |]; simpl in *; try discriminate; reflexivity.
Qed.

(* ---------- every derivable sequence passes ---------- *)
Definition Inv (ts : list tok) : Prop :=
  ts <> [] /\ starts_term (hdt ts) = true /\ ends_term (lastt ts) = true /\ pairs_ok ts = true /\ forall d, bal d ts = Some d.

Lemma I_join a o b : Inv a -> o = OAnd \/ o = OOr -> Inv b -> Inv (a ++ TOp o :: b).
Proof.
  intros [Na [Sa [Ea [Pa Ba]]]] Ho [Nb [Sb [Eb [Pb Bb]]]]. repeat split.
  - destruct a; [contradiction|discriminate].
  - rewrite hdt_app by assumption. assumption.
  - rewrite lastt_app by discriminate. rewrite lastt_cons by assumption. assumption.
  - rewrite pairs_app by (assumption || discriminate). rewrite Pa. cbn [hdt hd].
    rewrite (ends_adj (lastt a) (TOp o) Ea) by (destruct Ho as [ -> | -> ]; reflexivity).
    change (TOp o :: b) with ([TOp o] ++ b). rewrite pairs_app by (assumption || discriminate).
    cbn [lastt last]. rewrite starts_adj by tauto. rewrite Sb, Pb. reflexivity.
  - intros d. rewrite bal_app, Ba. destruct Ho as [ -> | -> ]; simpl; apply Bb.
Qed.

Lemma I_paren ts : Inv ts -> Inv (TOp OLp :: ts ++ [TOp ORp]).
Proof.
  intros [N [S0 [E [P B]]]]. repeat split.
  - discriminate.
  - change (TOp OLp :: ts ++ [TOp ORp]) with ((TOp OLp :: ts) ++ [TOp ORp]). rewrite lastt_snoc. reflexivity.
  - change (TOp OLp :: ts ++ [TOp ORp]) with ([TOp OLp] ++ (ts ++ [TOp ORp])).
    rewrite pairs_app; [|discriminate|destruct ts; discriminate].
    rewrite hdt_app by assumption. cbn [lastt last]. rewrite starts_adj by tauto. rewrite S0.
    rewrite pairs_app by (assumption || discriminate). rewrite P. cbn [hdt hd].
    rewrite (ends_adj (lastt ts) (TOp ORp) E) by reflexivity. reflexivity.
  - intros d. cbn [bal]. rewrite bal_app, B. reflexivity.
Qed.

Lemma shape_all :
  (forall ts n, d_atom ts n -> Inv ts) /\ (forall ts n, d_and ts n -> Inv ts) /\ (forall ts n, d_expr ts n -> Inv ts).
Proof.
  apply d_mutind; intros.
  - apply I_paren. assumption.
  - repeat split; try reflexivity; discriminate.
  - repeat split; try reflexivity; discriminate.
  - destruct p, e; repeat split; try reflexivity; discriminate.
  - assumption.
  - apply I_join; [assumption|tauto|assumption].
  - assumption.
  - apply I_join; [assumption|tauto|assumption].
Qed.

Theorem derivable_shape ts n : d_expr ts n -> shape_ok ts = true.
Proof.
  intros H. destruct shape_all as [_ [_ S3]]. destruct (S3 ts n H) as [N [S0 [E [P B]]]].
  unfold shape_ok. destruct ts; [contradiction|]. rewrite S0, E, P. unfold balanced. rewrite B. reflexivity.
Qed.

(* ---------- every sequence that passes is derivable ---------- *)
Definition seg (ts : list tok) : Prop :=
  ts <> [] /\ starts_term (hdt ts) = true /\ ends_term (lastt ts) = true /\ pairs_ok ts = true /\ bal 0 ts = Some 0.

Lemma pairs_cons a b r : pairs_ok (a :: b :: r) = true -> adj_ok a b = true /\ pairs_ok (b :: r) = true.
Proof.
  change (pairs_ok (a :: b :: r)) with (if adj_ok a b then pairs_ok (b :: r) else false).
  destruct (adj_ok a b); [auto|discriminate].
Qed.

(* the ")" that closes the "(" just read *)
Lemma find_close ts : forall m, bal (S m) ts = Some 0 ->
  exists i o, ts = i ++ TOp ORp :: o /\ bal m i = Some 0 /\ bal 0 o = Some 0.
Proof.
  induction ts as [|x r IH]; intros m H; [discriminate|].
  destruct x as [[]| | | |];
    try (cbn [bal] in H; destruct (IH m H) as [i [o [-> [Hi Ho]]]]; eexists (_ :: i), o; repeat split; assumption).
  - (* ( *) cbn [bal] in H. destruct (IH (S m) H) as [i [o [-> [Hi Ho]]]]. exists (TOp OLp :: i), o. repeat split; assumption.
  - (* ) *) cbn [bal] in H. destruct m as [|m'].
    + exists [], r. repeat split. assumption.
    + destruct (IH m' H) as [i [o [-> [Hi Ho]]]]. exists (TOp ORp :: i), o. repeat split; assumption.
Qed.

Lemma adj_rp_ends t : adj_ok t (TOp ORp) = true -> ends_term t = true.
Proof. destruct t as [[]| | | |]; simpl; intros; try discriminate; reflexivity. Qed.

Section Exhaustive.
Variable n : nat.
Hypothesis IHn : forall ts, length ts < n -> seg ts -> exists t, d_expr ts t.

Lemma cont pre tail a :
  d_atom pre a -> seg (pre ++ tail) -> bal 0 pre = Some 0 -> ends_term (lastt pre) = true ->
  match tail with [] => True | y :: _ => closes y = true end -> length tail <= n ->
  exists t, d_expr (pre ++ tail) t.
Proof.
  intros Ha [N [S0 [E [P B]]]] Bp Ep Ht Hl.
  assert (Np : pre <> []) by (destruct d_nonempty as [D _]; exact (D _ _ Ha)).
  destruct tail as [|y rest].
  - rewrite app_nil_r. exists a. apply d_expr1, d_and1. assumption.
  - rewrite bal_app, Bp in B.
    rewrite pairs_app in P by (assumption || discriminate).
    apply Bool.andb_true_iff in P. destruct P as [P Pr]. 
    assert (Nr : rest <> []).
    { intros ->. rewrite lastt_snoc in E. destruct y as [[]| | | |]; simpl in Ht, E, B; discriminate. }
    rewrite lastt_app in E by discriminate. rewrite lastt_cons in E by assumption.
    change (y :: rest) with ([y] ++ rest) in Pr. rewrite pairs_app in Pr by (assumption || discriminate).
    apply Bool.andb_true_iff in Pr. destruct Pr as [Pr1 Pr]. apply Bool.andb_true_iff in Pr1. destruct Pr1 as [_ Adj].
    cbn [lastt last] in Adj.
    assert (Hy : y = TOp OAnd \/ y = TOp OOr).
    { destruct y as [[]| | | |]; simpl in Ht; try discriminate; auto. }
    assert (Sr : seg rest).
    { repeat split; try assumption.
      - destruct Hy as [ -> | -> ]; exact Adj.
      - destruct Hy as [ -> | -> ]; exact B. }
    destruct (IHn rest) as [t2 H2]; [simpl in Hl; lia|assumption|].
    destruct Hy as [ -> | -> ].
    + (* AND: attach to the first and-group of the rest *)
      inversion H2 as [ts t Hand|ts1 t1 ts2 t2' Hand Hex]; subst.
      * exists (NAnd a t2). apply d_expr1. apply d_andS; assumption.
      * exists (NOr (NAnd a t1) t2').
        replace (pre ++ TOp OAnd :: ts1 ++ TOp OOr :: ts2) with ((pre ++ TOp OAnd :: ts1) ++ TOp OOr :: ts2)
          by (rewrite <- app_assoc; reflexivity).
        apply d_exprS; [apply d_andS; assumption|assumption].
    + exists (NOr a t2). apply d_exprS; [apply d_and1; assumption|assumption].
Qed.
End Exhaustive.

Lemma seg_derivable : forall n ts, length ts < n -> seg ts -> exists t, d_expr ts t.
Proof.
  induction n as [|n IHn]; intros ts Hl Hs; [lia|].
  pose proof Hs as [N [S0 [E [P B]]]].
  destruct ts as [|x r]; [contradiction|]. cbn [hdt hd] in S0. cbn [length] in Hl.
  destruct x as [[]|d|s|l|e]; try discriminate S0.
  - (* "(" : find its ")" *)
    cbn [bal] in B. destruct (find_close r 0 B) as [i [o [-> [Bi Bo]]]].
    assert (Ni : i <> []).
    { intros ->. apply pairs_cons in P. destruct P as [A _]. discriminate A. }
    change (TOp OLp :: i ++ TOp ORp :: o) with ([TOp OLp] ++ (i ++ TOp ORp :: o)) in P.
    rewrite pairs_app in P by (discriminate || (destruct i; discriminate)).
    apply Bool.andb_true_iff in P. destruct P as [P1 P2]. apply Bool.andb_true_iff in P1. destruct P1 as [_ A1].
    rewrite hdt_app in A1 by assumption. cbn [lastt last] in A1. rewrite starts_adj in A1 by tauto.
    rewrite pairs_app in P2 by (assumption || discriminate).
    apply Bool.andb_true_iff in P2. destruct P2 as [P2 P3]. apply Bool.andb_true_iff in P2. destruct P2 as [Pi A2].
    cbn [hdt hd] in A2.
    assert (Si : seg i) by (repeat split; try assumption; apply adj_rp_ends; assumption).
    destruct (IHn i) as [t1 H1]; [rewrite app_length in Hl; cbn [length] in Hl; lia|assumption|].
    assert (Eq : TOp OLp :: i ++ TOp ORp :: o = (TOp OLp :: i ++ [TOp ORp]) ++ o)
      by (simpl; rewrite <- app_assoc; reflexivity).
    rewrite Eq in Hs |- *. apply (cont n IHn _ o t1).
    + apply d_paren. assumption.
    + assumption.
    + cbn [bal]. rewrite bal_app, (bal_any i Bi 1). reflexivity.
    + change (TOp OLp :: i ++ [TOp ORp]) with ((TOp OLp :: i) ++ [TOp ORp]). rewrite lastt_snoc. reflexivity.
    + destruct o as [|y o']; [exact I|]. apply pairs_cons in P3. destruct P3 as [A _]. exact A.
    + rewrite app_length in Hl. cbn [length] in Hl. lia.
  - (* DocumentRef-d : LicenseRef-x *)
    destruct r as [|y r1]; [discriminate E|].
    apply pairs_cons in P. destruct P as [A P1]. destruct y as [[]| | | |]; try discriminate A.
    destruct r1 as [|z r2]; [discriminate E|].
    apply pairs_cons in P1. destruct P1 as [A2 P2]. destruct z as [[]| |s'| |]; try discriminate A2.
    apply (cont n IHn [TDoc d; TOp OColon; TRef s'] r2 (NRef (Some d) s')); try reflexivity.
    + apply d_docref.
    + exact Hs.
    + destruct r2 as [|w r3]; [exact I|]. apply pairs_cons in P2. destruct P2 as [A3 _]. exact A3.
    + cbn [length] in Hl. lia.
  - (* LicenseRef-x *)
    apply (cont n IHn [TRef s] r (NRef None s)); try reflexivity.
    + apply d_ref.
    + exact Hs.
    + destruct r as [|w r3]; [exact I|]. apply pairs_cons in P. destruct P as [A3 _]. exact A3.
    + lia.
  - (* license [+] [WITH exception] : take the longest term *)
    destruct r as [|y r1].
    { apply (cont n IHn [TLic l] [] (NLic l (ends_orlater l) None)); try reflexivity; try exact I; try exact Hs; try (simpl; lia).
      exact (d_lic l false None). }
    apply pairs_cons in P. destruct P as [A P1].
    destruct y as [[]| | | |]; try discriminate A.
    + (* WITH e *)
      destruct r1 as [|e r3]; [discriminate E|].
      apply pairs_cons in P1. destruct P1 as [A3 P3]. destruct e as [[]| | | |x]; try discriminate A3.
      apply (cont n IHn [TLic l; TOp OWith; TExc x] r3 (NLic l (ends_orlater l) (Some x))); try reflexivity; try exact Hs.
      * exact (d_lic l false (Some x)).
      * destruct r3 as [|w r4]; [exact I|]. apply pairs_cons in P3. destruct P3 as [A4 _]. exact A4.
      * cbn [length] in Hl. lia.
    + apply (cont n IHn [TLic l] (TOp OAnd :: r1) (NLic l (ends_orlater l) None)); try reflexivity; try exact Hs; [exact (d_lic l false None)|cbn [length] in *; lia].
    + apply (cont n IHn [TLic l] (TOp OOr :: r1) (NLic l (ends_orlater l) None)); try reflexivity; try exact Hs; [exact (d_lic l false None)|cbn [length] in *; lia].
    + apply (cont n IHn [TLic l] (TOp ORp :: r1) (NLic l (ends_orlater l) None)); try reflexivity; try exact Hs; [exact (d_lic l false None)|cbn [length] in *; lia].
    + (* + *)
      destruct r1 as [|z r2].
      { apply (cont n IHn [TLic l; TOp OPlus] [] (NLic l true None)); try reflexivity; try exact I; try exact Hs; try (simpl; lia).
        exact (d_lic l true None). }
      apply pairs_cons in P1. destruct P1 as [A2 P2].
      destruct z as [[]| | | |]; try discriminate A2.
      * destruct r2 as [|e r3]; [discriminate E|].
        apply pairs_cons in P2. destruct P2 as [A3 P3]. destruct e as [[]| | | |x]; try discriminate A3.
        apply (cont n IHn [TLic l; TOp OPlus; TOp OWith; TExc x] r3 (NLic l true (Some x))); try reflexivity; try exact Hs.
        -- exact (d_lic l true (Some x)).
        -- destruct r3 as [|w r4]; [exact I|]. apply pairs_cons in P3. destruct P3 as [A4 _]. exact A4.
        -- cbn [length] in Hl. lia.
      * apply (cont n IHn [TLic l; TOp OPlus] (TOp OAnd :: r2) (NLic l true None)); try reflexivity; try exact Hs; [exact (d_lic l true None)|cbn [length] in *; lia].
      * apply (cont n IHn [TLic l; TOp OPlus] (TOp OOr :: r2) (NLic l true None)); try reflexivity; try exact Hs; [exact (d_lic l true None)|cbn [length] in *; lia].
      * apply (cont n IHn [TLic l; TOp OPlus] (TOp ORp :: r2) (NLic l true None)); try reflexivity; try exact Hs; [exact (d_lic l true None)|cbn [length] in *; lia].
Qed.

Theorem shape_derivable ts : shape_ok ts = true -> exists t, d_expr ts t.
Proof.
  intros H. apply (seg_derivable (S (length ts))); [lia|].
  unfold shape_ok in H. destruct ts as [|x r]; [discriminate|].
  destruct (starts_term (hdt (x :: r))) eqn:S0; [|discriminate].
  destruct (ends_term (lastt (x :: r))) eqn:E; [|discriminate].
  destruct (pairs_ok (x :: r)) eqn:P; [|discriminate].
  unfold balanced in H. destruct (bal 0 (x :: r)) as [[|k]|] eqn:B; try discriminate.
  repeat split; try assumption; discriminate.
Qed.

(* the accepted token sequences are exactly those that pass the shape test *)
Theorem derivable_iff_shape ts : (exists t, d_expr ts t) <-> shape_ok ts = true.
Proof. split; [intros [t H]; exact (derivable_shape ts t H)|apply shape_derivable]. Qed.

(* ---------- the named classes ---------- *)
Lemma shape_bad_first a ts : starts_term a = false -> shape_ok (a :: ts) = false.
Proof. intros H. unfold shape_ok. cbn [hdt hd]. rewrite H. reflexivity. Qed.
Lemma shape_bad_last ts z : ends_term z = false -> shape_ok (ts ++ [z]) = false.
Proof.
  intros H. unfold shape_ok. destruct (ts ++ [z]) eqn:E0; [reflexivity|]. rewrite <- E0, lastt_snoc, H.
  destruct (starts_term _); reflexivity.
Qed.
Lemma pairs_bad u a b v : adj_ok a b = false -> pairs_ok (u ++ a :: b :: v) = false.
Proof.
  intros H. induction u as [|x u IH].
  - change (pairs_ok ([] ++ a :: b :: v)) with (if adj_ok a b then pairs_ok (b :: v) else false). rewrite H. reflexivity.
  - destruct u as [|y u'].
    + change (pairs_ok ([x] ++ a :: b :: v)) with (if adj_ok x a then pairs_ok ([] ++ a :: b :: v) else false).
      rewrite IH. destruct (adj_ok x a); reflexivity.
    + change (pairs_ok ((x :: y :: u') ++ a :: b :: v)) with (if adj_ok x y then pairs_ok ((y :: u') ++ a :: b :: v) else false).
      rewrite IH. destruct (adj_ok x y); reflexivity.
Qed.
Lemma shape_bad_pair u a b v : adj_ok a b = false -> shape_ok (u ++ a :: b :: v) = false.
Proof.
  intros H. unfold shape_ok. destruct (u ++ a :: b :: v) eqn:E0; [reflexivity|]. rewrite <- E0, (pairs_bad u a b v H).
  destruct (starts_term _); [|reflexivity]. destruct (ends_term _); reflexivity.
Qed.
Lemma shape_unbalanced ts : bal 0 ts <> Some 0 -> shape_ok ts = false.
Proof.
  intros H. unfold shape_ok, balanced. destruct ts; [reflexivity|].
  destruct (starts_term _); [|reflexivity]. destruct (ends_term _); [|reflexivity]. destruct (pairs_ok _); [|reflexivity].
  destruct (bal 0 (t :: ts)) as [[|k]|]; try reflexivity. contradiction H. reflexivity.
Qed.

Lemma class_facts :
  (* doubled operators *)
  (forall o o', In o [OAnd; OOr; OWith; OColon] -> In o' [OAnd; OOr; OWith; OColon; ORp; OPlus] -> adj_ok (TOp o) (TOp o') = false) /\
  (* adjacent terms without an operator *)
  (forall a b, ends_term a = true -> starts_term b = true -> adj_ok a b = false) /\
  (* empty parentheses *)
  adj_ok (TOp OLp) (TOp ORp) = false /\
  (* WITH without an exception, an exception without WITH *)
  (forall b, (forall e, b <> TExc e) -> adj_ok (TOp OWith) b = false) /\
  (forall a e, a <> TOp OWith -> adj_ok a (TExc e) = false) /\
  (* '+' or WITH on a LicenseRef; '+' only directly after a license id *)
  (forall x, adj_ok (TRef x) (TOp OPlus) = false /\ adj_ok (TRef x) (TOp OWith) = false) /\
  (forall a, (forall l, a <> TLic l) -> adj_ok a (TOp OPlus) = false) /\
  (* DocumentRef without ":LicenseRef-..."; ":" only after a DocumentRef *)
  (forall d b, b <> TOp OColon -> adj_ok (TDoc d) b = false) /\
  (forall b, (forall x, b <> TRef x) -> adj_ok (TOp OColon) b = false) /\
  (forall a, (forall d, a <> TDoc d) -> adj_ok a (TOp OColon) = false) /\
  (* dangling operators: what may stand first / last *)
  (forall o, o <> OLp -> starts_term (TOp o) = false) /\ (forall e, starts_term (TExc e) = false) /\
  (forall o, o <> ORp -> o <> OPlus -> ends_term (TOp o) = false) /\ (forall d, ends_term (TDoc d) = false).
Proof.
  repeat split.
  - intros o o' Ho Ho'. simpl in Ho, Ho'.
    repeat (destruct Ho as [<-|Ho]; [repeat (destruct Ho' as [<-|Ho']; [reflexivity|]); contradiction|]). contradiction.
  - intros a b. destruct a as [[]| | | |]; simpl; intros Ha; try discriminate; destruct b as [[]| | | |]; simpl; intros Hb; try discriminate; reflexivity.
  - intros b H. destruct b as [[]| | | |e]; try reflexivity. contradiction (H e). reflexivity.
  - intros a e H. destruct a as [[]| | | |]; try reflexivity. contradiction H. reflexivity.
  - intros a H. destruct a as [[]| | |l|]; try reflexivity. contradiction (H l). reflexivity.
  - intros d b H. destruct b as [[]| | | |]; try reflexivity. contradiction H. reflexivity.
  - intros b H. destruct b as [[]| |x| |]; try reflexivity. contradiction (H x). reflexivity.
  - intros a H. destruct a as [[]|d| | |]; try reflexivity. contradiction (H d). reflexivity.
  - intros o H. destruct o; try reflexivity. contradiction H. reflexivity.
  - intros o H1 H2. destruct o; try reflexivity; [contradiction H1|contradiction H2]; reflexivity.
Qed.
