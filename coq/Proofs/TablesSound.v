(* Soundness of the C12 checkers, for arbitrary arguments (no computation on the shipped data here). *)
From Spdx Require Import Spec.TablesSpec.
Local Open Scope list_scope.

Lemma list_string_eqb_eq a : forall b, list_string_eqb a b = true -> a = b.
Proof.
  induction a as [|x a IH]; intros [|y b] E; simpl in E; try discriminate; [reflexivity|].
  destruct (String.eqb x y) eqn:Exy; [|discriminate]. apply String.eqb_eq in Exy. subst. f_equal. apply IH. assumption.
Qed.
Lemma chk_json_partition_sound lic dep exc jl je : chk_json_partition lic dep exc jl je = true ->
  lic = gen_active jl /\ dep = gen_deprecated jl /\ exc = gen_exceptions je.
Proof.
  unfold chk_json_partition. destruct (list_string_eqb lic (gen_active jl)) eqn:E1; [|discriminate].
  destruct (list_string_eqb dep (gen_deprecated jl)) eqn:E2; [|discriminate]. intros E3.
  repeat split; apply list_string_eqb_eq; assumption.
Qed.
Lemma chk_files_regenerate_sound tl td te f1 f2 f3 jl je : chk_files_regenerate tl td te f1 f2 f3 jl je = true ->
  gen_licenses_file tl jl = f1 /\ gen_deprecated_file td jl = f2 /\ gen_exceptions_file te je = f3.
Proof.
  unfold chk_files_regenerate. destruct (String.eqb (gen_licenses_file tl jl) f1) eqn:E1; [|discriminate].
  destruct (String.eqb (gen_deprecated_file td jl) f2) eqn:E2; [|discriminate]. intros E3.
  repeat split; apply String.eqb_eq; assumption.
Qed.
Lemma chk_ids_parse_sound T : chk_ids_parse T = true ->
  (forall id, In id (active T ++ deprec T) -> exists l p e, parse T id = Ok (NLic l p e)) /\
  (forall x, In x (excs T) -> (exists n, parse T (s2l "MIT WITH " ++ x) = Ok n) /\ forall n, parse T x <> Ok n).
Proof.
  unfold chk_ids_parse.
  destruct (forallb (fun id => is_lic_node (parse T id)) (active T ++ deprec T)) eqn:E1; [|discriminate].
  intros H. rewrite forallb_forall in E1, H. split.
  - intros id Hin. specialize (E1 id Hin). destruct (parse T id) as [[l p e| | |]| | |]; try discriminate. eauto.
  - intros x Hin. specialize (H x Hin). destruct (parse T (s2l "MIT WITH " ++ x)) as [n| | |]; try discriminate.
    split; [eauto|]. intros n' Hn. rewrite Hn in H. discriminate.
Qed.
