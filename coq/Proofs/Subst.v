(* Operands can be substituted: parsing is compositional in every operand position, and parentheses around an operand
   are redundant wherever it stands.

   A context is any valid token sequence C in which a reference LicenseRef-z marks the operand positions of interest
   (it must occur as a whole term, i.e. not as the LicenseRef part of a DocumentRef-d:LicenseRef-z: nodoc).  Replacing
   every marker by a token sequence u that derives an atom a (a license term, a reference, a parenthesised
   expression) gives a valid sequence whose tree is the tree of C with a in place of the marker - and so does
   replacing it by ( u ).  No decomposition of the text is needed: substitution is a flat_map over the tokens. *)
From Coq Require Import Lia.
From Spdx Require Import Model.Parse Spec.Grammar Spec.Eval Proofs.BytesFacts Proofs.ParseGrammar.
Local Open Scope list_scope.

Definition is_marker (z : str) (tk : tok) : bool := match tk with TRef x => str_eqb x z | _ => false end.
Definition tsubst (z : str) (u : list tok) (ts : list tok) : list tok :=
  flat_map (fun tk => if is_marker z tk then u else [tk]) ts.
Fixpoint nsubst (z : str) (a : node) (t : node) : node :=
  match t with
  | NRef None x => if str_eqb x z then a else t
  | NAnd l r => NAnd (nsubst z a l) (nsubst z a r)
  | NOr l r => NOr (nsubst z a l) (nsubst z a r)
  | _ => t
  end.
(* the marker never occurs behind a DocumentRef *)
Fixpoint nodoc (z : str) (t : node) : bool :=
  match t with
  | NRef (Some _) x => negb (str_eqb x z)
  | NAnd l r | NOr l r => if nodoc z l then nodoc z r else false
  | _ => true
  end.

Lemma tsubst_app z u a b : tsubst z u (a ++ b) = tsubst z u a ++ tsubst z u b.
Proof. apply flat_map_app. Qed.
Lemma tsubst_cons_other z u tk r : is_marker z tk = false -> tsubst z u (tk :: r) = tk :: tsubst z u r.
Proof. intros H. unfold tsubst. cbn [flat_map]. rewrite H. reflexivity. Qed.

Section SubstT.
Variables (z : str) (u : list tok) (a : node).
Hypothesis Hu : d_atom u a.

Lemma subst_all :
  (forall ts t, d_atom ts t -> nodoc z t = true -> d_atom (tsubst z u ts) (nsubst z a t)) /\
  (forall ts t, d_and ts t -> nodoc z t = true -> d_and (tsubst z u ts) (nsubst z a t)) /\
  (forall ts t, d_expr ts t -> nodoc z t = true -> d_expr (tsubst z u ts) (nsubst z a t)).
Proof.
  apply d_mutind.
  - (* paren *) intros ts t D IH Hn.
    rewrite tsubst_cons_other by reflexivity. rewrite tsubst_app.
    rewrite (tsubst_cons_other z u (TOp ORp) []) by reflexivity. apply d_paren. apply IH. exact Hn.
  - (* ref *) intros x _. unfold tsubst. cbn [flat_map is_marker nsubst].
    destruct (str_eqb x z); [rewrite app_nil_r; exact Hu|apply d_ref].
  - (* docref *) intros d x Hn. cbn [nodoc] in Hn.
    unfold tsubst. cbn [flat_map is_marker nsubst app].
    destruct (str_eqb x z); [discriminate|]. apply d_docref.
  - (* lic *) intros l p e _.
    assert (E : tsubst z u (TLic l :: plus_toks p ++ with_toks e) = TLic l :: plus_toks p ++ with_toks e).
    { destruct p, e as [e|]; reflexivity. }
    rewrite E. cbn [nsubst]. apply d_lic.
  - intros ts t D IH Hn. apply d_and1. apply IH. exact Hn.
  - intros ts1 t1 ts2 t2 D1 IH1 D2 IH2 Hn. cbn [nodoc] in Hn.
    destruct (nodoc z t1) eqn:H1; [|discriminate].
    rewrite tsubst_app, tsubst_cons_other by reflexivity. cbn [nsubst]. apply d_andS; [apply IH1; reflexivity|apply IH2; exact Hn].
  - intros ts t D IH Hn. apply d_expr1. apply IH. exact Hn.
  - intros ts1 t1 ts2 t2 D1 IH1 D2 IH2 Hn. cbn [nodoc] in Hn.
    destruct (nodoc z t1) eqn:H1; [|discriminate].
    rewrite tsubst_app, tsubst_cons_other by reflexivity. cbn [nsubst]. apply d_exprS; [apply IH1; reflexivity|apply IH2; exact Hn].
Qed.
End SubstT.

(* the parser on a context with its operands filled in *)
Theorem parse_subst C t z u a : p_tokens C = Ok t -> nodoc z t = true -> d_atom u a ->
  p_tokens (tsubst z u C) = Ok (nsubst z a t).
Proof.
  intros HC Hn Hu. apply parse_sound_complete. apply parse_sound_complete in HC.
  exact (proj2 (proj2 (subst_all z u a Hu)) C t HC Hn).
Qed.

(* parentheses around an operand are redundant, wherever the operand stands *)
Theorem parens_redundant_anywhere C t z u a : p_tokens C = Ok t -> nodoc z t = true -> d_atom u a ->
  p_tokens (tsubst z (TOp OLp :: u ++ [TOp ORp]) C) = p_tokens (tsubst z u C).
Proof.
  intros HC Hn Hu. rewrite (parse_subst C t z u a HC Hn Hu).
  apply (parse_subst C t z _ a HC Hn). apply d_paren. apply d_expr1. apply d_and1. exact Hu.
Qed.

(* parentheses group: a whole expression in parentheses is an operand, whatever surrounds it *)
Theorem parens_group C t z e te : p_tokens C = Ok t -> nodoc z t = true -> p_tokens e = Ok te ->
  p_tokens (tsubst z (TOp OLp :: e ++ [TOp ORp]) C) = Ok (nsubst z te t).
Proof.
  intros HC Hn He. apply (parse_subst C t z _ te HC Hn). apply d_paren. apply parse_sound_complete. exact He.
Qed.

(* ... and the Boolean function of the result is that of the context with the operand's value at the marker *)
Definition is_mark_leaf (z : str) (t : node) : bool := match t with NRef None x => str_eqb x z | _ => false end.
Lemma eval_nsubst v z a t :
  eval v (nsubst z a t) = eval (fun leaf => if is_mark_leaf z leaf then eval v a else v leaf) t.
Proof.
  induction t as [l p e|d x|l IHl r IHr|l IHl r IHr]; cbn [nsubst eval].
  - reflexivity.
  - destruct d as [d|]; cbn [is_mark_leaf]; [reflexivity|]. destruct (str_eqb x z); reflexivity.
  - rewrite IHl, IHr. reflexivity.
  - rewrite IHl, IHr. reflexivity.
Qed.
