(* The scanner of scan.go (zipper with the -or-later rewrite and the offset shift) computes exactly the
   reference tokeniser of Spec/Lex.v, for every byte string and every table with a non-empty-id
   guarantee; it never panics and never exhausts its fuel. *)
From Coq Require Import Lia.
From Spdx Require Import Model.Scan Spec.Lex Proofs.BytesFacts.
Local Open Scope list_scope.

(* ================= simulation proof ================= *)


Definition nsp (b : str) : Prop := match b with [] => True | c :: _ => is_space c = false end.
Definition look (b : str) : bool := match b with c :: _ => is_space c | [] => false end.
Definition sync (z : zs) (r : str) (pos : nat) : Prop := zr z = r /\ zoff z = pos.


(* first_op with the matched text *)
Fixpoint first_op' (l : list (str * op)) (r : str) : option (str * op * str) :=
  match l with
  | [] => None
  | (p, o) :: l' => match strip_prefix p r with Some r' => Some (p, o, r') | None => first_op' l' r end
  end.
Lemma first_op_first_op' l r :
  first_op l r = match first_op' l r with Some (p, o, r') => Some (o, r', length p) | None => None end.
Proof. induction l as [|[p o] l IH]; simpl; [reflexivity|]. destruct (strip_prefix p r); [reflexivity|exact IH]. Qed.
Lemma zread_first_first_op' l z :
  zread_first l z = match first_op' l (zr z) with
                    | Some (p, o, r') => Some (o, {| zb := rev p ++ zb z; zr := r'; zshift := zshift z |})
                    | None => None end.
Proof.
  induction l as [|[p o] l IH]; simpl; [reflexivity|]. unfold zread.
  destruct (strip_prefix p (zr z)); [rewrite rapp_rev; reflexivity|exact IH].
Qed.
Lemma first_op'_in l r p o r' : first_op' l r = Some (p, o, r') -> In (p, o) l.
Proof.
  induction l as [|[p0 o0] l IH]; simpl; [discriminate|].
  destruct (strip_prefix p0 r); [intros H; inversion H; subst; left; reflexivity|intros H; right; auto].
Qed.
(* every operator text is non-empty, ends in a non-space byte, and only "+" maps to OPlus *)
Lemma ops_facts p o : In (p, o) ops ->
  exists c q, rev p = c :: q /\ is_space c = false /\ (o = OPlus -> p = ["+"%char]).
Proof.
  unfold ops. simpl. intros H.
  repeat (destruct H as [H|H]; [inversion H; subst; eexists; eexists; repeat split; try reflexivity; discriminate|]).
  contradiction.
Qed.

Section Sim.
Variable T : tables.
Hypothesis HT : license_lookup T [] = None.

Lemma rev_last_idchar (w : str) x q :
  Forall (fun c => is_idchar c = true) w -> rev w = x :: q -> is_space x = false.
Proof.
  intros F Er. apply idchar_not_space.
  assert (Hin : In x (rev w)) by (rewrite Er; left; reflexivity).
  apply in_rev in Hin. rewrite Forall_forall in F. apply F; assumption.
Qed.
Lemma nsp_rev_idchars (w b : str) :
  w <> [] -> Forall (fun c => is_idchar c = true) w -> nsp (rev w ++ b).
Proof.
  intros Hne F. destruct (rev w) as [|x q] eqn:Er.
  - exfalso. apply Hne. apply (f_equal (@rev _)) in Er. rewrite rev_involutive in Er. exact Er.
  - simpl. eapply rev_last_idchar; eassumption.
Qed.

Lemma classify_eat w np t : classify T w np = NEatPlus t -> np = true.
Proof.
  unfold classify. destruct np; [reflexivity|].
  destruct (license_lookup T w); [discriminate|].
  destruct (match strip_suffix k_only w with Some adj => license_lookup T adj | None => None end); [discriminate|].
  destruct (match strip_suffix k_orlater w with Some adj => license_lookup T adj | None => None end); [discriminate|].
  destruct (deprecated_lookup T w); discriminate.
Qed.
Lemma classify_then w np t : classify T w np = NThenPlus t -> exists adj, w = adj ++ k_orlater /\ adj <> [].
Proof.
  unfold classify.
  destruct (license_lookup T w); [discriminate|].
  destruct (match strip_suffix k_only w with Some adj => license_lookup T adj | None => None end); [discriminate|].
  destruct (if np then license_lookup T (w ++ k_orlater) else None); [discriminate|].
  destruct (strip_suffix k_orlater w) as [adj|] eqn:ESf.
  - intros EC. exists adj. split; [apply strip_suffix_spec; assumption|].
    intros ->. rewrite HT in EC. destruct (deprecated_lookup T w); discriminate.
  - destruct (deprecated_lookup T w); discriminate.
Qed.

(* the id word case, isolated *)
Lemma word_sim b1 sh w rb :
  w <> [] -> Forall (fun c => is_idchar c = true) w ->
  let z1' := {| zb := rev w ++ b1; zr := rb; zshift := sh |} in
  let pos1 := length b1 + sh in
  match classify T w (next_is_plus rb) with
  | NTok t => znormalize T w z1' = Ok (Some (t, z1'))
  | NEatPlus t => exists rb', rb = "+"%char :: rb' /\
        znormalize T w z1' = Ok (Some (t, {| zb := "+"%char :: rev w ++ b1; zr := rb'; zshift := sh |}))
  | NThenPlus t => exists adj c q, w = adj ++ k_orlater /\ rev adj = c :: q /\ is_space c = false /\
        znormalize T w z1' = Ok (Some (t, {| zb := c :: q ++ b1; zr := "+"%char :: rb; zshift := sh + 8 |}))
  | NUnknown => znormalize T w z1' = Ok None
  end.
Proof.
  intros Hne Fw z1' pos1. unfold znormalize. subst z1'. cbn [zr zb zshift].
  destruct (classify T w (next_is_plus rb)) as [t|t|t|] eqn:EC; try reflexivity.
  - apply classify_eat in EC. destruct rb as [|c rb']; [discriminate|].
    simpl in EC. apply Ascii.eqb_eq in EC; subst c. exists rb'. split; reflexivity.
  - apply classify_then in EC. destruct EC as [adj [Hw Hadj]].
    assert (Hrevw : rev w = rev k_orlater ++ rev adj) by (rewrite Hw, rev_app_distr; reflexivity).
    destruct (rev adj) as [|c q] eqn:Era.
    { exfalso. apply Hadj. apply (f_equal (@rev _)) in Era. rewrite rev_involutive in Era. exact Era. }
    exists adj, c, q. repeat split; try assumption.
    + assert (Fadj : Forall (fun c => is_idchar c = true) adj).
      { rewrite Hw in Fw. apply Forall_app in Fw. apply Fw. }
      eapply rev_last_idchar; eassumption.
    + rewrite Hrevw.
      assert (Hlen : Nat.ltb (length ((rev k_orlater ++ c :: q) ++ b1)) 9 = false).
      { apply Nat.ltb_ge. rewrite !app_length. simpl. lia. }
      rewrite Hlen. rewrite <- app_assoc. reflexivity.
Qed.

Definition item_rel (b1 : str) (sh : nat) (r1 : str) (spaced : bool) : Prop :=
  let z1 := {| zb := b1; zr := r1; zshift := sh |} in
  let pos1 := length b1 + sh in
  match ref_item T spaced r1 pos1 with
  | Err e => ztoken T z1 = Err e
  | Ok ([t], r2, pos2) => exists z2, ztoken T z1 = Ok (t, z2) /\ sync z2 r2 pos2 /\ nsp (zb z2)
  | Ok ([t; TOp OPlus], r2, pos2) =>
      exists c b, ztoken T z1 = Ok (t, {| zb := c :: b; zr := "+"%char :: r2; zshift := pos2 - S (S (length b)) |})
                  /\ is_space c = false /\ S (S (length b)) <= pos2
  | Ok _ => False
  | Panic => False | Fuel => False
  end.

Lemma item_sim b1 sh r1 : r1 <> [] -> item_rel b1 sh r1 (look b1).
Proof.
  intros Hne. unfold item_rel, ref_item, ztoken, zoperator.
  rewrite first_op_first_op', zread_first_first_op'. cbn [zr zb zshift].
  destruct (first_op' ops r1) as [[[p o] r']|] eqn:EO.
  - (* operator *)
    pose proof (first_op'_in _ _ _ _ _ EO) as Hin. destruct (ops_facts _ _ Hin) as [c [q [Hrev [Hc Hplus]]]].
    assert (Hsync : sync {| zb := rev p ++ b1; zr := r'; zshift := sh |} r' (length b1 + sh + length p)
                    /\ nsp (zb {| zb := rev p ++ b1; zr := r'; zshift := sh |})).
    { unfold sync, zoff. cbn [zr zb zshift]. rewrite app_length, rev_length.
      repeat split; [lia|]. rewrite Hrev. simpl. exact Hc. }
    destruct o; try (eexists; split; [reflexivity|exact Hsync]).
    (* OPlus *)
    rewrite (Hplus eq_refl) in *. simpl rev in *. simpl app in *.
    destruct b1 as [|c0 b0]; simpl look.
    + eexists; split; [reflexivity|exact Hsync].
    + cbn [zb]. destruct (is_space c0) eqn:Es.
      * reflexivity.
      * eexists; split; [reflexivity|exact Hsync].
  - unfold zread. cbn [zr zb zshift]. rewrite ?rapp_rev.
    destruct (strip_prefix k_docref r1) as [ra|] eqn:ED.
    + unfold zid, zclass. cbn [zr zb zshift].
      destruct (span is_idchar ra) as [id rb] eqn:ES. rewrite ?rapp_rev. destruct (span_spec _ _ _ _ ES) as [_ [Fid _]].
      destruct id as [|i0 id].
      * unfold zoff. cbn [zb zshift]. rewrite app_length, rev_length.
        replace (length k_docref + length b1 + sh) with (length b1 + sh + length k_docref) by lia. reflexivity.
      * eexists; split; [reflexivity|]. unfold sync, zoff. cbn [zr zb zshift]. repeat split.
        -- rewrite !app_length, !rev_length. simpl. lia.
        -- apply nsp_rev_idchars; [discriminate|assumption].
    + destruct (strip_prefix k_licref r1) as [ra|] eqn:EL.
      * unfold zid, zclass. cbn [zr zb zshift].
        destruct (span is_idchar ra) as [id rb] eqn:ES. rewrite ?rapp_rev. destruct (span_spec _ _ _ _ ES) as [_ [Fid _]].
        destruct id as [|i0 id].
        -- unfold zoff. cbn [zb zshift]. rewrite app_length, rev_length.
           replace (length k_licref + length b1 + sh) with (length b1 + sh + length k_licref) by lia. reflexivity.
        -- eexists; split; [reflexivity|]. unfold sync, zoff. cbn [zr zb zshift]. repeat split.
           ++ rewrite !app_length, !rev_length. simpl. lia.
           ++ apply nsp_rev_idchars; [discriminate|assumption].
      * unfold zid, zclass. cbn [zr zb zshift].
        destruct (span is_idchar r1) as [w rb] eqn:ES. rewrite ?rapp_rev. destruct (span_spec _ _ _ _ ES) as [_ [Fw _]].
        destruct w as [|w0 w']; [reflexivity|].
        assert (Hwne : w0 :: w' <> []) by discriminate.
        remember (w0 :: w') as w eqn:Ew.
        assert (Hm : forall A (x y : A), match w with [] => x | _ :: _ => y end = y) by (intros; subst w; reflexivity).
        clear Hm.
        pose proof (word_sim b1 sh w rb Hwne Fw) as HW. cbn zeta in HW.
        destruct (classify T w (next_is_plus rb)) as [t|t|t|] eqn:EC.
        -- rewrite HW. eexists; split; [reflexivity|]. unfold sync, zoff. cbn [zr zb zshift]. repeat split.
           ++ rewrite app_length, rev_length. lia.
           ++ apply nsp_rev_idchars; assumption.
        -- destruct HW as [rb' [-> HW]]. rewrite HW. eexists; split; [reflexivity|].
           unfold sync, zoff. cbn [zr zb zshift tl]. repeat split.
           cbn [length]. rewrite app_length, rev_length. lia.
        -- destruct HW as [adj [c [q [Hw [Hra [Hc HW]]]]]]. rewrite HW.
           exists c, (q ++ b1).
           assert (Hl : length w = length q + 10).
           { rewrite Hw, app_length. apply (f_equal (@length _)) in Hra. rewrite rev_length in Hra.
             rewrite Hra. simpl. lia. }
           repeat split; [|assumption|rewrite app_length; lia].
           do 3 f_equal. rewrite app_length. lia.
        -- rewrite HW. unfold zoff. cbn [zb zshift]. reflexivity.
Qed.

Lemma look_spaces sp b :
  Forall (fun c => is_space c = true) sp -> nsp b ->
  look (rev sp ++ b) = match sp with [] => false | _ => true end.
Proof.
  intros F N. destruct sp as [|s0 sp'].
  - simpl. destruct b; [reflexivity|exact N].
  - destruct (rev (s0 :: sp')) as [|x q] eqn:Er.
    + apply (f_equal (@length _)) in Er. rewrite rev_length in Er. discriminate.
    + simpl. assert (Hin : In x (rev (s0 :: sp'))) by (rewrite Er; left; reflexivity).
      apply in_rev in Hin. rewrite Forall_forall in F. apply F; assumption.
Qed.

Lemma ref_mono f : forall r pos acc, ref_scan T f r pos acc <> Fuel -> ref_scan T (S f) r pos acc = ref_scan T f r pos acc.
Proof.
  induction f as [|f IH]; intros r pos acc H; [exfalso; apply H; reflexivity|].
  change (ref_scan T (S (S f)) r pos acc) with
    (match r with [] => Ok (rev acc) | _ =>
       let (sp, r1) := span is_space r in
       match r1 with [] => Ok (rev acc) | _ =>
         match ref_item T (match sp with [] => false | _ => true end) r1 (pos + length sp) with
         | Ok (ts, r2, pos2) => ref_scan T (S f) r2 pos2 (rev ts ++ acc)
         | Err e => Err e | Panic => Panic | Fuel => Fuel end end end).
  change (ref_scan T (S f) r pos acc) with
    (match r with [] => Ok (rev acc) | _ =>
       let (sp, r1) := span is_space r in
       match r1 with [] => Ok (rev acc) | _ =>
         match ref_item T (match sp with [] => false | _ => true end) r1 (pos + length sp) with
         | Ok (ts, r2, pos2) => ref_scan T f r2 pos2 (rev ts ++ acc)
         | Err e => Err e | Panic => Panic | Fuel => Fuel end end end) in *.
  destruct r as [|c r']; [reflexivity|].
  destruct (span is_space (c :: r')) as [sp r1]. destruct r1 as [|c1 r1']; [reflexivity|].
  destruct (ref_item T _ (c1 :: r1') _) as [[[ts r2] pos2]| | |]; try reflexivity.
  apply IH. exact H.
Qed.

Lemma plus_step c b r2 sh :
  is_space c = false ->
  ztoken T {| zb := c :: b; zr := "+"%char :: r2; zshift := sh |}
  = Ok (TOp OPlus, {| zb := "+"%char :: c :: b; zr := r2; zshift := sh |}).
Proof.
  intros Hc. unfold ztoken, zoperator. cbn. rewrite Hc. reflexivity.
Qed.

Theorem scan_sim f : forall z acc r pos,
  sync z r pos -> nsp (zb z) -> zscan T f z acc <> Fuel -> ref_scan T f r pos acc = zscan T f z acc.
Proof.
  induction f as [f IHf] using lt_wf_ind. intros z acc r pos [Hr Hoff] Hn HF.
  destruct f as [|f]; [exfalso; apply HF; reflexivity|].
  destruct z as [b r0 sh]. cbn [zr zb] in *. subst r0.
  cbn [zscan ref_scan zr].
  destruct r as [|c r']; [rewrite frev_rev; reflexivity|].
  unfold zclass. cbn [zr zb zshift].
  destruct (span is_space (c :: r')) as [sp r1] eqn:ES. rewrite ?rapp_rev.
  destruct (span_spec _ _ _ _ ES) as [_ [Fsp _]].
  cbn [zr].
  destruct r1 as [|c1 r1']; [rewrite frev_rev; reflexivity|].
  pose proof (item_sim (rev sp ++ b) sh (c1 :: r1') ltac:(discriminate)) as HI.
  unfold item_rel in HI. cbn zeta in HI.
  rewrite (look_spaces sp b Fsp Hn) in HI.
  assert (Hpos : length (rev sp ++ b) + sh = pos + length sp).
  { rewrite app_length, rev_length. unfold zoff in Hoff. cbn in Hoff. lia. }
  rewrite Hpos in HI.
  cbn [zscan zr zclass] in HF. unfold zclass in HF. cbn [zr zb zshift] in HF. rewrite ES in HF. cbn [zr] in HF.
  rewrite ?rapp_rev in HF.
  destruct (ref_item T _ (c1 :: r1') (pos + length sp)) as [[[ts r2] pos2]|e| |] eqn:ER; try contradiction.
  - destruct ts as [|t [|t2 ts']]; try contradiction.
    + destruct HI as [z2 [HZ [HS HN]]]. rewrite HZ in *. apply IHf; [lia|assumption|assumption|exact HF].
    + destruct t2 as [[]| | | |]; try contradiction. destruct ts'; try contradiction.
      destruct HI as [c2 [b2 [HZ [Hc2 Hle]]]]. rewrite HZ in *.
      destruct f as [|f']; [exfalso; apply HF; reflexivity|].
      cbn [zscan zr] in HF |- *. unfold zclass in HF |- *. cbn [zr zb zshift span] in HF |- *.
      replace (is_space "+") with false in HF |- * by reflexivity. cbn [zr rev_append] in HF |- *.
      rewrite plus_step in HF |- * by assumption.
      set (z3 := {| zb := "+"%char :: c2 :: b2; zr := r2; zshift := pos2 - S (S (length b2)) |}) in *.
      assert (HS3 : sync z3 r2 pos2).
      { unfold sync, zoff, z3. cbn [zr zb zshift length]. split; [reflexivity|lia]. }
      assert (HN3 : nsp (zb z3)) by reflexivity.
      pose proof (IHf f' ltac:(lia) z3 (TOp OPlus :: t :: acc) r2 pos2 HS3 HN3 HF) as E.
      change (rev [t; TOp OPlus] ++ acc) with (TOp OPlus :: t :: acc).
      rewrite ref_mono; [exact E|rewrite E; exact HF].
  - rewrite HI. reflexivity.
Qed.

(* ---- every item consumes input; fuel |s|+1 is enough; no panic ---- *)
Lemma first_op'_split l r p o r' : first_op' l r = Some (p, o, r') -> r = p ++ r'.
Proof.
  induction l as [|[p0 o0] l IH]; simpl; [discriminate|].
  destruct (strip_prefix p0 r) eqn:E; [intros H; inversion H; subst; apply strip_prefix_spec; assumption|auto].
Qed.

Lemma ref_item_shrinks spaced r1 pos ts r2 pos2 :
  ref_item T spaced r1 pos = Ok (ts, r2, pos2) ->
  length r2 < length r1 /\ (forall t, ts = [t; TOp OPlus] -> S (length r2) < length r1).
Proof.
  unfold ref_item. rewrite first_op_first_op'.
  destruct (first_op' ops r1) as [[[p o] r']|] eqn:EO.
  - pose proof (first_op'_in _ _ _ _ _ EO) as Hin. destruct (ops_facts _ _ Hin) as [c [q [Hrev _]]].
    apply first_op'_split in EO. subst r1.
    assert (Hp : 0 < length p).
    { apply (f_equal (@length _)) in Hrev. rewrite rev_length in Hrev. simpl in Hrev. lia. }
    intros H. assert (r2 = r' /\ ts = [TOp o]) as [-> ->].
    { destruct o; try (inversion H; subst; auto). destruct spaced; [discriminate|inversion H; subst; auto]. }
    rewrite app_length. split; [lia|]. intros t Ht. discriminate.
  - destruct (strip_prefix k_docref r1) as [ra|] eqn:ED.
    + apply strip_prefix_spec in ED. subst r1.
      destruct (span is_idchar ra) as [id rb] eqn:ES. destruct (span_spec _ _ _ _ ES) as [-> _].
      destruct id; [discriminate|]. intros H; inversion H; subst.
      rewrite !app_length. simpl. split; [lia|]. intros t Ht. discriminate.
    + destruct (strip_prefix k_licref r1) as [ra|] eqn:EL.
      * apply strip_prefix_spec in EL. subst r1.
        destruct (span is_idchar ra) as [id rb] eqn:ES. destruct (span_spec _ _ _ _ ES) as [-> _].
        destruct id; [discriminate|]. intros H; inversion H; subst.
        rewrite !app_length. simpl. split; [lia|]. intros t Ht. discriminate.
      * destruct (span is_idchar r1) as [w rb] eqn:ES. destruct (span_spec _ _ _ _ ES) as [-> _].
        destruct w as [|w0 w']; [discriminate|]. remember (w0 :: w') as w eqn:Ew.
        assert (Hw : 0 < length w) by (subst w; simpl; lia).
        destruct (classify T w (next_is_plus rb)) as [t|t|t|] eqn:EC; intros H; inversion H; subst ts r2 pos2.
        -- rewrite app_length. split; [lia|]. intros t' Ht. discriminate.
        -- rewrite app_length. split; [destruct rb; simpl; lia|]. intros t' Ht. discriminate.
        -- apply classify_then in EC. destruct EC as [adj [Hadj _]]. rewrite Hadj, !app_length. simpl. split; [lia|]. intros; lia.
Qed.

Lemma ref_item_no_panic spaced r1 pos : ref_item T spaced r1 pos <> Panic /\ ref_item T spaced r1 pos <> Fuel.
Proof.
  unfold ref_item. destruct (first_op ops r1) as [[[o r'] n]|].
  - destruct o; try (split; discriminate). destruct spaced; split; discriminate.
  - destruct (strip_prefix k_docref r1).
    + destruct (span is_idchar s) as [[|] ?]; split; discriminate.
    + destruct (strip_prefix k_licref r1).
      * destruct (span is_idchar s) as [[|] ?]; split; discriminate.
      * destruct (span is_idchar r1) as [[|] ?]; [split; discriminate|].
        destruct (classify T _ _); split; discriminate.
Qed.

Lemma ref_scan_total f : forall r pos acc, length r < f ->
  ref_scan T f r pos acc <> Fuel /\ ref_scan T f r pos acc <> Panic.
Proof.
  induction f as [|f IH]; intros r pos acc Hl; [lia|].
  cbn [ref_scan]. destruct r as [|c r']; [split; discriminate|].
  destruct (span is_space (c :: r')) as [sp r1] eqn:ES. destruct (span_spec _ _ _ _ ES) as [Hsplit _].
  destruct r1 as [|c1 r1']; [split; discriminate|].
  destruct (ref_item_no_panic (match sp with [] => false | _ => true end) (c1 :: r1') (pos + length sp)) as [NP NF].
  destruct (ref_item T _ (c1 :: r1') _) as [[[ts r2] pos2]|e| |] eqn:ER; try (split; discriminate); try contradiction.
  apply ref_item_shrinks in ER. destruct ER as [Hs _].
  apply IH. rewrite Hsplit, app_length in Hl. lia.
Qed.

Lemma zscan_fuel f : forall z acc, nsp (zb z) -> length (zr z) < f -> zscan T f z acc <> Fuel.
Proof.
  induction f as [f IHf] using lt_wf_ind. intros z acc Hn Hl.
  destruct f as [|f]; [lia|].
  destruct z as [b r sh]. cbn [zr zb] in *.
  cbn [zscan zr]. destruct r as [|c r']; [discriminate|].
  unfold zclass. cbn [zr zb zshift].
  destruct (span is_space (c :: r')) as [sp r1] eqn:ES. rewrite ?rapp_rev.
  destruct (span_spec _ _ _ _ ES) as [Hsplit [Fsp _]].
  cbn [zr]. destruct r1 as [|c1 r1']; [discriminate|].
  pose proof (item_sim (rev sp ++ b) sh (c1 :: r1') ltac:(discriminate)) as HI.
  unfold item_rel in HI. cbn zeta in HI.
  rewrite (look_spaces sp b Fsp Hn) in HI.
  assert (Hl1 : length (c1 :: r1') <= length (c :: r')) by (rewrite Hsplit, app_length; lia).
  destruct (ref_item T _ (c1 :: r1') _) as [[[ts r2] pos2]|e| |] eqn:ER; try contradiction.
  - apply ref_item_shrinks in ER. destruct ER as [Hs Hs2].
    destruct ts as [|t [|t2 ts']]; try contradiction.
    + destruct HI as [z2 [HZ [[HS _] HN]]]. rewrite HZ. apply IHf; [lia|assumption|rewrite HS; lia].
    + destruct t2 as [[]| | | |]; try contradiction. destruct ts'; try contradiction.
      destruct HI as [c2 [b2 [HZ [Hc2 Hle]]]]. rewrite HZ.
      specialize (Hs2 t eq_refl).
      destruct f as [|f']; [simpl in *; lia|].
      cbn [zscan zr]. unfold zclass. cbn [zr zb zshift span].
      replace (is_space "+") with false by reflexivity. cbn [zr rev_append].
      rewrite plus_step by assumption.
      apply IHf; [lia|reflexivity|cbn [zr]; simpl in *; lia].
  - rewrite HI. discriminate.
Qed.

(* the scanner of scan.go IS the reference tokeniser: same tokens, same error values, same offsets *)
Theorem scan_refines s : scan T s = ref_tokens T s.
Proof.
  unfold scan, ref_tokens. symmetry. apply scan_sim.
  - split; reflexivity.
  - exact I.
  - apply zscan_fuel; [exact I|simpl; lia].
Qed.

Corollary scan_total s : scan T s <> Panic /\ scan T s <> Fuel.
Proof.
  rewrite scan_refines. unfold ref_tokens.
  destruct (ref_scan_total (S (length s)) s 0 [] (Nat.lt_succ_diag_r _)) as [A B]. split; assumption.
Qed.
End Sim.


