(* Tokenisation is compositional: the reference tokeniser (= the scanner of scan.go) can be cut at any byte c
   that is not an id character, provided c is not a '+' directly after an id character (the one place where an
   item looks one byte ahead).  No lexical item spans such a boundary. *)
From Coq Require Import Lia.
From Spdx Require Import Model.Scan Model.Parse Spec.Lex Proofs.BytesFacts Proofs.ScanRef Proofs.Offsets.
Local Open Scope list_scope.

(* the last byte of a is neither an id character nor a space (or a is empty) *)
Definition last_ok (a : str) : bool :=
  match frev a with x :: _ => if is_idchar x then false else negb (is_space x) | [] => true end.
(* c may follow a as the first byte of an independent piece of text: c is not an id character, and a '+' may
   not come directly after an id character (it would be read together with the id) nor after a space (error) *)
Definition boundary (a : str) (c : ascii) : Prop :=
  is_idchar c = false /\ (c = "+"%char -> last_ok a = true).
Lemma last_ok_suffix (p q : str) : q <> [] -> last_ok (p ++ q) = last_ok q.
Proof.
  intros Hq. unfold last_ok. rewrite !frev_rev, rev_app_distr. destruct (rev q) as [|y ys] eqn:E; [|reflexivity].
  apply (f_equal (@rev _)) in E. rewrite rev_involutive in E. contradiction.
Qed.

Lemma span_app_stop p a : forall c b, p c = false ->
  span p (a ++ c :: b) = (fst (span p a), snd (span p a) ++ c :: b).
Proof.
  induction a as [|x a IH]; intros c b Hc; simpl; [rewrite Hc; reflexivity|].
  destruct (p x); [|reflexivity]. rewrite (IH c b Hc). destruct (span p a). reflexivity.
Qed.

(* prefixes made of id characters cannot straddle the boundary *)
Lemma strip_prefix_app_id p : forall u c b, Forall (fun x => is_idchar x = true) p -> is_idchar c = false -> p <> [] ->
  strip_prefix p (u ++ c :: b) = match strip_prefix p u with Some r => Some (r ++ c :: b) | None => None end.
Proof.
  induction p as [|x p IH]; intros u c b F Hc Hne; [contradiction|]. inversion F as [|? ? Hx F']; subst.
  destruct u as [|y u]; simpl.
  - destruct (Ascii.eqb x c) eqn:E; [|reflexivity]. apply Ascii.eqb_eq in E. subst. congruence.
  - destruct (Ascii.eqb x y); [|reflexivity]. destruct p as [|x' p'].
    + reflexivity.
    + apply IH; [assumption|assumption|discriminate].
Qed.
Lemma strip_prefix_app_single x u c b : u <> [] ->
  strip_prefix [x] (u ++ c :: b) = match strip_prefix [x] u with Some r => Some (r ++ c :: b) | None => None end.
Proof. destruct u as [|y u]; [contradiction|]. intros _. simpl. destruct (Ascii.eqb x y); reflexivity. Qed.

Lemma first_op'_app u c b : u <> [] -> is_idchar c = false ->
  first_op' ops (u ++ c :: b) = match first_op' ops u with Some (p, o, r') => Some (p, o, r' ++ c :: b) | None => None end.
Proof.
  intros Hu Hc. unfold ops. cbn [first_op'].
  rewrite (strip_prefix_app_id (s2l "WITH") u c b) by (try assumption; try discriminate; repeat constructor).
  destruct (strip_prefix (s2l "WITH") u); [reflexivity|].
  rewrite (strip_prefix_app_id (s2l "AND") u c b) by (try assumption; try discriminate; repeat constructor).
  destruct (strip_prefix (s2l "AND") u); [reflexivity|].
  rewrite (strip_prefix_app_id (s2l "OR") u c b) by (try assumption; try discriminate; repeat constructor).
  destruct (strip_prefix (s2l "OR") u); [reflexivity|].
  change (s2l "(") with ["("%char]. rewrite (strip_prefix_app_single "(" u c b Hu). destruct (strip_prefix ["("%char] u); [reflexivity|].
  change (s2l ")") with [")"%char]. rewrite (strip_prefix_app_single ")" u c b Hu). destruct (strip_prefix [")"%char] u); [reflexivity|].
  change (s2l ":") with [":"%char]. rewrite (strip_prefix_app_single ":" u c b Hu). destruct (strip_prefix [":"%char] u); [reflexivity|].
  change (s2l "+") with ["+"%char]. rewrite (strip_prefix_app_single "+" u c b Hu). destruct (strip_prefix ["+"%char] u); reflexivity.
Qed.

Lemma last_ok_word (x : str) (w : str) : w <> [] -> Forall (fun ch => is_idchar ch = true) w -> last_ok (x ++ w) = false.
Proof.
  intros Hne F. rewrite (last_ok_suffix x w Hne). unfold last_ok. rewrite frev_rev. destruct (rev w) as [|y q] eqn:E.
  - apply (f_equal (@rev _)) in E. rewrite rev_involutive in E. contradiction.
  - assert (In y (rev w)) by (rewrite E; left; reflexivity). apply in_rev in H. rewrite Forall_forall in F. rewrite (F y H). reflexivity.
Qed.
Lemma last_ok_spaces (sp : str) : sp <> [] -> Forall (fun ch => is_space ch = true) sp -> last_ok sp = false.
Proof.
  intros Hne F. unfold last_ok. rewrite frev_rev. destruct (rev sp) as [|y q] eqn:E.
  - apply (f_equal (@rev _)) in E. rewrite rev_involutive in E. contradiction.
  - assert (In y (rev sp)) by (rewrite E; left; reflexivity). apply in_rev in H. rewrite Forall_forall in F.
    rewrite (F y H). destruct (is_idchar y); reflexivity.
Qed.

Lemma span_spaces_app sp : forall r, Forall (fun ch => is_space ch = true) sp ->
  span is_space (sp ++ r) = (sp ++ fst (span is_space r), snd (span is_space r)).
Proof.
  induction sp as [|x sp IH]; intros r F.
  - simpl. destruct (span is_space r); reflexivity.
  - inversion F; subst. simpl app. cbn [span]. rewrite H1. rewrite (IH r H2). reflexivity.
Qed.

Section SplitT.
Variable T : tables.
Hypothesis HT : license_lookup T [] = None.

(* one item, with arbitrary text appended after a boundary *)
Lemma ref_item_app spaced u c b pos : u <> [] -> boundary u c ->
  ref_item T spaced (u ++ c :: b) pos =
  match ref_item T spaced u pos with Ok (ts, r2, pos2) => Ok (ts, r2 ++ c :: b, pos2) | other => other end.
Proof.
  intros Hu [Hc Hplus]. unfold ref_item. rewrite !first_op_first_op', (first_op'_app u c b Hu Hc).
  destruct (first_op' ops u) as [[[p o] r']|] eqn:EO.
  - destruct o; try reflexivity. destruct spaced; reflexivity.
  - rewrite (strip_prefix_app_id k_docref u c b) by (try assumption; try discriminate; repeat constructor).
    destruct (strip_prefix k_docref u) as [ra|] eqn:ED.
    + rewrite (span_app_stop is_idchar ra c b Hc). destruct (span is_idchar ra) as [id rb]. simpl.
      destruct id; reflexivity.
    + rewrite (strip_prefix_app_id k_licref u c b) by (try assumption; try discriminate; repeat constructor).
      destruct (strip_prefix k_licref u) as [ra|] eqn:EL.
      * rewrite (span_app_stop is_idchar ra c b Hc). destruct (span is_idchar ra) as [id rb]. simpl.
        destruct id; reflexivity.
      * rewrite (span_app_stop is_idchar u c b Hc). destruct (span is_idchar u) as [w rb] eqn:ES. simpl.
        destruct w as [|w0 w']; [reflexivity|].
        assert (Hnp : next_is_plus (rb ++ c :: b) = next_is_plus rb).
        { destruct rb as [|x rb']; [|reflexivity]. simpl.
          destruct (Ascii.eqb c "+") eqn:Ec; [|reflexivity]. apply Ascii.eqb_eq in Ec.
          destruct (span_spec _ _ _ _ ES) as [Hsplit [Fw _]]. rewrite app_nil_r in Hsplit.
          specialize (Hplus Ec). rewrite Hsplit in Hplus.
          pose proof (last_ok_word [] (w0 :: w') ltac:(discriminate) Fw) as K. simpl app in K.
          rewrite K in Hplus. discriminate. }
        rewrite Hnp. destruct (classify T (w0 :: w') (next_is_plus rb)) as [t|t|t|] eqn:EC; try reflexivity.
        apply classify_eat in EC. destruct rb as [|x rb']; [discriminate|]. reflexivity.
Qed.

(* the spaced flag only matters for an item that starts with '+' *)
Lemma ref_item_spaced_irrelevant s1 s2 r pos : (forall r', r <> "+"%char :: r') -> ref_item T s1 r pos = ref_item T s2 r pos.
Proof.
  intros Hnp. unfold ref_item. rewrite !first_op_first_op'. destruct (first_op' ops r) as [[[p o] r']|] eqn:EO; [|reflexivity].
  destruct o; try reflexivity. exfalso.
  pose proof (first_op'_in _ _ _ _ _ EO) as Hin. destruct (ops_facts _ _ Hin) as [_ [_ [_ [_ Hp]]]]. specialize (Hp eq_refl). subst p.
  apply first_op'_split in EO. simpl in EO. eapply Hnp. eassumption.
Qed.

(* fuel independence: any fuel above the length gives the same run *)
Definition ref_run (r : str) (pos : nat) (acc : list tok) : res (list tok) := ref_scan T (S (length r)) r pos acc.
Lemma ref_scan_enough f : forall r pos acc, length r < f -> ref_scan T f r pos acc = ref_run r pos acc.
Proof.
  induction f as [|f IH]; intros r pos acc Hl; [lia|].
  destruct (Nat.eq_dec f (length r)) as [->|Hne]; [reflexivity|].
  rewrite (ref_mono T f); [apply IH; lia|]. apply (ref_scan_total T HT). lia.
Qed.
Lemma ref_run_unfold r pos acc :
  ref_run r pos acc =
  match r with
  | [] => Ok (rev acc)
  | _ => let (sp, r1) := span is_space r in
         match r1 with
         | [] => Ok (rev acc)
         | _ => match ref_item T (match sp with [] => false | _ => true end) r1 (pos + length sp) with
                | Ok (ts, r2, pos2) => ref_run r2 pos2 (rev ts ++ acc)
                | Err e => Err e | Panic => Panic | Fuel => Fuel
                end
         end
  end.
Proof.
  unfold ref_run at 1. cbn [ref_scan]. destruct r as [|c r']; [reflexivity|].
  destruct (span is_space (c :: r')) as [sp r1] eqn:ES. destruct (span_spec _ _ _ _ ES) as [Hsplit _].
  destruct r1 as [|c1 r1']; [reflexivity|].
  destruct (ref_item T _ (c1 :: r1') _) as [[[ts r2] pos2]|e| |] eqn:ER; try reflexivity.
  apply ref_scan_enough. apply (ref_item_shrinks T HT) in ER. destruct ER as [Hs _].
  rewrite Hsplit, app_length. lia.
Qed.

(* the split lemma *)
Lemma ref_run_app_n n : forall a, length a = n -> forall c b pos acc, boundary a c ->
  ref_run (a ++ c :: b) pos acc =
  match ref_run a pos acc with
  | Ok ts => ref_run (c :: b) (pos + length a) (rev ts)
  | other => other
  end.
Proof.
  induction n as [n IHn] using lt_wf_ind. intros a Hn c b pos acc [Hc Hplus].
  assert (IH : forall a', length a' < length a -> forall c b pos acc, boundary a' c ->
          ref_run (a' ++ c :: b) pos acc = match ref_run a' pos acc with Ok ts => ref_run (c :: b) (pos + length a') (rev ts) | other => other end).
  { intros a' Hl. apply (IHn (length a')); [lia|reflexivity]. }
  clear IHn Hn.
  destruct a as [|x a'].
  - cbn [app length]. replace (ref_run [] pos acc) with (@Ok (list tok) (rev acc)) by reflexivity.
    rewrite rev_involutive, Nat.add_0_r. reflexivity.
  - rewrite (ref_run_unfold ((x :: a') ++ c :: b)), (ref_run_unfold (x :: a') pos acc).
    cbn [app]. change (x :: a' ++ c :: b) with ((x :: a') ++ c :: b).
    destruct (span is_space (x :: a')) as [sp r1] eqn:ES. destruct (span_spec _ _ _ _ ES) as [Hsplit [Fsp Hr1]].
    destruct r1 as [|y r1'].
    + (* a is all spaces *)
      rewrite app_nil_r in Hsplit. rewrite rev_involutive.
      destruct (is_space c) eqn:Esc.
      * (* c is a space too: the run of spaces continues *)
        rewrite (ref_run_unfold (c :: b)).
        assert (Hsp1 : span is_space ((x :: a') ++ c :: b) = (sp ++ fst (span is_space (c :: b)), snd (span is_space (c :: b))))
          by (rewrite Hsplit; apply span_spaces_app; assumption).
        rewrite Hsp1. destruct (span is_space (c :: b)) as [sp2 r2] eqn:ES2. cbn [fst snd].
        destruct r2 as [|z r2']; [reflexivity|].
        assert (Hsp2 : sp2 <> []) by (simpl in ES2; rewrite Esc in ES2; destruct (span is_space b); inversion ES2; discriminate).
        replace (match sp ++ sp2 with [] => false | _ => true end) with (match sp2 with [] => false | _ => true end)
          by (destruct sp2; [contradiction|]; destruct sp; reflexivity).
        rewrite app_length, Hsplit. rewrite Nat.add_assoc. reflexivity.
      * (* c is not a space: it starts the next item; the item is not '+', so the spaced flag is irrelevant *)
        rewrite (ref_run_unfold (c :: b)). cbn [span]. rewrite Esc.
        assert (Hsp1 : span is_space ((x :: a') ++ c :: b) = (sp, c :: b)).
        { rewrite Hsplit, (span_spaces_app sp (c :: b) Fsp). cbn [span]. rewrite Esc. simpl. rewrite app_nil_r. reflexivity. }
        rewrite Hsp1. cbn [length]. rewrite Nat.add_0_r.
        rewrite (ref_item_spaced_irrelevant (match sp with [] => false | _ => true end) false (c :: b) _).
        -- replace (S (length a')) with (length sp) by (apply (f_equal (@length _)) in Hsplit; simpl in Hsplit; lia). reflexivity.
        -- intros r' E. inversion E; subst c. specialize (Hplus eq_refl). rewrite Hsplit in Hplus.
           rewrite (last_ok_spaces sp) in Hplus; [discriminate| |assumption].
           intros ->. simpl in Hsplit. discriminate.
    + (* a has an item *)
      assert (Hy : is_space y = false) by exact Hr1.
      assert (Hsp1 : span is_space ((x :: a') ++ c :: b) = (sp, (y :: r1') ++ c :: b)).
      { rewrite Hsplit, <- app_assoc, (span_spaces_app sp _ Fsp). cbn [app span]. rewrite Hy. simpl. rewrite app_nil_r. reflexivity. }
      rewrite Hsp1. cbn [app].
      change (y :: r1' ++ c :: b) with ((y :: r1') ++ c :: b).
      assert (Hb1 : boundary (y :: r1') c).
      { split; [assumption|]. intros Ec. specialize (Hplus Ec). rewrite Hsplit in Hplus.
        rewrite last_ok_suffix in Hplus by discriminate. exact Hplus. }
      rewrite (ref_item_app _ (y :: r1') c b _ ltac:(discriminate) Hb1).
      destruct (ref_item T _ (y :: r1') _) as [[[ts r2] pos2]|e| |] eqn:ER; try reflexivity.
      pose proof (ref_item_shrinks T HT _ _ _ _ _ _ ER) as [Hs _].
      pose proof (ref_item_consumes T _ _ _ _ _ _ ER) as Hcons.
      destruct Hcons as [cons [Hc1 Hp2]].
      assert (Hlen : length r2 < length (x :: a')) by (rewrite Hsplit, app_length; lia).
      destruct r2 as [|z r2'].
      * simpl app. rewrite (ref_run_unfold [] pos2). rewrite rev_involutive.
        replace (pos + length (x :: a')) with pos2; [reflexivity|].
        rewrite Hp2, Hsplit, app_length, Hc1, app_nil_r. lia.
      * assert (Hb2 : boundary (z :: r2') c).
        { split; [assumption|]. intros Ec. destruct Hb1 as [_ Hb1]. specialize (Hb1 Ec). rewrite Hc1 in Hb1.
          rewrite last_ok_suffix in Hb1 by discriminate. exact Hb1. }
        rewrite (IH (z :: r2') Hlen c b pos2 (rev ts ++ acc) Hb2).
        destruct (ref_run (z :: r2') pos2 (rev ts ++ acc)); try reflexivity.
        replace (pos + length (x :: a')) with (pos2 + length (z :: r2')); [reflexivity|].
        rewrite Hp2, Hsplit, app_length, Hc1, app_length. lia.
Qed.
Theorem ref_run_app a c b pos acc : boundary a c ->
  ref_run (a ++ c :: b) pos acc = match ref_run a pos acc with Ok ts => ref_run (c :: b) (pos + length a) (rev ts) | other => other end.
Proof. apply (ref_run_app_n (length a)). reflexivity. Qed.
End SplitT.
