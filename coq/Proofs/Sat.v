(* Satisfies = Boolean value of the parse tree under the assignment "some allowed node matches this term". *)
From Coq Require Import Lia Permutation.
From Spdx Require Import Model.Api Spec.Grammar Spec.Eval Spec.WF Proofs.BytesFacts Proofs.NodeInv.
Local Open Scope list_scope.

Lemma satisfied_by_eval T A t : satisfied_by T t A = eval (fun x => existsb (compatible T x) A) t.
Proof.
  induction t as [l p e|d r|a IHa b IHb|a IHa b IHb]; simpl; try reflexivity.
  - rewrite IHa, IHb. destruct (eval _ a); reflexivity.
  - rewrite IHa, IHb. destruct (eval _ a); reflexivity.
Qed.

Lemma eval_ext v v' t : (forall x, v x = v' x) -> eval v t = eval v' t.
Proof.
  intros H. induction t as [l p e|d r|a IHa b IHb|a IHa b IHb]; simpl; try apply H; rewrite IHa, IHb; reflexivity.
Qed.

Lemma existsb_set {A} (f : A -> bool) l l' : (forall x, In x l <-> In x l') -> existsb f l = existsb f l'.
Proof.
  intros H. destruct (existsb f l) eqn:E.
  - apply existsb_exists in E. destruct E as [x [Hx Hf]]. symmetry. apply existsb_exists. exists x. split; [apply H; assumption|assumption].
  - destruct (existsb f l') eqn:E'; [|reflexivity].
    apply existsb_exists in E'. destruct E' as [x [Hx Hf]].
    assert (existsb f l = true) by (apply existsb_exists; exists x; split; [apply H; assumption|assumption]). congruence.
Qed.

(* ---- sortAndDedup keeps the set of nodes ---- *)
Lemma insert_keyed_in x l y : In y (insert_keyed x l) <-> y = x \/ In y l.
Proof.
  induction l as [|z l IH]; simpl.
  - split; intros [H|H]; auto; contradiction.
  - destruct (str_ltb (fst z) (fst x)); simpl.
    + rewrite IH. tauto.
    + split; intros H; [destruct H as [H|H]; auto|destruct H as [H|H]; auto].
Qed.
Lemma sort_keyed_in l y : In y (sort_keyed l) <-> In y l.
Proof.
  induction l as [|x l IH]; simpl; [tauto|]. rewrite insert_keyed_in, IH. split; intros [H|H]; auto.
Qed.

Definition key_inj (s : list (str * node)) : Prop := forall a b, In a s -> In b s -> fst a = fst b -> a = b.

Lemma dedup_adj_sub prev l y : In y (dedup_adj prev l) -> In y l.
Proof.
  revert prev. induction l as [|x l IH]; intros prev; simpl; [tauto|].
  destruct (str_eqb prev (fst x)); simpl; intros H; [right; eapply IH; eassumption|].
  destruct H as [H|H]; [left; assumption|right; eapply IH; eassumption].
Qed.
Lemma dedup_adj_keeps p l : key_inj (p :: l) -> forall y, In y l -> y = p \/ In y (dedup_adj (fst p) l).
Proof.
  revert p. induction l as [|x l IH]; intros p K y Hy; [contradiction|].
  assert (K' : key_inj (x :: l)).
  { intros a b Ha Hb. apply K; right; assumption. }
  simpl. destruct (str_eqb (fst p) (fst x)) eqn:E.
  - apply str_eqb_eq in E. assert (x = p) by (symmetry; apply K; [left; reflexivity|right; left; reflexivity|assumption]).
    subst x. destruct Hy as [->|Hy]; [left; reflexivity|]. apply IH; assumption.
  - destruct Hy as [->|Hy]; [right; left; reflexivity|].
    destruct (IH x K' y Hy) as [->|H]; [right; left; reflexivity|right; right; assumption].
Qed.
Lemma skipn_sub {A} n (l : list A) y : In y (skipn n l) -> In y l.
Proof.
  revert l. induction n as [|n IH]; intros l; simpl; [tauto|]. destruct l; [tauto|]. intros H. right. apply IH. assumption.
Qed.
Lemma compact_in s : key_inj s -> forall y, In y (compact s) <-> In y s.
Proof.
  intros K y. destruct s as [|x s']; simpl; [tauto|]. split.
  - intros [H|H]; [left; assumption|]. apply in_app_or in H. destruct H as [H|H].
    + right. eapply dedup_adj_sub. eassumption.
    + destruct (length (dedup_adj (fst x) s')) eqn:El.
      * simpl in H. right. assumption.
      * right. eapply skipn_sub. eassumption.
  - intros [H|H]; [left; assumption|].
    destruct (dedup_adj_keeps x s' K y H) as [->|H']; [left; reflexivity|right; apply in_or_app; left; assumption].
Qed.

Lemma keyed_leaves l : Forall (fun n => is_leaf n = true) l ->
  keyed l = Some (map (fun n => (canon_str n, n)) l).
Proof.
  induction l as [|n l IH]; intros F; [reflexivity|]. inversion F; subst. simpl. rewrite (IH H2).
  destruct n; try discriminate; reflexivity.
Qed.

Section SatT.
Variable T : tables.
Hypothesis HT : license_lookup T [] = None.
Hypothesis Hnr : forall l, In l (lic_ids T) -> no_ref_prefix l.

Lemma leaf_ok_is_leaf n : leaf_ok T n -> is_leaf n = true.
Proof. destruct n; simpl; try reflexivity; contradiction. Qed.

Lemma sort_and_dedup_set N : Forall (leaf_ok T) N ->
  exists N', sort_and_dedup N = Ok N' /\ forall x, In x N' <-> In x N.
Proof.
  intros F. destruct N as [|n0 [|n1 N]]; [exists []; split; [reflexivity|tauto]|exists [n0]; split; [reflexivity|tauto]|].
  unfold sort_and_dedup.
  assert (FL : Forall (fun n => is_leaf n = true) (n0 :: n1 :: N)).
  { eapply Forall_impl; [|exact F]. apply leaf_ok_is_leaf. }
  rewrite (keyed_leaves _ FL). eexists. split; [reflexivity|].
  set (kl := map (fun n => (canon_str n, n)) (n0 :: n1 :: N)).
  assert (Hkl : forall a, In a kl <-> exists n, In n (n0 :: n1 :: N) /\ a = (canon_str n, n)).
  { intros a. unfold kl. rewrite in_map_iff. split; intros [n [H1 H2]]; exists n; auto. }
  assert (K : key_inj (sort_keyed kl)).
  { intros a b Ha Hb E. apply (proj1 (sort_keyed_in _ _)) in Ha. apply (proj1 (sort_keyed_in _ _)) in Hb. apply (proj1 (Hkl _)) in Ha. apply (proj1 (Hkl _)) in Hb.
    destruct Ha as [na [Hna ->]]. destruct Hb as [nb [Hnb ->]]. simpl in E.
    rewrite Forall_forall in F.
    assert (na = nb).
    { apply (canon_inj T na nb (F _ Hna) (F _ Hnb) Hnr).
      pose proof (F _ Hna) as La. pose proof (F _ Hnb) as Lb.
      unfold canon_str in E. destruct na; try contradiction; destruct nb; try contradiction; simpl in *; f_equal; assumption. }
    subst. reflexivity. }
  intros x. rewrite in_map_iff. split.
  - intros [a [Hx Ha]]. apply (proj1 (compact_in _ K _)) in Ha. apply (proj1 (sort_keyed_in _ _)) in Ha. apply (proj1 (Hkl _)) in Ha.
    destruct Ha as [n [Hn ->]]. simpl in Hx. subst. assumption.
  - intros Hx. exists (canon_str x, x). split; [reflexivity|]. apply (proj2 (compact_in _ K _)). apply (proj2 (sort_keyed_in _ _)). apply (proj2 (Hkl _)). exists x. auto.
Qed.

(* ---- stringsToNodes ---- *)
Lemma strings_to_nodes_ok A N :
  strings_to_nodes T A = Ok N <-> Forall2 (fun a n => parse T a = Ok n /\ is_leaf n = true) A N.
Proof.
  revert N. induction A as [|a A IH]; intros N; simpl.
  - split; [intros H; inversion H; constructor|intros H; inversion H; reflexivity].
  - split.
    + destruct (parse T a) as [n|e| |] eqn:EP; try discriminate.
      destruct (is_leaf n) eqn:EL; [|discriminate].
      destruct (strings_to_nodes T A) as [ns|e| |] eqn:ES; try discriminate.
      intros H; inversion H; subst. constructor; [auto|]. apply IH. reflexivity.
    + intros H. inversion H as [|? n ? ns [HP HL] HF]; subst. rewrite HP, HL.
      apply IH in HF. rewrite HF. reflexivity.
Qed.

Lemma parsed_leaves_ok A N :
  Forall2 (fun a n => parse T a = Ok n /\ is_leaf n = true) A N -> Forall (leaf_ok T) N.
Proof.
  induction 1 as [|a n A N [HP HL] HF IH]; constructor; [|assumption].
  pose proof (parse_tree_ok T HT _ _ HP) as Hok. destruct n; try discriminate; exact Hok.
Qed.

(* C01: for every valid expression and every valid non-empty allowed list, Satisfies returns the Boolean
   value of the parse tree under  v(term) := some allowed node matches that term *)
Theorem satisfies_is_eval e t A N :
  parse T e = Ok t -> A <> [] ->
  Forall2 (fun a n => parse T a = Ok n /\ is_leaf n = true) A N ->
  satisfies T e A = Ok (eval (fun x => existsb (compatible T x) N) t).
Proof.
  intros HP HA HF. unfold satisfies. rewrite HP. destruct A as [|a0 A']; [contradiction|].
  pose proof (proj2 (strings_to_nodes_ok _ _) HF) as HS. rewrite HS.
  destruct (sort_and_dedup_set N (parsed_leaves_ok _ _ HF)) as [N' [HSD Hset]]. rewrite HSD.
  f_equal. rewrite satisfied_by_eval. apply eval_ext. intros x. apply existsb_set. assumption.
Qed.
End SatT.
