(* Invariants of scanner and parser output, and injectivity of the canonical spelling on them. *)
From Coq Require Import Lia.
From Spdx Require Import Model.Api Spec.Lex Spec.Grammar Spec.Eval Spec.WF Proofs.BytesFacts Proofs.ScanRef Proofs.ParseGrammar.
Local Open Scope list_scope.

Definition word_ok (w : str) : Prop := w <> [] /\ Forall (fun c => is_idchar c = true) w.
Definition no_ref_prefix (w : str) : Prop := strip_prefix k_licref w = None /\ strip_prefix k_docref w = None.

Definition tok_ok (T : tables) (t : tok) : Prop :=
  match t with
  | TOp _ => True
  | TDoc s | TRef s => word_ok s
  | TLic s => word_ok s /\ In s (lic_ids T)
  | TExc s => word_ok s /\ In s (excs T)
  end.

Definition leaf_ok (T : tables) (n : node) : Prop :=
  match n with
  | NLic l p e => word_ok l /\ In l (lic_ids T) /\ (ends_orlater l = true -> p = true) /\
                  match e with Some x => word_ok x /\ In x (excs T) | None => True end
  | NRef d r => word_ok r /\ match d with Some x => word_ok x | None => True end
  | _ => False
  end.
Fixpoint tree_ok (T : tables) (n : node) : Prop :=
  match n with
  | NAnd a b | NOr a b => tree_ok T a /\ tree_ok T b
  | _ => leaf_ok T n
  end.

(* ---- EqualFold keeps id words id words ---- *)
Lemma fold_byte_idchar x y : Ascii.eqb (lower x) (lower y) = true -> is_idchar y = true -> is_idchar x = true.
Proof.
  revert x y.
  assert (H : forallb (fun x => forallb (fun y =>
             if Ascii.eqb (lower x) (lower y) then if is_idchar y then is_idchar x else true else true) all_bytes) all_bytes = true)
    by (vm_compute; reflexivity).
  intros x y E I. rewrite forallb_forall in H. specialize (H x (all_bytes_complete x)).
  rewrite forallb_forall in H. specialize (H y (all_bytes_complete y)). rewrite E, I in H. exact H.
Qed.
Lemma fold_word_ok x : forall w, fold_eqb x w = true -> word_ok w -> word_ok x.
Proof.
  intros w E [Hne F]. split.
  - intros ->. destruct w; [contradiction|discriminate].
  - revert w E F Hne. induction x as [|a x IH]; intros [|b w] E F _; simpl in E; try discriminate; [constructor|].
    destruct (Ascii.eqb (lower a) (lower b)) eqn:Eb; [|discriminate]. inversion F; subst.
    constructor; [eapply fold_byte_idchar; eassumption|].
    destruct w as [|b' w'].
    + destruct x; [constructor|discriminate].
    + apply (IH (b' :: w')); [assumption|assumption|discriminate].
Qed.

Lemma in_list_some l id p : in_list l id = Some p -> In p l /\ fold_eqb p id = true.
Proof. unfold in_list. intros H. apply find_some in H. exact H. Qed.
Lemma in_list_none l id : in_list l id = None -> forall x, In x l -> fold_eqb x id = false.
Proof. unfold in_list. intros H x Hx. exact (find_none _ _ H x Hx). Qed.

Section Inv.
Variable T : tables.
Hypothesis HT : license_lookup T [] = None.

Lemma lookup_tok_ok w t : word_ok w -> license_lookup T w = Some t -> tok_ok T t.
Proof.
  unfold license_lookup. intros Hw.
  destruct (in_list (active T) w) as [p|] eqn:E.
  - intros H; inversion H; subst. apply in_list_some in E. destruct E as [Hin Hf]. simpl. split.
    + eapply fold_word_ok; eassumption.
    + unfold lic_ids. apply in_or_app. left. assumption.
  - destruct (in_list (excs T) w) as [p|] eqn:E2; [|discriminate].
    intros H; inversion H; subst. apply in_list_some in E2. destruct E2 as [Hin Hf]. simpl. split.
    + eapply fold_word_ok; eassumption.
    + assumption.
Qed.
Lemma deprecated_tok_ok w t : word_ok w -> deprecated_lookup T w = Some t -> tok_ok T t.
Proof.
  unfold deprecated_lookup. intros Hw. destruct (in_list (deprec T) w) as [p|] eqn:E; [|discriminate].
  intros H; inversion H; subst. apply in_list_some in E. destruct E as [Hin Hf]. simpl. split.
  - eapply fold_word_ok; eassumption.
  - unfold lic_ids. apply in_or_app. right. assumption.
Qed.
Lemma word_ok_app_l a b : word_ok (a ++ b) -> a <> [] -> word_ok a.
Proof. intros [_ F] Hne. split; [assumption|]. apply Forall_app in F. apply F. Qed.
Lemma word_ok_app a b : word_ok a -> Forall (fun c => is_idchar c = true) b -> word_ok (a ++ b).
Proof. intros [Hne F] Fb. split; [destruct a; [contradiction|discriminate]|]. apply Forall_app. split; assumption. Qed.
Lemma k_orlater_idchars : Forall (fun c => is_idchar c = true) k_orlater.
Proof. repeat constructor. Qed.

Lemma classify_tok_ok w np :
  word_ok w ->
  match classify T w np with
  | NTok t | NEatPlus t | NThenPlus t => tok_ok T t
  | NUnknown => True
  end.
Proof.
  intros Hw. unfold classify.
  destruct (license_lookup T w) as [t|] eqn:E1; [eapply lookup_tok_ok; eassumption|].
  destruct (strip_suffix k_only w) as [adj|] eqn:ES.
  - destruct (license_lookup T adj) as [t|] eqn:E2.
    + apply strip_suffix_spec in ES. eapply lookup_tok_ok; [|eassumption].
      subst w. apply word_ok_app_l in Hw; [assumption|]. intros ->. rewrite HT in E2. discriminate.
    + clear E2. destruct np.
      * destruct (license_lookup T (w ++ k_orlater)) as [t|] eqn:E3.
        { eapply lookup_tok_ok; [|eassumption]. apply word_ok_app; [assumption|apply k_orlater_idchars]. }
        destruct (strip_suffix k_orlater w) as [adj2|] eqn:ES2.
        { destruct (license_lookup T adj2) as [t|] eqn:E4.
          - apply strip_suffix_spec in ES2. eapply lookup_tok_ok; [|eassumption].
            subst w. apply word_ok_app_l in Hw; [assumption|]. intros ->. rewrite HT in E4. discriminate.
          - destruct (deprecated_lookup T w) as [t|] eqn:E5; [eapply deprecated_tok_ok; eassumption|exact I]. }
        destruct (deprecated_lookup T w) as [t|] eqn:E5; [eapply deprecated_tok_ok; eassumption|exact I].
      * destruct (strip_suffix k_orlater w) as [adj2|] eqn:ES2.
        { destruct (license_lookup T adj2) as [t|] eqn:E4.
          - apply strip_suffix_spec in ES2. eapply lookup_tok_ok; [|eassumption].
            subst w. apply word_ok_app_l in Hw; [assumption|]. intros ->. rewrite HT in E4. discriminate.
          - destruct (deprecated_lookup T w) as [t|] eqn:E5; [eapply deprecated_tok_ok; eassumption|exact I]. }
        destruct (deprecated_lookup T w) as [t|] eqn:E5; [eapply deprecated_tok_ok; eassumption|exact I].
  - destruct np.
    + destruct (license_lookup T (w ++ k_orlater)) as [t|] eqn:E3.
      { eapply lookup_tok_ok; [|eassumption]. apply word_ok_app; [assumption|apply k_orlater_idchars]. }
      destruct (strip_suffix k_orlater w) as [adj2|] eqn:ES2.
      { destruct (license_lookup T adj2) as [t|] eqn:E4.
        - apply strip_suffix_spec in ES2. eapply lookup_tok_ok; [|eassumption].
          subst w. apply word_ok_app_l in Hw; [assumption|]. intros ->. rewrite HT in E4. discriminate.
        - destruct (deprecated_lookup T w) as [t|] eqn:E5; [eapply deprecated_tok_ok; eassumption|exact I]. }
      destruct (deprecated_lookup T w) as [t|] eqn:E5; [eapply deprecated_tok_ok; eassumption|exact I].
    + destruct (strip_suffix k_orlater w) as [adj2|] eqn:ES2.
      { destruct (license_lookup T adj2) as [t|] eqn:E4.
        - apply strip_suffix_spec in ES2. eapply lookup_tok_ok; [|eassumption].
          subst w. apply word_ok_app_l in Hw; [assumption|]. intros ->. rewrite HT in E4. discriminate.
        - destruct (deprecated_lookup T w) as [t|] eqn:E5; [eapply deprecated_tok_ok; eassumption|exact I]. }
      destruct (deprecated_lookup T w) as [t|] eqn:E5; [eapply deprecated_tok_ok; eassumption|exact I].
Qed.

Lemma span_word_ok r w rb : span is_idchar r = (w, rb) -> w <> [] -> word_ok w.
Proof. intros ES Hne. destruct (span_spec _ _ _ _ ES) as [_ [F _]]. split; assumption. Qed.

Lemma ref_item_toks_ok spaced r pos ts r2 pos2 :
  ref_item T spaced r pos = Ok (ts, r2, pos2) -> Forall (tok_ok T) ts.
Proof.
  unfold ref_item. destruct (first_op ops r) as [[[o r'] n]|].
  - intros H. assert (ts = [TOp o]) as ->.
    { destruct o; try (inversion H; reflexivity). destruct spaced; [discriminate|inversion H; reflexivity]. }
    repeat constructor.
  - destruct (strip_prefix k_docref r) as [ra|].
    + destruct (span is_idchar ra) as [id rb] eqn:ES. destruct id as [|i0 id']; [discriminate|].
      intros H; inversion H; subst. constructor; [|constructor]. simpl. eapply span_word_ok; [eassumption|discriminate].
    + destruct (strip_prefix k_licref r) as [ra|].
      * destruct (span is_idchar ra) as [id rb] eqn:ES. destruct id as [|i0 id']; [discriminate|].
        intros H; inversion H; subst. constructor; [|constructor]. simpl. eapply span_word_ok; [eassumption|discriminate].
      * destruct (span is_idchar r) as [w rb] eqn:ES. destruct w as [|w0 w']; [discriminate|].
        assert (Hw : word_ok (w0 :: w')) by (eapply span_word_ok; [eassumption|discriminate]).
        pose proof (classify_tok_ok (w0 :: w') (next_is_plus rb) Hw) as HC.
        destruct (classify T (w0 :: w') (next_is_plus rb)) as [t|t|t|]; intros H; inversion H; subst;
          repeat constructor; assumption.
Qed.

Lemma ref_scan_toks_ok f : forall r pos acc ts,
  Forall (tok_ok T) acc -> ref_scan T f r pos acc = Ok ts -> Forall (tok_ok T) ts.
Proof.
  induction f as [|f IH]; intros r pos acc ts Hacc; [discriminate|].
  cbn [ref_scan]. destruct r as [|c r'].
  - intros H; inversion H; subst. apply Forall_rev. assumption.
  - destruct (span is_space (c :: r')) as [sp r1]. destruct r1 as [|c1 r1'].
    + intros H; inversion H; subst. apply Forall_rev. assumption.
    + destruct (ref_item T _ (c1 :: r1') _) as [[[ts1 r2] pos2]|e| |] eqn:ER; try discriminate.
      apply IH. apply Forall_app. split; [apply Forall_rev; eapply ref_item_toks_ok; eassumption|assumption].
Qed.

Theorem scan_toks_ok s ts : scan T s = Ok ts -> Forall (tok_ok T) ts.
Proof.
  rewrite (scan_refines T HT). unfold ref_tokens. apply ref_scan_toks_ok. constructor.
Qed.
End Inv.

(* ---- the parser turns ok tokens into ok trees ---- *)
Lemma derives_tree_ok T :
  (forall ts n, d_atom ts n -> Forall (tok_ok T) ts -> tree_ok T n) /\
  (forall ts n, d_and ts n -> Forall (tok_ok T) ts -> tree_ok T n) /\
  (forall ts n, d_expr ts n -> Forall (tok_ok T) ts -> tree_ok T n).
Proof.
  apply d_mutind.
  - intros ts t D IH F. apply IH. inversion F; subst. apply Forall_app in H2. apply H2.
  - intros x F. inversion F; subst. simpl in *. split; [assumption|exact I].
  - intros d x F. inversion F as [|? ? Hd F1]; subst. inversion F1 as [|? ? _ F2]; subst. inversion F2; subst.
    simpl in *. split; assumption.
  - intros l p e F. inversion F as [|? ? Hl F1]; subst. simpl in Hl. destruct Hl as [Hw Hin].
    simpl. split; [exact Hw|split; [exact Hin|split]].
    + destruct p; auto.
    + apply Forall_app in F1. destruct F1 as [_ Fw]. destruct e as [x|]; [|exact I].
      simpl in Fw. inversion Fw as [|? ? _ Fx]; subst. inversion Fx; subst. simpl in *. assumption.
  - intros ts t D IH F. apply IH. assumption.
  - intros ts1 t1 ts2 t2 D1 IH1 D2 IH2 F. apply Forall_app in F. destruct F as [F1 F2]. inversion F2; subst.
    simpl. split; [apply IH1|apply IH2]; assumption.
  - intros ts t D IH F. apply IH. assumption.
  - intros ts1 t1 ts2 t2 D1 IH1 D2 IH2 F. apply Forall_app in F. destruct F as [F1 F2]. inversion F2; subst.
    simpl. split; [apply IH1|apply IH2]; assumption.
Qed.

Theorem parse_tree_ok T (HT : license_lookup T [] = None) s t : parse T s = Ok t -> tree_ok T t.
Proof.
  unfold parse. destruct s as [|c s']; [discriminate|].
  destruct (scan T (c :: s')) as [ts|e| |] eqn:ES; try discriminate.
  intros HP. apply parse_sound_complete in HP.
  destruct (derives_tree_ok T) as [_ [_ H]]. eapply H; [eassumption|]. eapply scan_toks_ok; eassumption.
Qed.

(* ---- canonical spelling is injective on ok leaves ---- *)
Lemma word_split (a1 a2 s1 s2 : str) :
  Forall (fun c => is_idchar c = true) a1 -> Forall (fun c => is_idchar c = true) a2 ->
  match s1 with [] => True | c :: _ => is_idchar c = false end ->
  match s2 with [] => True | c :: _ => is_idchar c = false end ->
  a1 ++ s1 = a2 ++ s2 -> a1 = a2 /\ s1 = s2.
Proof.
  revert a2. induction a1 as [|x a1 IH]; intros a2 F1 F2 H1 H2 E.
  - destruct a2 as [|y a2]; [auto|]. simpl in E. subst s1. inversion F2 as [|? ? Hy Fy]; subst. simpl in H1. rewrite Hy in H1. discriminate.
  - destruct a2 as [|y a2].
    + simpl in E. subst s2. inversion F1 as [|? ? Hx Fx]; subst. simpl in H2. rewrite Hx in H2. discriminate.
    + simpl in E. inversion E as [[Exy E']]; subst. inversion F1 as [|? ? Hx Fx]; inversion F2 as [|? ? Hy Fy]; subst.
      destruct (IH a2 Fx Fy H1 H2 E') as [-> ->]. auto.
Qed.

Definition canon_tail (plus : bool) (exc : option str) : str :=
  (if plus then ["+"%char] else []) ++ (match exc with Some e => k_with ++ e | None => [] end).
Lemma canon_tail_head plus exc : match canon_tail plus exc with [] => True | c :: _ => is_idchar c = false end.
Proof. destruct plus, exc; simpl; try exact I; reflexivity. Qed.
Lemma canon_tail_inj p1 e1 p2 e2 : canon_tail p1 e1 = canon_tail p2 e2 -> p1 = p2 /\ e1 = e2.
Proof.
  unfold canon_tail. destruct p1, p2, e1 as [x|], e2 as [y|]; simpl; intros H; try discriminate; auto;
    inversion H; subst; auto.
Qed.

Lemma prefix_in_word (k : str) : forall (l tl rest : str),
  Forall (fun c => is_idchar c = true) k ->
  match tl with [] => True | c :: _ => is_idchar c = false end ->
  l ++ tl = k ++ rest -> exists l', l = k ++ l'.
Proof.
  induction k as [|x k IH]; intros l tl rest Fk Htl E; [exists l; reflexivity|].
  inversion Fk as [|? ? Hx Fk']; subst.
  destruct l as [|y l].
  - simpl in E. subst tl. simpl in Htl. rewrite Hx in Htl. discriminate.
  - simpl in E. inversion E as [[Exy E']]; subst. destruct (IH l tl rest Fk' Htl E') as [l' ->]. exists l'. reflexivity.
Qed.
Lemma k_docref_idchars : Forall (fun c => is_idchar c = true) k_docref. Proof. repeat constructor. Qed.
Lemma k_licref_idchars : Forall (fun c => is_idchar c = true) k_licref. Proof. repeat constructor. Qed.

Lemma lic_canon_not_ref l p e d r :
  no_ref_prefix l ->
  l ++ canon_tail p e = (match d with Some x => k_docref ++ x ++ [":"%char] | None => [] end) ++ k_licref ++ r -> False.
Proof.
  intros [NL ND] H. destruct d as [x|].
  - rewrite <- app_assoc in H. destruct (prefix_in_word _ _ _ _ k_docref_idchars (canon_tail_head p e) H) as [l' ->].
    rewrite strip_prefix_app in ND. discriminate.
  - simpl in H. destruct (prefix_in_word _ _ _ _ k_licref_idchars (canon_tail_head p e) H) as [l' ->].
    rewrite strip_prefix_app in NL. discriminate.
Qed.

Lemma Some_inj {A} (a b : A) : Some a = Some b -> a = b. Proof. intros H; inversion H; reflexivity. Qed.

Lemma canon_inj T a b (Ha : leaf_ok T a) (Hb : leaf_ok T b)
  (Hnr : forall l, In l (lic_ids T) -> no_ref_prefix l) : canon a = canon b -> a = b.
Proof.
  destruct a as [l1 p1 e1|d1 r1| |]; try contradiction; destruct b as [l2 p2 e2|d2 r2| |]; try contradiction; cbn [canon].
  - intros H. apply Some_inj in H. rename H into H1. destruct Ha as [[_ F1] _]. destruct Hb as [[_ F2] _].
    change (l1 ++ canon_tail p1 e1 = l2 ++ canon_tail p2 e2) in H1.
    destruct (word_split _ _ _ _ F1 F2 (canon_tail_head _ _) (canon_tail_head _ _) H1) as [-> Ht].
    apply canon_tail_inj in Ht. destruct Ht as [-> ->]. reflexivity.
  - intros H. exfalso. apply Some_inj in H. rename H into H1. destruct Ha as [_ [Hin _]].
    eapply (lic_canon_not_ref l1 p1 e1 d2 r2); [apply Hnr; assumption|exact H1].
  - intros H. exfalso. apply Some_inj in H. rename H into H1. destruct Hb as [_ [Hin _]].
    eapply (lic_canon_not_ref l2 p2 e2 d1 r1); [apply Hnr; assumption|symmetry; exact H1].
  - (* reference vs reference *)
    intros H. apply Some_inj in H. rename H into H1. destruct Ha as [[_ Fr1] Hd1]. destruct Hb as [[_ Fr2] Hd2].
    destruct d1 as [x|], d2 as [y|].
    + rewrite <- !app_assoc in H1. apply app_inv_head in H1.
      destruct Hd1 as [_ Fx]. destruct Hd2 as [_ Fy].
      assert (Hc : forall s : str, match [":"%char] ++ s with [] => True | c :: _ => is_idchar c = false end) by (intros; reflexivity).
      destruct (word_split x y ([":"%char] ++ k_licref ++ r1) ([":"%char] ++ k_licref ++ r2) Fx Fy (Hc (k_licref ++ r1)) (Hc (k_licref ++ r2)) H1) as [-> Ht].
      apply app_inv_head in Ht. apply app_inv_head in Ht. subst. reflexivity.
    + exfalso. rewrite <- !app_assoc in H1. simpl in H1. unfold k_docref, k_licref in H1. simpl in H1. discriminate.
    + exfalso. rewrite <- !app_assoc in H1. simpl in H1. unfold k_docref, k_licref in H1. simpl in H1. discriminate.
    + cbn [app] in H1. apply app_inv_head in H1. subst. reflexivity.
Qed.
