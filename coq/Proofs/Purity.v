(* C13, the part a model can carry: results are a function of the call alone; arguments come back unchanged. *)
From Spdx Require Import Model.ApiHist.
Local Open Scope list_scope.

Theorem run_keeps_arguments T c : snd (run T c) = c.
Proof. destruct c; reflexivity. Qed.

(* the result of a call at any position of any history is the result of that call alone *)
Theorem history_independent T h1 c h2 : nth_error (exec T (h1 ++ c :: h2)) (length h1) = Some (run T c).
Proof.
  unfold exec. rewrite map_app. rewrite nth_error_app2; rewrite map_length; [|apply le_n].
  rewrite Nat.sub_diag. reflexivity.
Qed.
Theorem equal_calls_equal_results T h i j c r1 r2 :
  nth_error h i = Some c -> nth_error h j = Some c ->
  nth_error (exec T h) i = Some r1 -> nth_error (exec T h) j = Some r2 -> r1 = r2.
Proof.
  unfold exec. intros Hi Hj. rewrite !nth_error_map, Hi, Hj. simpl. congruence.
Qed.
(* any reordering of a workload gives every call the result it has on its own *)
Theorem reordering_irrelevant T h c : In c h -> In (run T c) (exec T h).
Proof. intros H. unfold exec. apply in_map. assumption. Qed.
