(* Lookups ignore letter case; replacing a leaf / an allowed node by one the matcher cannot tell apart changes nothing. *)
From Spdx Require Import Model.Api Spec.Eval Spec.Spellings Proofs.BytesFacts Proofs.Sat Proofs.MatchProof.
Local Open Scope list_scope.

(* ---- C09, lookup level: EqualFold lookups return the list's spelling whatever the case of the query ---- *)
Lemma in_list_fold l a b : fold_eqb a b = true -> in_list l a = in_list l b.
Proof.
  intros E. unfold in_list. induction l as [|x l IH]; [reflexivity|]. simpl.
  assert (H : fold_eqb x a = fold_eqb x b).
  { destruct (fold_eqb x a) eqn:E1; destruct (fold_eqb x b) eqn:E2; try reflexivity.
    - rewrite (fold_eqb_trans _ _ _ E1 E) in E2. discriminate.
    - rewrite fold_eqb_sym in E. rewrite (fold_eqb_trans _ _ _ E2 E) in E1. discriminate. }
  rewrite H. destruct (fold_eqb x b); [reflexivity|exact IH].
Qed.
Lemma license_lookup_fold T a b : fold_eqb a b = true -> license_lookup T a = license_lookup T b.
Proof. intros E. unfold license_lookup. rewrite (in_list_fold (active T) a b E), (in_list_fold (excs T) a b E). reflexivity. Qed.
Lemma deprecated_lookup_fold T a b : fold_eqb a b = true -> deprecated_lookup T a = deprecated_lookup T b.
Proof. intros E. unfold deprecated_lookup. rewrite (in_list_fold (deprec T) a b E). reflexivity. Qed.
(* the returned spelling is the list's own *)
Lemma in_list_returns_member l a p : in_list l a = Some p -> In p l.
Proof. unfold in_list. intros H. apply find_some in H. apply H. Qed.

(* ---- C08, tree level ---- *)
Lemma existsb_ext_compat {A} (f g : A -> bool) l : (forall c, f c = g c) -> existsb f l = existsb g l.
Proof. intros H. induction l as [|x l IH]; simpl; [reflexivity|]. rewrite H, IH. reflexivity. Qed.
Definition indistinguishable (T : tables) (a b : node) : Prop :=
  forall c, compatible T a c = compatible T b c /\ compatible T c a = compatible T c b.

Fixpoint subst_leaf (a b t : node) (eqb : node -> node -> bool) : node :=
  match t with
  | NAnd x y => NAnd (subst_leaf a b x eqb) (subst_leaf a b y eqb)
  | NOr x y => NOr (subst_leaf a b x eqb) (subst_leaf a b y eqb)
  | leaf => if eqb leaf a then b else leaf
  end.

(* replacing any occurrences of leaf a by b in the expression tree *)
Lemma satisfied_by_leaf T n N : is_leaf n = true -> satisfied_by T n N = existsb (compatible T n) N.
Proof. destruct n; try discriminate; reflexivity. Qed.

Theorem subst_in_expression T a b eqb t N :
  (forall x, eqb x a = true -> x = a) -> is_leaf b = true -> indistinguishable T a b ->
  satisfied_by T (subst_leaf a b t eqb) N = satisfied_by T t N.
Proof.
  intros He Lb Hi. induction t as [l p e|d r|x IHx y IHy|x IHx y IHy]; cbn [subst_leaf].
  - destruct (eqb (NLic l p e) a) eqn:E; [|reflexivity]. apply He in E. subst a.
    rewrite (satisfied_by_leaf T b N Lb), (satisfied_by_leaf T (NLic l p e) N eq_refl).
    apply existsb_ext_compat; intros c; symmetry; apply Hi.
  - destruct (eqb (NRef d r) a) eqn:E; [|reflexivity]. apply He in E. subst a.
    rewrite (satisfied_by_leaf T b N Lb), (satisfied_by_leaf T (NRef d r) N eq_refl).
    apply existsb_ext_compat; intros c; symmetry; apply Hi.
  - simpl. rewrite IHx, IHy. reflexivity.
  - simpl. rewrite IHx, IHy. reflexivity.
Qed.

(* replacing an allowed node by an indistinguishable one *)
Theorem subst_in_allowed T a b t N1 N2 : indistinguishable T a b ->
  satisfied_by T t (N1 ++ a :: N2) = satisfied_by T t (N1 ++ b :: N2).
Proof.
  intros Hi. rewrite !satisfied_by_eval. apply eval_ext. intros x.
  rewrite !existsb_app. simpl. destruct (Hi x) as [_ H]. rewrite H. reflexivity.
Qed.

(* soundness of the finite spelling checker, for arbitrary tables *)
Lemma chk_active_spellings_sound T : chk_active_spellings T = true -> forall x, In x (active T) ->
  exists n n1 n2, parse T x = Ok n /\ parse T (x ++ k_only) = Ok n1 /\
                  parse T (x ++ plus) = Ok n2 /\ parse T (x ++ k_orlater) = Ok n2.
Proof.
  unfold chk_active_spellings. intros H x Hin. rewrite forallb_forall in H. specialize (H x Hin).
  destruct (parse T x) as [n| | |]; try discriminate. destruct (parse T (x ++ k_only)) as [n1| | |]; try discriminate.
  destruct (parse T (x ++ plus)) as [n2| | |]; try discriminate. destruct (parse T (x ++ k_orlater)) as [n3| | |]; try discriminate.
  exists n, n1, n2. repeat split; try reflexivity.
  destruct (node_eqb_opt (Ok n2) (Ok n3)) eqn:E; [|discriminate]. clear H.
  unfold node_eqb_opt in E. destruct n2 as [l1 p1 e1| | |]; try discriminate. destruct n3 as [l2 p2 e2| | |]; try discriminate.
  destruct (str_eqb l1 l2) eqn:E1; [|discriminate]. destruct (Bool.eqb p1 p2) eqn:E2; [|discriminate].
  apply str_eqb_eq in E1. apply Bool.eqb_prop in E2. apply opt_str_eqb_eq in E. subst. reflexivity.
Qed.
