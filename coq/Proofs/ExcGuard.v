(* An exception id is accepted only directly after WITH, in any expression. *)
From Coq Require Import Lia.
From Spdx Require Import Model.Parse Spec.Grammar.
Local Open Scope list_scope.

(* every TExc token is immediately preceded by the WITH operator *)
Fixpoint guarded (prev_with : bool) (ts : list tok) : bool :=
  match ts with
  | [] => true
  | TExc _ :: r => if prev_with then guarded false r else false
  | TOp OWith :: r => guarded true r
  | _ :: r => guarded false r
  end.

Definition resets (t : tok) : bool := match t with TExc _ => false | TOp OWith => false | _ => true end.

Lemma guarded_app_sep ts1 : forall b t ts2, resets t = true ->
  guarded b (ts1 ++ t :: ts2) = if guarded b ts1 then guarded false ts2 else false.
Proof.
  induction ts1 as [|x ts1 IH]; intros b t ts2 Ht.
  - simpl. destruct t as [[]| | | |]; try discriminate; reflexivity.
  - simpl. destruct x as [[]| | | |]; try (apply IH; assumption).
    destruct b; [apply IH; assumption|reflexivity].
Qed.
Lemma guarded_app_end ts1 : forall b t, resets t = true ->
  guarded b (ts1 ++ [t]) = guarded b ts1.
Proof.
  intros b t Ht. rewrite guarded_app_sep by assumption. destruct (guarded b ts1); reflexivity.
Qed.
Definition starts_plain (ts : list tok) : Prop := match ts with TExc _ :: _ => False | TOp OWith :: _ => False | [] => False | _ => True end.
Lemma guarded_head b ts : starts_plain ts -> guarded b ts = guarded false ts.
Proof. destruct ts as [|[[]| | | |] r]; simpl; tauto || reflexivity. Qed.

Lemma derives_guarded :
  (forall ts n, d_atom ts n -> starts_plain ts /\ guarded false ts = true) /\
  (forall ts n, d_and ts n -> starts_plain ts /\ guarded false ts = true) /\
  (forall ts n, d_expr ts n -> starts_plain ts /\ guarded false ts = true).
Proof.
  apply d_mutind.
  - intros ts t D [Hs Hg]. split; [exact I|]. simpl. rewrite guarded_app_end by reflexivity. exact Hg.
  - intros x. split; [exact I|reflexivity].
  - intros d x. split; [exact I|reflexivity].
  - intros l p e. split; [exact I|]. destruct p, e; reflexivity.
  - intros ts t D IH. exact IH.
  - intros ts1 t1 ts2 t2 D1 [Hs1 Hg1] D2 [Hs2 Hg2]. split.
    + destruct ts1 as [|[[]| | | |] r]; simpl in *; tauto.
    + rewrite guarded_app_sep by reflexivity. rewrite Hg1. exact Hg2.
  - intros ts t D IH. exact IH.
  - intros ts1 t1 ts2 t2 D1 [Hs1 Hg1] D2 [Hs2 Hg2]. split.
    + destruct ts1 as [|[[]| | | |] r]; simpl in *; tauto.
    + rewrite guarded_app_sep by reflexivity. rewrite Hg1. exact Hg2.
Qed.

Theorem exception_only_after_with ts n : d_expr ts n -> guarded false ts = true.
Proof. intros D. destruct derives_guarded as [_ [_ H]]. apply (H ts n D). Qed.

(* in words: wherever an exception token occurs in an accepted token sequence, WITH is right before it *)
Lemma guarded_spec : forall ts b, guarded b ts = true ->
  forall pre e post, ts = pre ++ TExc e :: post ->
  match pre with [] => b = true | _ => exists pre', pre = pre' ++ [TOp OWith] end.
Proof.
  induction ts as [|x ts IH]; intros b H pre e post E.
  - destruct pre; discriminate.
  - destruct pre as [|y pre].
    + simpl in E. inversion E; subst. simpl in H. destruct b; [reflexivity|discriminate].
    + simpl in E. inversion E; subst. clear E.
      assert (Hx : exists b', guarded b' (pre ++ TExc e :: post) = true /\ (b' = true -> y = TOp OWith)).
      { simpl in H. destruct y as [[]| | | |]; try (exists false; split; [exact H|discriminate]).
        - exists true. split; [exact H|reflexivity].
        - destruct b; [|discriminate]. exists false. split; [exact H|discriminate]. }
      destruct Hx as [b' [Hg Hb]]. specialize (IH b' Hg pre e post eq_refl).
      destruct pre as [|z pre'].
      * exists []. simpl. rewrite (Hb IH). reflexivity.
      * destruct IH as [pre'' Hp]. exists (y :: pre''). simpl. rewrite Hp. reflexivity.
Qed.
