(* String-level consequences of compositional tokenisation: surrounding spaces and parentheses do not change
   the parse; "(E) AND (F)" / "(E) OR (F)" parse to the conjunction / disjunction of the two trees. *)
From Coq Require Import Lia.
From Spdx Require Import Model.Scan Model.Parse Spec.Lex Spec.Grammar Proofs.BytesFacts Proofs.ScanRef Proofs.Split Proofs.Lexo Proofs.ParseGrammar.
Local Open Scope list_scope.

(* an accepted token sequence starts with '(' , a reference or a license *)
Definition first_ok (ts : list tok) : Prop :=
  match ts with TOp OLp :: _ | TRef _ :: _ | TDoc _ :: _ | TLic _ :: _ => True | _ => False end.
Lemma derives_first_ok :
  (forall ts n, d_atom ts n -> first_ok ts) /\ (forall ts n, d_and ts n -> first_ok ts) /\ (forall ts n, d_expr ts n -> first_ok ts).
Proof.
  apply d_mutind; intros; simpl; auto;
    match goal with H : first_ok ?x |- first_ok (?x ++ _) => destruct x as [|[[]| | | |] ?]; simpl in *; auto end.
Qed.

Lemma oks_ok {A} (r : res A) x : oks r = Some x <-> r = Ok x.
Proof. destruct r; simpl; split; intros H; try discriminate; inversion H; reflexivity. Qed.

Section RespellT.
Variable T : tables.
Hypothesis HT : license_lookup T [] = None.

Lemma parse_lexo s t : parse T s = Ok t -> exists ts, lexo T s = Some ts /\ p_tokens ts = Ok t /\ d_expr ts t /\ s <> [].
Proof.
  intros H. pose proof (parse_via_lexo T HT s) as P. rewrite H in P. simpl in P.
  destruct s as [|c s']; [discriminate|]. destruct (lexo T (c :: s')) as [ts|]; [|discriminate].
  symmetry in P. apply oks_ok in P. exists ts. repeat split; try assumption; [apply parse_sound_complete; assumption|discriminate].
Qed.
Lemma lexo_parse s ts t : s <> [] -> lexo T s = Some ts -> d_expr ts t -> parse T s = Ok t.
Proof.
  intros Hne HL HD. apply oks_ok. rewrite (parse_via_lexo T HT s), HL. destruct s; [contradiction|].
  apply oks_ok. apply parse_sound_complete. assumption.
Qed.
Lemma valid_not_plus s t : parse T s = Ok t -> forall r, s <> "+"%char :: r.
Proof.
  intros H r ->. apply parse_lexo in H. destruct H as [ts [HL [_ [HD _]]]].
  rewrite (lexo_plus T HT) in HL. destruct (lexo T r); [|discriminate]. inversion HL; subst.
  destruct derives_first_ok as [_ [_ F]]. apply F in HD. exact HD.
Qed.
Lemma boundary_clean a c : is_idchar c = false -> c <> "+"%char -> boundary a c.
Proof. intros H1 H2. split; [assumption|]. intros E. contradiction. Qed.

(* trailing spaces *)
Lemma lexo_trailing s sp : Forall (fun ch => is_space ch = true) sp -> lexo T (s ++ sp) = lexo T s.
Proof.
  intros F. destruct sp as [|c sp']; [rewrite app_nil_r; reflexivity|].
  inversion F as [|? ? Hc F']; subst. unfold is_space in Hc. apply Ascii.eqb_eq in Hc. subst c.
  rewrite (lexo_app T HT s " " sp' (boundary_clean s " " eq_refl ltac:(discriminate))).
  rewrite (lexo_all_spaces T HT (" "%char :: sp') F). destruct (lexo T s); simpl; [rewrite app_nil_r|]; reflexivity.
Qed.

(* C07 / C10: surrounding spaces never change the parse *)
Theorem parse_pad s t sp1 sp2 :
  Forall (fun ch => is_space ch = true) sp1 -> Forall (fun ch => is_space ch = true) sp2 ->
  parse T s = Ok t -> parse T (sp1 ++ s ++ sp2) = Ok t.
Proof.
  intros F1 F2 H. pose proof (valid_not_plus s t H) as Hnp. destruct (parse_lexo s t H) as [ts [HL [_ [HD Hne]]]].
  apply (lexo_parse _ ts); [destruct sp1; destruct s; try contradiction; discriminate| |assumption].
  rewrite (lexo_spaces T HT sp1 (s ++ sp2) F1).
  - rewrite (lexo_trailing s sp2 F2). assumption.
  - intros r' E. destruct s as [|c s']; [contradiction|]. inversion E; subst. eapply Hnp. reflexivity.
Qed.

(* C07 / C10: redundant parentheses never change the parse *)
Theorem parse_parens s t : parse T s = Ok t -> parse T ("("%char :: s ++ [")"%char]) = Ok t.
Proof.
  intros H. destruct (parse_lexo s t H) as [ts [HL [_ [HD Hne]]]].
  apply (lexo_parse _ (TOp OLp :: ts ++ [TOp ORp])); [discriminate| |].
  - rewrite (lexo_lp T HT). rewrite (lexo_app T HT s ")" [] (boundary_clean s ")" eq_refl ltac:(discriminate))).
    rewrite HL, (lexo_rp T HT). reflexivity.
  - apply d_expr1, d_and1, d_paren. assumption.
Qed.

(* C10: "(E) AND (F)" and "(E) OR (F)" *)
Lemma lexo_and r : lexo T (s2l "AND" ++ r) = option_map (cons (TOp OAnd)) (lexo T r).
Proof.
  rewrite (lexo_unfold T), (ref_run_unfold T HT). cbn [app s2l list_ascii_of_string span is_space]. cbv iota.
  change (is_space "A") with false. cbv iota. unfold ref_item.
  change (first_op ops ("A"%char :: "N"%char :: "D"%char :: r)) with (Some (OAnd, r, 3)). cbv iota beta.
  rewrite (ref_run_oks T HT). reflexivity.
Qed.
Lemma lexo_or r : lexo T (s2l "OR" ++ r) = option_map (cons (TOp OOr)) (lexo T r).
Proof.
  rewrite (lexo_unfold T), (ref_run_unfold T HT). cbn [app s2l list_ascii_of_string span is_space]. cbv iota.
  change (is_space "O") with false. cbv iota. unfold ref_item.
  change (first_op ops ("O"%char :: "R"%char :: r)) with (Some (OOr, r, 2)). cbv iota beta.
  rewrite (ref_run_oks T HT). reflexivity.
Qed.

Lemma lexo_space_then r : (forall r', r <> "+"%char :: r') -> lexo T (" "%char :: r) = lexo T r.
Proof. intros H. apply (lexo_spaces T HT [" "%char] r); [repeat constructor|assumption]. Qed.

Lemma lexo_paren_group s ts rest : lexo T s = Some ts ->
  lexo T ("("%char :: s ++ ")"%char :: rest) = option_map (fun r => TOp OLp :: ts ++ TOp ORp :: r) (lexo T rest).
Proof.
  intros HL. rewrite (lexo_lp T HT). rewrite (lexo_app T HT s ")" rest (boundary_clean s ")" eq_refl ltac:(discriminate))).
  rewrite HL, (lexo_rp T HT). destruct (lexo T rest); reflexivity.
Qed.

Theorem parse_conj E F tE tF : parse T E = Ok tE -> parse T F = Ok tF ->
  parse T ("("%char :: E ++ s2l ") AND (" ++ F ++ [")"%char]) = Ok (NAnd tE tF) /\
  parse T ("("%char :: E ++ s2l ") OR (" ++ F ++ [")"%char]) = Ok (NOr tE tF).
Proof.
  intros HE HF. destruct (parse_lexo E tE HE) as [tsE [LE [_ [DE _]]]]. destruct (parse_lexo F tF HF) as [tsF [LF [_ [DF _]]]].
  assert (HFg : lexo T ("("%char :: F ++ [")"%char]) = Some (TOp OLp :: tsF ++ [TOp ORp])).
  { rewrite (lexo_paren_group F tsF [] LF). reflexivity. }
  split.
  - apply (lexo_parse _ (TOp OLp :: tsE ++ TOp ORp :: TOp OAnd :: TOp OLp :: tsF ++ [TOp ORp])); [discriminate| |].
    + change (s2l ") AND (" ++ F ++ [")"%char]) with (")"%char :: " "%char :: s2l "AND" ++ " "%char :: "("%char :: F ++ [")"%char]).
      rewrite (lexo_paren_group E tsE _ LE).
      rewrite (lexo_space_then (s2l "AND" ++ _)) by (intros r' E'; discriminate).
      rewrite lexo_and. rewrite (lexo_space_then ("("%char :: _)) by (intros r' E'; discriminate).
      rewrite HFg. reflexivity.
    + change (TOp OLp :: tsE ++ TOp ORp :: TOp OAnd :: TOp OLp :: tsF ++ [TOp ORp])
        with ((TOp OLp :: tsE ++ [TOp ORp]) ++ TOp OAnd :: (TOp OLp :: tsF ++ [TOp ORp])) || idtac.
      replace (TOp OLp :: tsE ++ TOp ORp :: TOp OAnd :: TOp OLp :: tsF ++ [TOp ORp])
        with ((TOp OLp :: tsE ++ [TOp ORp]) ++ TOp OAnd :: (TOp OLp :: tsF ++ [TOp ORp]))
        by (simpl; rewrite <- app_assoc; reflexivity).
      apply d_expr1. apply d_andS; [apply d_paren; assumption|apply d_and1, d_paren; assumption].
  - apply (lexo_parse _ (TOp OLp :: tsE ++ TOp ORp :: TOp OOr :: TOp OLp :: tsF ++ [TOp ORp])); [discriminate| |].
    + change (s2l ") OR (" ++ F ++ [")"%char]) with (")"%char :: " "%char :: s2l "OR" ++ " "%char :: "("%char :: F ++ [")"%char]).
      rewrite (lexo_paren_group E tsE _ LE).
      rewrite (lexo_space_then (s2l "OR" ++ _)) by (intros r' E'; discriminate).
      rewrite lexo_or. rewrite (lexo_space_then ("("%char :: _)) by (intros r' E'; discriminate).
      rewrite HFg. reflexivity.
    + replace (TOp OLp :: tsE ++ TOp ORp :: TOp OOr :: TOp OLp :: tsF ++ [TOp ORp])
        with ((TOp OLp :: tsE ++ [TOp ORp]) ++ TOp OOr :: (TOp OLp :: tsF ++ [TOp ORp]))
        by (simpl; rewrite <- app_assoc; reflexivity).
      apply d_exprS; [apply d_and1, d_paren; assumption|apply d_expr1, d_and1, d_paren; assumption].
Qed.
End RespellT.
