(* C08 for the listed -only ids (GNU families): X and X-only are different ids sitting at the same position of the
   family table; the matcher cannot tell them apart, and the parser is parametric in id texts, so replacing one by
   the other at a term position of ANY text changes neither validity nor the result of Satisfies. *)
From Coq Require Import Lia.
From Spdx Require Import Model.Api Spec.Lex Spec.Eval Spec.WF Spec.MatchSpec Spec.Units Spec.Spellings
  Proofs.BytesFacts Proofs.ScanRef Proofs.NodeInv Proofs.Sat Proofs.ApiFacts Proofs.Laws Proofs.MatchProof
  Proofs.Split Proofs.Lexo Proofs.Respell Proofs.Replace Proofs.SameParse Proofs.ParseRel Proofs.ParseGrammar Proofs.CaseFold Proofs.WFSound.
Local Open Scope list_scope.

Definition olist_rel (Rt : tok -> tok -> Prop) (a b : option (list tok)) : Prop :=
  match a, b with Some x, Some y => Forall2 Rt x y | None, None => True | _, _ => False end.

Section OP.
Variable T : tables.
Hypothesis HT : license_lookup T [] = None.
Hypothesis Hnr : forall l, In l (lic_ids T) -> no_ref_prefix l.
Hypothesis HFU : chk_fold_unique T = true.
Hypothesis HOB : chk_orlater_base_ranged T = true.
Hypothesis HOP : chk_only_pairs T = true.

Definition only_pair (x y : str) : Prop :=
  y = x ++ k_only /\ In x (lic_ids T) /\ In y (lic_ids T) /\ is_word x = true.
Definition Ro (a b : str) : Prop := a = b \/ only_pair a b \/ only_pair b a.

Lemma only_pair_facts x y : only_pair x y ->
  ends_orlater x = false /\ ends_orlater y = false /\
  (exists f i, position T x = Some (f, i) /\ position T y = Some (f, i)) /\
  lexo T x = Some [TLic x] /\ lexo T y = Some [TLic y].
Proof.
  intros [-> [Hx [Hy Hw]]]. unfold chk_only_pairs in HOP. rewrite forallb_forall in HOP. specialize (HOP x Hx).
  rewrite Hw in HOP.
  assert (E : existsb (str_eqb (x ++ k_only)) (lic_ids T) = true).
  { apply existsb_exists. exists (x ++ k_only). split; [assumption|apply str_eqb_refl]. }
  rewrite E in HOP. destruct (ends_orlater x) eqn:EO; [discriminate|].
  destruct (pos_eqb (find_row x (rngs T) 0) (find_row (x ++ k_only) (rngs T) 0)) eqn:EP; [|discriminate].
  destruct (olex_eqb (lex_of T x) (Some [TLic x])) eqn:EL1; [|discriminate].
  apply olex_eqb_eq in EL1, HOP. rewrite (lex_of_lexo T) in EL1, HOP.
  assert (EO2 : ends_orlater (x ++ k_only) = false) by (unfold ends_orlater; rewrite strip_suffix_only_orlater; reflexivity).
  repeat split; try assumption.
  unfold position, base_id. unfold ends_orlater in EO, EO2.
  destruct (strip_suffix k_orlater x); [discriminate|]. destruct (strip_suffix k_orlater (x ++ k_only)); [discriminate|].
  unfold pos_eqb in EP. destruct (find_row x (rngs T) 0) as [[f i]|]; [|discriminate].
  destruct (find_row (x ++ k_only) (rngs T) 0) as [[f' i']|]; [|discriminate].
  destruct (Nat.eqb f f') eqn:E1; [|discriminate]. apply Nat.eqb_eq in E1, EP. subst. eauto.
Qed.

Lemma Ro_refl a : Ro a a. Proof. left. reflexivity. Qed.
Lemma Ro_orlater a b : Ro a b -> ends_orlater a = ends_orlater b.
Proof.
  intros [->|[H|H]]; [reflexivity| |]; destruct (only_pair_facts _ _ H) as [E1 [E2 _]]; congruence.
Qed.
Lemma Ro_sym a b : Ro a b -> Ro b a. Proof. intros [->|[H|H]]; [left; reflexivity|right; right; assumption|right; left; assumption]. Qed.

Lemma version_rule_same p1 p2 i : version_rule p1 p2 i i.
Proof. unfold version_rule. destruct p1, p2; [right; right; right|right; left|right; right; left|left]; repeat split; lia. Qed.

Lemma base_id_plain x : ends_orlater x = false -> base_id x = x.
Proof. unfold ends_orlater, base_id. destruct (strip_suffix k_orlater x); [discriminate|reflexivity]. Qed.

(* the documented rule cannot tell the two ids of a pair apart *)
Lemma pair_term_matches x y p e c : only_pair x y ->
  (term_matches T (NLic x p e) c <-> term_matches T (NLic y p e) c).
Proof.
  intros H. destruct (only_pair_facts x y H) as [E1 [E2 [[f0 [i0 [P1 P2]]] _]]].
  destruct c as [l2 p2 e2|d r| |]; simpl; try tauto.
  assert (K : forall a b, position T a = Some (f0, i0) -> position T b = Some (f0, i0) ->
     (base_id a = base_id l2 \/ (exists f i j, position T a = Some (f, i) /\ position T l2 = Some (f, j) /\ version_rule p p2 i j)) ->
     (base_id b = base_id l2 \/ (exists f i j, position T b = Some (f, i) /\ position T l2 = Some (f, j) /\ version_rule p p2 i j))).
  { intros a b Pa Pb [Hb|[f [i [j [Ha [Hl HV]]]]]].
    - right. exists f0, i0, i0. split; [assumption|]. split; [|apply version_rule_same].
      unfold position in *. rewrite <- Hb. assumption.
    - right. exists f, i, j. rewrite Pa in Ha. rewrite Pb. auto. }
  split; intros [He Hm]; (split; [assumption|]); [apply (K x y)|apply (K y x)]; assumption.
Qed.

Lemma pair_leaf_ok x y p e : only_pair x y -> leaf_ok T (NLic x p e) -> leaf_ok T (NLic y p e).
Proof.
  intros H [Hw [_ [_ He]]]. destruct (only_pair_facts x y H) as [_ [E2 _]]. destruct H as [-> [Hx [Hy _]]].
  simpl. repeat split; try assumption.
  - destruct Hw as [Hne _]. destruct x; [contradiction|discriminate].
  - apply Forall_app. split; [apply Hw|repeat constructor].
  - intros E. congruence.
Qed.
Lemma pair_leaf_ok_rev x y p e : only_pair x y -> leaf_ok T (NLic y p e) -> leaf_ok T (NLic x p e).
Proof.
  intros H [Hw [_ [_ He]]]. destruct (only_pair_facts x y H) as [E1 _]. destruct H as [-> [Hx [Hy Hwx]]].
  simpl. repeat split; try assumption.
  - intros ->. discriminate.
  - apply is_word_spec in Hwx. apply Hwx.
  - intros E. congruence.
Qed.

(* ... hence neither can the matcher of the code, on parser output *)
Lemma Ro_compat a b p e c : Ro a b -> leaf_ok T (NLic a p e) -> leaf_ok T c ->
  compatible T (NLic a p e) c = compatible T (NLic b p e) c /\ compatible T c (NLic a p e) = compatible T c (NLic b p e).
Proof.
  intros [->|[H|H]] La Lc; [split; reflexivity| |].
  - pose proof (pair_leaf_ok a b p e H La) as Lb.
    assert (E : compatible T (NLic a p e) c = compatible T (NLic b p e) c).
    { destruct (compatible T (NLic a p e) c) eqn:E1; destruct (compatible T (NLic b p e) c) eqn:E2; try reflexivity.
      - apply (compatible_iff_term_matches T HFU HOB _ _ La Lc) in E1. apply (pair_term_matches a b p e c H) in E1.
        apply (compatible_iff_term_matches T HFU HOB _ _ Lb Lc) in E1. congruence.
      - apply (compatible_iff_term_matches T HFU HOB _ _ Lb Lc) in E2. apply (pair_term_matches a b p e c H) in E2.
        apply (compatible_iff_term_matches T HFU HOB _ _ La Lc) in E2. congruence. }
    split; [assumption|]. rewrite (compatible_sym T HFU HOB c _ Lc La), (compatible_sym T HFU HOB c _ Lc Lb). assumption.
  - pose proof (pair_leaf_ok_rev b a p e H La) as Lb.
    assert (E : compatible T (NLic a p e) c = compatible T (NLic b p e) c).
    { destruct (compatible T (NLic a p e) c) eqn:E1; destruct (compatible T (NLic b p e) c) eqn:E2; try reflexivity.
      - apply (compatible_iff_term_matches T HFU HOB _ _ La Lc) in E1. apply (pair_term_matches b a p e c H) in E1.
        apply (compatible_iff_term_matches T HFU HOB _ _ Lb Lc) in E1. congruence.
      - apply (compatible_iff_term_matches T HFU HOB _ _ Lb Lc) in E2. apply (pair_term_matches b a p e c H) in E2.
        apply (compatible_iff_term_matches T HFU HOB _ _ La Lc) in E2. congruence. }
    split; [assumption|]. rewrite (compatible_sym T HFU HOB c _ Lc La), (compatible_sym T HFU HOB c _ Lc Lb). assumption.
Qed.

Lemma existsb_ext_in {A} (f g : A -> bool) l : (forall c, In c l -> f c = g c) -> existsb f l = existsb g l.
Proof. intros H. induction l as [|x l IH]; simpl; [reflexivity|]. rewrite H by (left; reflexivity). rewrite IH; [reflexivity|]. intros c Hc. apply H. right. assumption. Qed.

(* related trees evaluate alike against any allowed nodes the parser can produce *)
Lemma satisfied_by_rel t : forall t' N, tree_rel Ro t t' -> tree_ok T t -> Forall (leaf_ok T) N ->
  satisfied_by T t N = satisfied_by T t' N.
Proof.
  induction t as [a p e|d r|x IHx y IHy|x IHx y IHy]; intros t' N HR Hok HN; destruct t' as [b p' e'|d' r'|x' y'|x' y']; simpl in HR; try contradiction.
  - destruct HR as [Hab [-> ->]]. simpl. apply existsb_ext_in. intros c Hc. rewrite Forall_forall in HN.
    apply (Ro_compat a b p' e' c Hab Hok (HN c Hc)).
  - destruct HR as [-> ->]. reflexivity.
  - destruct HR as [H1 H2]. destruct Hok as [O1 O2]. simpl. rewrite (IHx x' N H1 O1 HN), (IHy y' N H2 O2 HN). reflexivity.
  - destruct HR as [H1 H2]. destruct Hok as [O1 O2]. simpl. rewrite (IHx x' N H1 O1 HN), (IHy y' N H2 O2 HN). reflexivity.
Qed.
(* ... and as allowed nodes *)
Lemma satisfied_by_rel_allowed t : forall a b p e N1 N2, Ro a b -> tree_ok T t -> leaf_ok T (NLic a p e) ->
  satisfied_by T t (N1 ++ NLic a p e :: N2) = satisfied_by T t (N1 ++ NLic b p e :: N2).
Proof.
  induction t as [l q x|d r|x IHx y IHy|x IHx y IHy]; intros a b p e N1 N2 Hab Hok La.
  - simpl. rewrite !existsb_app. simpl. destruct (Ro_compat a b p e (NLic l q x) Hab La Hok) as [_ E]. rewrite E. reflexivity.
  - simpl. rewrite !existsb_app. simpl. reflexivity.
  - destruct Hok as [O1 O2]. simpl. rewrite (IHx a b p e N1 N2 Hab O1 La), (IHy a b p e N1 N2 Hab O2 La). reflexivity.
  - destruct Hok as [O1 O2]. simpl. rewrite (IHx a b p e N1 N2 Hab O1 La), (IHy a b p e N1 N2 Hab O2 La). reflexivity.
Qed.

(* ---- relational context lemma ---- *)
Notation tr := (tok_rel Ro).
Lemma olist_rel_map_cons t a b : olist_rel tr a b -> olist_rel tr (option_map (cons t) a) (option_map (cons t) b).
Proof. destruct a, b; simpl; auto. intros H. constructor; [apply tok_rel_refl; apply Ro_refl|assumption]. Qed.

Lemma lexo_cons_rel c r r' : is_idchar c = false -> starts_idchar r -> starts_idchar r' ->
  olist_rel tr (lexo T r) (lexo T r') -> olist_rel tr (lexo T (c :: r)) (lexo T (c :: r')).
Proof.
  intros Hc Hr Hr' HL.
  assert (Hnp : forall x, starts_idchar x -> forall x', x <> "+"%char :: x').
  { intros x Hx x' E. subst. simpl in Hx. discriminate. }
  destruct (is_space c) eqn:Es.
  { unfold is_space in Es. apply Ascii.eqb_eq in Es. subst c.
    rewrite (lexo_space_then T HT r (Hnp r Hr)), (lexo_space_then T HT r' (Hnp r' Hr')). assumption. }
  destruct (Ascii.eqb c "(") eqn:E1. { apply Ascii.eqb_eq in E1. subst. rewrite !(lexo_lp T HT). apply olist_rel_map_cons. assumption. }
  destruct (Ascii.eqb c ")") eqn:E2. { apply Ascii.eqb_eq in E2. subst. rewrite !(lexo_rp T HT). apply olist_rel_map_cons. assumption. }
  destruct (Ascii.eqb c ":") eqn:E3. { apply Ascii.eqb_eq in E3. subst. rewrite !(lexo_colon T HT). apply olist_rel_map_cons. assumption. }
  destruct (Ascii.eqb c "+") eqn:E4. { apply Ascii.eqb_eq in E4. subst. rewrite !(lexo_plus T HT). apply olist_rel_map_cons. assumption. }
  rewrite (lexo_garbage T HT c r), (lexo_garbage T HT c r'); auto. exact I.
Qed.

Theorem lexo_context_rel p w w' q :
  olist_rel tr (lexo T w) (lexo T w') -> starts_idchar w -> starts_idchar w' ->
  (q = [] \/ exists c q', q = c :: q' /\ boundary w c /\ boundary w' c) ->
  (p = [] \/ exists p' c1, p = p' ++ [c1] /\ boundary p' c1) ->
  olist_rel tr (lexo T (p ++ w ++ q)) (lexo T (p ++ w' ++ q)).
Proof.
  intros HL Hw Hw' Hq Hp.
  assert (H1 : olist_rel tr (lexo T (w ++ q)) (lexo T (w' ++ q))).
  { destruct Hq as [->|[c [q' [-> [B1 B2]]]]]; [rewrite !app_nil_r; assumption|].
    rewrite (lexo_app T HT w c q' B1), (lexo_app T HT w' c q' B2).
    destruct (lexo T w) as [t1|], (lexo T w') as [t1'|]; simpl in HL; try contradiction; [|exact I].
    destruct (lexo T (c :: q')) as [t2|]; simpl; [|exact I]. apply Forall2_app; [assumption|apply toks_rel_refl; apply Ro_refl]. }
  destruct Hp as [->|[p' [c1 [-> B]]]]; [assumption|].
  rewrite <- !app_assoc. cbn [app].
  rewrite (lexo_app T HT p' c1 (w ++ q) B), (lexo_app T HT p' c1 (w' ++ q) B).
  destruct (lexo T p') as [t0|]; [|exact I].
  assert (H2 : olist_rel tr (lexo T (c1 :: w ++ q)) (lexo T (c1 :: w' ++ q))).
  { apply lexo_cons_rel; [apply B| | |assumption].
    - destruct w; [contradiction|exact Hw].
    - destruct w'; [contradiction|exact Hw']. }
  destruct (lexo T (c1 :: w ++ q)) as [t2|], (lexo T (c1 :: w' ++ q)) as [t2'|]; simpl in H2 |- *; try contradiction; [|exact I].
  apply Forall2_app; [apply toks_rel_refl; apply Ro_refl|assumption].
Qed.

(* ---- the theorem: X and X-only at any term position of any text ---- *)
Definition context_ok (x : str) (p q : str) : Prop :=
  (q = [] \/ exists c q', q = c :: q' /\ is_idchar c = false /\ c <> "+"%char) /\
  (p = [] \/ exists p' c1, p = p' ++ [c1] /\ boundary p' c1).

Theorem only_listed_parse x y p q : only_pair x y -> context_ok x p q ->
  match parse T (p ++ x ++ q), parse T (p ++ y ++ q) with
  | Ok t, Ok t' => tree_rel Ro t t'
  | Err _, Err _ => True
  | _, _ => False
  end.
Proof.
  intros H [Hq Hp]. destruct (only_pair_facts x y H) as [_ [_ [_ [L1 L2]]]].
  destruct H as [Hy [Hx [Hy' Hw]]]. destruct (is_word_starts x Hw) as [Sx _].
  assert (Sy : starts_idchar y) by (subst y; destruct x; [contradiction|exact Sx]).
  assert (HLr : olist_rel tr (lexo T x) (lexo T y)).
  { rewrite L1, L2. simpl. constructor; [|constructor]. simpl. right. left. repeat split; assumption. }
  assert (Hq' : q = [] \/ exists c q', q = c :: q' /\ boundary x c /\ boundary y c).
  { destruct Hq as [->|[c [q' [-> [Hc Hn]]]]]; [left; reflexivity|]. right. exists c, q'. split; [reflexivity|].
    split; apply boundary_clean; assumption. }
  pose proof (lexo_context_rel p x y q HLr Sx Sy Hq' Hp) as HC.
  pose proof (parse_via_lexo T HT (p ++ x ++ q)) as P1. pose proof (parse_via_lexo T HT (p ++ y ++ q)) as P2.
  assert (N1 : p ++ x ++ q <> []) by (destruct p; [destruct x; [contradiction|discriminate]|discriminate]).
  assert (N2 : p ++ y ++ q <> []) by (destruct p; [destruct y; [contradiction|discriminate]|discriminate]).
  destruct (p ++ x ++ q) as [|c1 s1] eqn:E1; [contradiction|]. destruct (p ++ y ++ q) as [|c2 s2] eqn:E2; [contradiction|].
  destruct (parse_total T HT (c1 :: s1)) as [NP1 NF1]. destruct (parse_total T HT (c2 :: s2)) as [NP2 NF2].
  destruct (lexo T (c1 :: s1)) as [ts|], (lexo T (c2 :: s2)) as [ts'|]; simpl in HC; try contradiction.
  - pose proof (p_tokens_rel Ro Ro_orlater ts ts' HC) as PT.
    destruct (parse T (c1 :: s1)) as [t| | |], (parse T (c2 :: s2)) as [t'| | |]; try contradiction; simpl in P1, P2;
      destruct (p_tokens ts) as [u| | |], (p_tokens ts') as [u'| | |]; try discriminate; try contradiction; try exact I.
    inversion P1; inversion P2; subst. exact PT.
  - destruct (parse T (c1 :: s1)) as [t| | |], (parse T (c2 :: s2)) as [t'| | |]; try contradiction; simpl in P1, P2; try discriminate; exact I.
Qed.

(* API consequences *)
Theorem only_listed_valid x y p q : only_pair x y -> context_ok x p q -> validb T (p ++ x ++ q) = validb T (p ++ y ++ q).
Proof.
  intros H C. pose proof (only_listed_parse x y p q H C) as HP. unfold validb.
  destruct (parse T (p ++ x ++ q)), (parse T (p ++ y ++ q)); try contradiction; reflexivity.
Qed.
Theorem only_listed_expression x y p q A : only_pair x y -> context_ok x p q ->
  obs (satisfies T (p ++ x ++ q) A) = obs (satisfies T (p ++ y ++ q) A).
Proof.
  intros H C. pose proof (only_listed_parse x y p q H C) as HP.
  destruct (parse T (p ++ x ++ q)) as [t|e1| |] eqn:P1, (parse T (p ++ y ++ q)) as [t'|e2| |] eqn:P2; try contradiction.
  - destruct (obs (satisfies T (p ++ x ++ q) A)) as [b|] eqn:E.
    + assert (HS : exists b', satisfies T (p ++ x ++ q) A = Ok b').
      { destruct (satisfies T (p ++ x ++ q) A) as [b'| | |]; try discriminate. eauto. }
      destruct HS as [b' HS]. apply (satisfies_entries T HT) in HS. destruct HS as [HA [HF _]].
      rewrite <- E.
      rewrite (satisfies_closed T HT Hnr _ t' A P2 HA HF), (satisfies_closed T HT Hnr _ t A P1 HA HF). simpl. f_equal.
      rewrite <- !satisfied_by_eval. apply satisfied_by_rel; [assumption|apply (parse_tree_ok T HT _ _ P1)|].
      apply (parsed_leaves_ok T HT A). apply entries_forall2. assumption.
    + symmetry. apply (satisfies_err_iff T HT). apply (satisfies_err_iff T HT) in E. destruct E as [E|E]; [|right; assumption].
      unfold validb in E. rewrite P1 in E. discriminate.
  - unfold satisfies. rewrite P1, P2. reflexivity.
Qed.

(* as an allowed entry: a single term X [WITH e] against X-only [WITH e] *)
Theorem only_listed_allowed x y q e A1 A2 : only_pair x y -> context_ok x [] q ->
  obs (satisfies T e (A1 ++ (x ++ q) :: A2)) = obs (satisfies T e (A1 ++ (y ++ q) :: A2)).
Proof.
  intros H C. pose proof (only_listed_parse x y [] q H C) as HP. cbn [app] in HP.
  set (s := x ++ q) in *. set (s' := y ++ q) in *.
  assert (Hleaf : forall n n', tree_rel Ro n n' -> is_leaf n = is_leaf n').
  { intros n n' Hr. destruct n, n'; simpl in Hr; try contradiction; reflexivity. }
  assert (Hent : entry_ok T s <-> entry_ok T s').
  { split; intros [n [Hn Ln]].
    - rewrite Hn in HP. destruct (parse T s') as [n'| | |] eqn:E'; try contradiction. exists n'. split; [exact E'|].
      rewrite <- (Hleaf n n' HP). assumption.
    - rewrite Hn in HP. destruct (parse T s) as [n'| | |] eqn:E'; try contradiction. exists n'. split; [exact E'|].
      rewrite (Hleaf n' n HP). assumption. }
  assert (HFiff : Forall (entry_ok T) (A1 ++ s :: A2) <-> Forall (entry_ok T) (A1 ++ s' :: A2)).
  { rewrite !Forall_app. split; intros [F1 F2]; (split; [assumption|]); inversion F2; subst; constructor; try assumption; apply Hent; assumption. }
  destruct (obs (satisfies T e (A1 ++ s :: A2))) as [b|] eqn:E.
  - assert (HS : exists b', satisfies T e (A1 ++ s :: A2) = Ok b').
    { destruct (satisfies T e (A1 ++ s :: A2)) as [b'| | |]; try discriminate. eauto. }
    destruct HS as [b' HS]. apply (satisfies_entries T HT) in HS. destruct HS as [HA [HF [t Ht]]].
    rewrite <- E.
    rewrite (satisfies_closed T HT Hnr e t _ Ht HA HF).
    rewrite (satisfies_closed T HT Hnr e t (A1 ++ s' :: A2) Ht ltac:(destruct A1; discriminate) (proj1 HFiff HF)).
    simpl. f_equal. rewrite <- !satisfied_by_eval. rewrite !map_app. cbn [map].
    assert (Es : entry_ok T s) by (apply Forall_app in HF; destruct HF as [_ F2]; inversion F2; assumption).
    destruct Es as [n [Hn Ln]]. rewrite Hn in HP. destruct (parse T s') as [n'| | |] eqn:En'; try contradiction.
    assert (Q1 : pn T s = n) by (unfold pn; rewrite Hn; reflexivity).
    assert (Q2 : pn T s' = n') by (unfold pn; rewrite En'; reflexivity).
    rewrite Q1, Q2.
    destruct n as [a pa ea| | |]; try discriminate; destruct n' as [b0 pb eb| | |]; simpl in HP; try contradiction.
    + destruct HP as [Hab [-> ->]]. apply satisfied_by_rel_allowed; [assumption|apply (parse_tree_ok T HT _ _ Ht)|].
      pose proof (parse_tree_ok T HT _ _ Hn) as K. exact K.
    + destruct HP as [-> ->]. reflexivity.
  - symmetry. apply (satisfies_err_iff T HT). apply (satisfies_err_iff T HT) in E. destruct E as [E|[E|E]]; auto.
    + destruct A1; discriminate.
    + right. right. intros F. apply E. apply HFiff. assumption.
Qed.
End OP.
