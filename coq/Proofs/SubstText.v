(* The substitution theorem of Proofs/Subst.v on the caller's text: an operand w that reads as a unit between p and q
   may be written ( w ) - same tree, hence same verdict of Satisfies and same result of ExtractLicenses. *)
From Coq Require Import Lia.
From Spdx Require Import Model.Scan Model.Parse Spec.Lex Spec.Grammar Proofs.BytesFacts Proofs.ScanRef Proofs.Split Proofs.Lexo
  Proofs.ParseGrammar Proofs.Respell Proofs.Subst.
Local Open Scope list_scope.

Lemma tsubst_fresh z u ts : forallb (fun tk => negb (is_marker z tk)) ts = true -> tsubst z u ts = ts.
Proof.
  induction ts as [|tk r IH]; [reflexivity|]. cbn [forallb]. intros H. apply andb_prop in H. destruct H as [H1 H2].
  rewrite tsubst_cons_other; [rewrite (IH H2); reflexivity|]. destruct (is_marker z tk); [discriminate|reflexivity].
Qed.
Lemma tsubst_hole z u tp tq :
  forallb (fun tk => negb (is_marker z tk)) tp = true -> forallb (fun tk => negb (is_marker z tk)) tq = true ->
  tsubst z u (tp ++ TRef z :: tq) = tp ++ u ++ tq.
Proof.
  intros Hp Hq. rewrite tsubst_app, (tsubst_fresh z u tp Hp). unfold tsubst at 1. cbn [flat_map is_marker].
  rewrite (str_eqb_refl z). fold (tsubst z u tq). rewrite (tsubst_fresh z u tq Hq). reflexivity.
Qed.

Section SubstTextT.
Variable T : tables.
Hypothesis HT : license_lookup T [] = None.

(* the tokens of  p ( w ) q  are those of p, "(", those of w, ")", those of q - whatever p, w and q are *)
Lemma lexo_wrapped p w q tp tw tq : lexo T p = Some tp -> lexo T w = Some tw -> lexo T q = Some tq ->
  lexo T (p ++ "("%char :: w ++ ")"%char :: q) = Some (tp ++ TOp OLp :: tw ++ TOp ORp :: tq).
Proof.
  intros Hp Hw Hq.
  rewrite (lexo_app T HT p "(" (w ++ ")"%char :: q) (boundary_clean p "(" eq_refl ltac:(discriminate))).
  rewrite Hp, (lexo_paren_group T HT w tw q Hw), Hq. reflexivity.
Qed.

(* z: any reference name that does not occur in p or q; "LicenseRef-z is a valid operand between p and q" is what it
   means for w to stand at an operand position *)
Theorem parens_redundant_text p w q tp tw tq z t a :
  lexo T p = Some tp -> lexo T w = Some tw -> lexo T q = Some tq ->
  lexo T (p ++ w ++ q) = Some (tp ++ tw ++ tq) ->
  forallb (fun tk => negb (is_marker z tk)) tp = true -> forallb (fun tk => negb (is_marker z tk)) tq = true ->
  p_tokens (tp ++ TRef z :: tq) = Ok t -> nodoc z t = true -> d_atom tw a -> w <> [] ->
  parse T (p ++ w ++ q) = Ok (nsubst z a t) /\ parse T (p ++ "("%char :: w ++ ")"%char :: q) = Ok (nsubst z a t).
Proof.
  intros Hp Hw Hq Hplain Fp Fq HC Hn Ha Hne.
  pose proof (parse_subst _ t z tw a HC Hn Ha) as P1. rewrite (tsubst_hole z tw tp tq Fp Fq) in P1.
  assert (Ha' : d_atom (TOp OLp :: tw ++ [TOp ORp]) a) by (apply d_paren, d_expr1, d_and1; exact Ha).
  pose proof (parse_subst _ t z _ a HC Hn Ha') as P2. rewrite (tsubst_hole z _ tp tq Fp Fq) in P2.
  cbn [app] in P2. rewrite <- app_assoc in P2. cbn [app] in P2.
  split.
  - apply (lexo_parse T HT _ (tp ++ tw ++ tq)); [|exact Hplain|apply parse_sound_complete; exact P1].
    destruct p; [destruct w; [contradiction|discriminate]|discriminate].
  - apply (lexo_parse T HT _ (tp ++ TOp OLp :: tw ++ TOp ORp :: tq));
      [destruct p; discriminate|apply lexo_wrapped; assumption|apply parse_sound_complete; exact P2].
Qed.
End SubstTextT.
