(* The substitution theorem of Proofs/Subst.v on the caller's text: an operand w that reads as a unit between p and q
   may be written ( w ) - same tree, hence same verdict of Satisfies and same result of ExtractLicenses. *)
From Coq Require Import Lia.
From Spdx Require Import Model.Scan Model.Parse Spec.Lex Spec.Grammar Proofs.BytesFacts Proofs.ScanRef Proofs.Split Proofs.Lexo
  Proofs.ParseGrammar Proofs.Respell Proofs.Subst.
Local Open Scope list_scope.

Lemma tsubst_fresh z u ts : forallb (fun tk => negb (is_marker z tk)) ts = true -> tsubst z u ts = ts.
Proof.
  induction ts as [|tk r IH]; [reflexivity|]. cbn [forallb]. intros H. apply andb_prop in H. destruct H as [H1 H2].
  rewrite tsubst_cons_other; [rewrite (IH H2); reflexivity|]. destruct (is_marker z tk); [discriminate|reflexivity].
Qed.
Lemma tsubst_hole z u tp tq :
  forallb (fun tk => negb (is_marker z tk)) tp = true -> forallb (fun tk => negb (is_marker z tk)) tq = true ->
  tsubst z u (tp ++ TRef z :: tq) = tp ++ u ++ tq.
Proof.
  intros Hp Hq. rewrite tsubst_app, (tsubst_fresh z u tp Hp). unfold tsubst at 1. cbn [flat_map is_marker].
  rewrite (str_eqb_refl z). fold (tsubst z u tq). rewrite (tsubst_fresh z u tq Hq). reflexivity.
Qed.

Section SubstTextT.
Variable T : tables.
Hypothesis HT : license_lookup T [] = None.

(* the tokens of  p ( w ) q  are those of p, "(", those of w, ")", those of q - whatever p, w and q are *)
Lemma lexo_wrapped p w q tp tw tq : lexo T p = Some tp -> lexo T w = Some tw -> lexo T q = Some tq ->
  lexo T (p ++ "("%char :: w ++ ")"%char :: q) = Some (tp ++ TOp OLp :: tw ++ TOp ORp :: tq).
Proof.
  intros Hp Hw Hq.
  rewrite (lexo_app T HT p "(" (w ++ ")"%char :: q) (boundary_clean p "(" eq_refl ltac:(discriminate))).
  rewrite Hp, (lexo_paren_group T HT w tw q Hw), Hq. reflexivity.
Qed.

(* z: any reference name that does not occur in p or q; "LicenseRef-z is a valid operand between p and q" is what it
   means for w to stand at an operand position *)
Theorem parens_redundant_text p w q tp tw tq z t a :
  lexo T p = Some tp -> lexo T w = Some tw -> lexo T q = Some tq ->
  lexo T (p ++ w ++ q) = Some (tp ++ tw ++ tq) ->
  forallb (fun tk => negb (is_marker z tk)) tp = true -> forallb (fun tk => negb (is_marker z tk)) tq = true ->
  p_tokens (tp ++ TRef z :: tq) = Ok t -> nodoc z t = true -> d_atom tw a -> w <> [] ->
  parse T (p ++ w ++ q) = Ok (nsubst z a t) /\ parse T (p ++ "("%char :: w ++ ")"%char :: q) = Ok (nsubst z a t).
Proof.
  intros Hp Hw Hq Hplain Fp Fq HC Hn Ha Hne.
  pose proof (parse_subst _ t z tw a HC Hn Ha) as P1. rewrite (tsubst_hole z tw tp tq Fp Fq) in P1.
  assert (Ha' : d_atom (TOp OLp :: tw ++ [TOp ORp]) a) by (apply d_paren, d_expr1, d_and1; exact Ha).
  pose proof (parse_subst _ t z _ a HC Hn Ha') as P2. rewrite (tsubst_hole z _ tp tq Fp Fq) in P2.
  cbn [app] in P2. rewrite <- app_assoc in P2. cbn [app] in P2.
  split.
  - apply (lexo_parse T HT _ (tp ++ tw ++ tq)); [|exact Hplain|apply parse_sound_complete; exact P1].
    destruct p; [destruct w; [contradiction|discriminate]|discriminate].
  - apply (lexo_parse T HT _ (tp ++ TOp OLp :: tw ++ TOp ORp :: tq));
      [destruct p; discriminate|apply lexo_wrapped; assumption|apply parse_sound_complete; exact P2].
Qed.
(* an operand preceded by a space or "(" and followed by nothing, a space or ")" reads as a unit *)
Lemma reads_as_unit p' c1 w q tp tw tq :
  (c1 = " "%char \/ c1 = "("%char) -> (forall r, w <> "+"%char :: r) ->
  (q = [] \/ exists c q', q = c :: q' /\ (c = " "%char \/ c = ")"%char)) ->
  lexo T (p' ++ [c1]) = Some tp -> lexo T w = Some tw -> lexo T q = Some tq ->
  lexo T ((p' ++ [c1]) ++ w ++ q) = Some (tp ++ tw ++ tq).
Proof.
  intros Hc Hw Hq Hp Lw Lq.
  assert (B1 : boundary p' c1) by (destruct Hc as [-> | ->]; apply boundary_clean; [reflexivity|discriminate|reflexivity|discriminate]).
  assert (Hwq : lexo T (w ++ q) = Some (tw ++ tq)).
  { destruct Hq as [-> | [c [q' [-> Hcq]]]].
    - rewrite app_nil_r, Lw. unfold lexo in Lq. cbn in Lq. inversion Lq. rewrite app_nil_r. reflexivity.
    - assert (B2 : boundary w c) by (destruct Hcq as [-> | ->]; apply boundary_clean; [reflexivity|discriminate|reflexivity|discriminate]).
      rewrite (lexo_app T HT w c q' B2), Lw, Lq. reflexivity. }
  assert (Hwq' : forall r, w ++ q <> "+"%char :: r).
  { intros r E. destruct w as [|x w']; [|inversion E; subst; exact (Hw w' eq_refl)].
    unfold lexo in Lw. cbn in Lw. cbn in E.
    destruct Hq as [-> | [c [q' [-> [-> | ->]]]]]; discriminate. }
  rewrite <- app_assoc. cbn [app].
  rewrite (lexo_app T HT p' c1 (w ++ q) B1).
  rewrite (lexo_app T HT p' c1 [] B1) in Hp.
  destruct (lexo T p') as [t1|]; [|discriminate]. cbn [option_map] in *.
  destruct Hc as [-> | ->].
  - rewrite (lexo_space_then T HT (w ++ q) Hwq'), Hwq. cbn [option_map].
    rewrite (lexo_space_then T HT []) in Hp by (intros r E; discriminate). cbn in Hp. inversion Hp; subst.
    rewrite app_nil_r. reflexivity.
  - rewrite (lexo_lp T HT), Hwq. cbn [option_map].
    rewrite (lexo_lp T HT) in Hp. cbn in Hp. inversion Hp; subst. rewrite <- app_assoc. reflexivity.
Qed.

(* ... so for an operand delimited that way no tokenisation hypothesis about the whole text is left *)
Theorem parens_redundant_delimited p' c1 w q tp tw tq z t a :
  (c1 = " "%char \/ c1 = "("%char) -> (forall r, w <> "+"%char :: r) ->
  (q = [] \/ exists c q', q = c :: q' /\ (c = " "%char \/ c = ")"%char)) ->
  lexo T (p' ++ [c1]) = Some tp -> lexo T w = Some tw -> lexo T q = Some tq ->
  forallb (fun tk => negb (is_marker z tk)) tp = true -> forallb (fun tk => negb (is_marker z tk)) tq = true ->
  p_tokens (tp ++ TRef z :: tq) = Ok t -> nodoc z t = true -> d_atom tw a -> w <> [] ->
  parse T ((p' ++ [c1]) ++ w ++ q) = Ok (nsubst z a t) /\
  parse T ((p' ++ [c1]) ++ "("%char :: w ++ ")"%char :: q) = Ok (nsubst z a t).
Proof.
  intros Hc Hw Hq Lp Lw Lq Fp Fq HC Hn Ha Hne.
  apply (parens_redundant_text (p' ++ [c1]) w q tp tw tq z t a); try assumption.
  apply reads_as_unit; assumption.
Qed.
End SubstTextT.
