(* C09 in every context: a case variant of a listed id - alone, or carrying an exact -only / -or-later suffix
   and/or a '+' - produces the same tokens as the list-cased spelling, wherever it stands in a text. *)
From Coq Require Import Lia.
From Spdx Require Import Model.Api Spec.Lex Spec.WF Spec.Units Spec.Spellings Proofs.BytesFacts Proofs.ScanRef Proofs.Split Proofs.Lexo
  Proofs.Respell Proofs.Replace Proofs.Congruence Proofs.NodeInv Proofs.WFSound Proofs.SameParse.
Local Open Scope list_scope.

Lemma fold_eqb_split a1 : forall a2 X, fold_eqb (a1 ++ a2) X = true ->
  fold_eqb a1 (firstn (length a1) X) = true /\ fold_eqb a2 (skipn (length a1) X) = true.
Proof.
  induction a1 as [|x a1 IH]; intros a2 X H; simpl in *; [auto|].
  destruct X as [|y X]; [discriminate|]. destruct (Ascii.eqb (lower x) (lower y)); [|discriminate]. apply IH. assumption.
Qed.
Lemma fold_eqb_same_tail a b s : length a = length b -> fold_eqb (a ++ s) (b ++ s) = fold_eqb a b.
Proof. intros H. rewrite (fold_eqb_app a b s s H), fold_eqb_refl. destruct (fold_eqb a b); reflexivity. Qed.

Lemma strip_suffix_only_orlater x : strip_suffix k_orlater (x ++ k_only) = None.
Proof. unfold strip_suffix. rewrite !frev_rev, rev_app_distr. reflexivity. Qed.
Lemma strip_suffix_orlater_only x : strip_suffix k_only (x ++ k_orlater) = None.
Proof. unfold strip_suffix. rewrite !frev_rev, rev_app_distr. reflexivity. Qed.

Section CF.
Variable T : tables.
Hypothesis HT : license_lookup T [] = None.
Hypothesis HKW : chk_no_keyword_prefix T = true.
Hypothesis HCS : chk_case_safe T = true.

(* stripping an exact suffix from a variant finds nothing when rule 1 does not fire for the listed id *)
Lemma variant_suffix_safe S b X adj : In S [k_only; k_orlater] -> In X (all_ids T) -> fold_eqb b X = true ->
  license_lookup T X = None -> strip_suffix S b = Some adj -> license_lookup T adj = None.
Proof.
  intros HS Hin HF HL1 HSS. apply strip_suffix_spec in HSS. subst b.
  unfold chk_case_safe in HCS. rewrite forallb_forall in HCS. specialize (HCS X Hin).
  destruct (fold_eqb X (s2l "LicenseRef")); [discriminate|]. destruct (fold_eqb X (s2l "DocumentRef")); [discriminate|].
  rewrite HL1 in HCS. cbn [is_none] in HCS. rewrite forallb_forall in HCS. specialize (HCS S HS).
  destruct (fold_eqb_split adj S X HF) as [F1 F2].
  assert (Hlen : length X = length adj + length S) by (apply fold_eqb_length in HF; rewrite app_length in HF; lia).
  unfold fold_strip_suffix in HCS.
  replace (Nat.leb (length S) (length X)) with true in HCS by (symmetry; apply Nat.leb_le; lia).
  replace (length X - length S) with (length adj) in HCS by lia.
  rewrite fold_eqb_sym in F2. rewrite F2 in HCS.
  destruct (license_lookup T (firstn (length adj) X)) eqn:E; [discriminate|].
  rewrite (license_lookup_fold T adj (firstn (length adj) X) F1). assumption.
Qed.

Definition sfx_ok (sfx : str) : Prop := sfx = [] \/ sfx = k_only \/ sfx = k_orlater.

(* the decision of normalizeLicense is the same for the variant and for the list-cased id *)
Lemma classify_variant b X sfx np : In X (all_ids T) -> fold_eqb b X = true -> sfx_ok sfx ->
  classify T (b ++ sfx) np = classify T (X ++ sfx) np.
Proof.
  intros Hin HF Hs. assert (Hlen : length b = length X) by (apply fold_eqb_length; assumption).
  assert (HFs : forall s, fold_eqb (b ++ s) (X ++ s) = true) by (intros s; rewrite fold_eqb_same_tail; assumption).
  unfold classify.
  rewrite (license_lookup_fold T (b ++ sfx) (X ++ sfx) (HFs sfx)).
  destruct (license_lookup T (X ++ sfx)) as [t|] eqn:E1; [reflexivity|].
  rewrite (license_lookup_fold T ((b ++ sfx) ++ k_orlater) ((X ++ sfx) ++ k_orlater))
    by (rewrite <- !app_assoc; apply HFs).
  rewrite (deprecated_lookup_fold T (b ++ sfx) (X ++ sfx) (HFs sfx)).
  assert (R2 : match strip_suffix k_only (b ++ sfx) with Some adj => license_lookup T adj | None => None end =
               match strip_suffix k_only (X ++ sfx) with Some adj => license_lookup T adj | None => None end).
  { destruct Hs as [Hs|[Hs|Hs]]; subst sfx.
    - rewrite !app_nil_r in *.
      assert (K : forall y, fold_eqb y X = true -> match strip_suffix k_only y with Some adj => license_lookup T adj | None => None end = None).
      { intros y Hy. destruct (strip_suffix k_only y) as [adj|] eqn:ES; [|reflexivity].
        apply (variant_suffix_safe k_only y X adj); auto. left. reflexivity. }
      rewrite (K b HF), (K X (fold_eqb_refl X)). reflexivity.
    - rewrite !strip_suffix_app. apply license_lookup_fold. assumption.
    - rewrite !strip_suffix_orlater_only. reflexivity. }
  assert (R4 : match strip_suffix k_orlater (b ++ sfx) with Some adj => license_lookup T adj | None => None end =
               match strip_suffix k_orlater (X ++ sfx) with Some adj => license_lookup T adj | None => None end).
  { destruct Hs as [Hs|[Hs|Hs]]; subst sfx.
    - rewrite !app_nil_r in *.
      assert (K : forall y, fold_eqb y X = true -> match strip_suffix k_orlater y with Some adj => license_lookup T adj | None => None end = None).
      { intros y Hy. destruct (strip_suffix k_orlater y) as [adj|] eqn:ES; [|reflexivity].
        apply (variant_suffix_safe k_orlater y X adj); auto. right. left. reflexivity. }
      rewrite (K b HF), (K X (fold_eqb_refl X)). reflexivity.
    - rewrite !strip_suffix_only_orlater. reflexivity.
    - rewrite !strip_suffix_app. apply license_lookup_fold. assumption. }
  rewrite R2, R4. reflexivity.
Qed.

(* a variant of a listed id does not start with an operator keyword or a Ref prefix, whatever follows it *)
Definition follows_ok (s : str) : Prop := match s with [] => True | c :: _ => c = "-"%char \/ is_idchar c = false end.

Lemma strip_prefix_fold_prefix kw : forall y r, strip_prefix kw y = Some r -> fold_prefix kw y = true.
Proof. exact (fold_prefix_of_strip kw). Qed.
Lemma fold_prefix_trans kw : forall b X, fold_prefix kw b = true -> fold_eqb b X = true -> fold_prefix kw X = true.
Proof.
  induction kw as [|k kw IH]; intros b X H1 H2; [reflexivity|].
  destruct b as [|y b]; [discriminate|]. destruct X as [|z X]; [discriminate|]. simpl in *.
  destruct (Ascii.eqb (lower k) (lower y)) eqn:E1; [|discriminate].
  destruct (Ascii.eqb (lower y) (lower z)) eqn:E2; [|discriminate].
  apply Ascii.eqb_eq in E1, E2. rewrite E1, E2, Ascii.eqb_refl. eapply IH; eassumption.
Qed.
(* kw is a prefix of b ++ s : either of b, or b is a proper prefix of kw and the rest of kw starts s *)
Lemma strip_prefix_app_cases kw : forall b s r, strip_prefix kw (b ++ s) = Some r ->
  (exists r', strip_prefix kw b = Some r') \/ (exists k2, k2 <> [] /\ kw = b ++ k2 /\ exists r2, strip_prefix k2 s = Some r2).
Proof.
  induction kw as [|k kw IH]; intros b s r H; [left; exists b; reflexivity|].
  destruct b as [|y b].
  - right. exists (k :: kw). split; [discriminate|]. split; [reflexivity|]. exists r. exact H.
  - simpl in H. simpl. destruct (Ascii.eqb k y) eqn:E; [|discriminate]. apply Ascii.eqb_eq in E. subst y.
    destruct (IH b s r H) as [[r' Hr]|[k2 [Hne [Hk [r2 Hr2]]]]]; [left; eauto|].
    right. exists k2. split; [assumption|]. split; [rewrite Hk; reflexivity|eauto].
Qed.

Lemma dash_split kw0 : forall b k2, (forall x, In x kw0 -> x <> "-"%char) -> b ++ "-"%char :: k2 = kw0 ++ ["-"%char] -> b = kw0 /\ k2 = [].
Proof.
  induction kw0 as [|x kw0 IH]; intros b k2 Hno H.
  - destruct b as [|y b]; simpl in H; [inversion H; auto|]. inversion H. destruct b; discriminate.
  - destruct b as [|y b]; simpl in H.
    + inversion H; subst. exfalso. apply (Hno "-"%char); [left; reflexivity|reflexivity].
    + inversion H; subst. destruct (IH b k2) as [-> ->]; [intros z Hz; apply Hno; right; assumption|assumption|auto].
Qed.

Lemma variant_no_prefix b X s kw : In X (all_ids T) -> fold_eqb b X = true -> follows_ok s -> In kw keywords ->
  strip_prefix kw (b ++ s) = None.
Proof.
  intros Hin HF Hs Hkw. destruct (strip_prefix kw (b ++ s)) as [r|] eqn:E; [exfalso|reflexivity].
  unfold chk_no_keyword_prefix in HKW. rewrite forallb_forall in HKW. pose proof (HKW X Hin) as HK.
  rewrite forallb_forall in HK. pose proof (HK kw Hkw) as HK1.
  destruct (strip_prefix_app_cases kw b s r E) as [[r' Hr]|[k2 [Hne [Hk [r2 Hr2]]]]].
  - apply strip_prefix_fold_prefix in Hr. rewrite (fold_prefix_trans kw b X Hr HF) in HK1. discriminate.
  - (* the keyword continues into s: s starts with '-' or a non-id byte; only "LicenseRef" / "DocumentRef" + "-" fit *)
    destruct k2 as [|k0 k2']; [contradiction|]. destruct s as [|c s']; [discriminate|]. simpl in Hr2.
    destruct (Ascii.eqb k0 c) eqn:Ec; [|discriminate]. apply Ascii.eqb_eq in Ec. subst c.
    assert (Hk0 : In k0 kw) by (rewrite Hk; apply in_or_app; right; left; reflexivity).
    assert (Hid : Forall (fun x => is_idchar x = true) kw).
    { unfold keywords in Hkw. simpl in Hkw. destruct Hkw as [<-|[<-|[<-|[<-|[<-|[]]]]]]; repeat constructor. }
    rewrite Forall_forall in Hid. specialize (Hid k0 Hk0).
    simpl in Hs. destruct Hs as [Hs|Hs]; [subst k0|congruence].
    unfold chk_case_safe in HCS. rewrite forallb_forall in HCS. pose proof (HCS X Hin) as HC.
    assert (Hb : fold_eqb X b = true) by (rewrite fold_eqb_sym; assumption).
    unfold keywords in Hkw. simpl in Hkw.
    destruct Hkw as [<-|[<-|[<-|[<-|[<-|[]]]]]].
    + simpl in Hk0. intuition discriminate.
    + simpl in Hk0. intuition discriminate.
    + simpl in Hk0. intuition discriminate.
    + destruct (dash_split (s2l "LicenseRef") b k2') as [-> _].
      * intros x Hx. simpl in Hx. intuition (subst; discriminate).
      * symmetry. exact Hk.
      * rewrite Hb in HC. discriminate.
    + destruct (dash_split (s2l "DocumentRef") b k2') as [-> _].
      * intros x Hx. simpl in Hx. intuition (subst; discriminate).
      * symmetry. exact Hk.
      * destruct (fold_eqb X (s2l "LicenseRef")); [discriminate|]. rewrite Hb in HC. discriminate.
Qed.

(* the tokens of a word unit: an id word, optionally directly followed by '+' *)
Definition unit_toks (n : norm) (plus_follows : bool) : option (list tok) :=
  match n with
  | NTok t => Some (t :: if plus_follows then [TOp OPlus] else [])
  | NEatPlus t => Some [t]
  | NThenPlus t => Some (t :: TOp OPlus :: if plus_follows then [TOp OPlus] else [])
  | NUnknown => None
  end.
Definition pl_of (b : bool) : str := if b then ["+"%char] else [].

Lemma first_op'_none_word w r : w <> [] -> Forall (fun c => is_idchar c = true) w ->
  strip_prefix (s2l "WITH") (w ++ r) = None -> strip_prefix (s2l "AND") (w ++ r) = None -> strip_prefix (s2l "OR") (w ++ r) = None ->
  first_op' ops (w ++ r) = None.
Proof.
  intros Hne F H1 H2 H3. unfold ops. cbn [first_op']. rewrite H1, H2, H3.
  destruct w as [|c w']; [contradiction|]. inversion F as [|? ? Hc _]; subst. cbn [app s2l list_ascii_of_string strip_prefix].
  rewrite (Ascii.eqb_sym "(" c), (idchar_neq c "(" Hc eq_refl), (Ascii.eqb_sym ")" c), (idchar_neq c ")" Hc eq_refl),
          (Ascii.eqb_sym ":" c), (idchar_neq c ":" Hc eq_refl), (Ascii.eqb_sym "+" c), (idchar_neq c "+" Hc eq_refl).
  reflexivity.
Qed.

Lemma lexo_word_unit w (pf : bool) :
  w <> [] -> Forall (fun c => is_idchar c = true) w ->
  (forall kw, In kw keywords -> strip_prefix kw (w ++ pl_of pf) = None) ->
  lexo T (w ++ pl_of pf) = unit_toks (classify T w pf) pf.
Proof.
  intros Hne F Hkw.
  assert (Hop : first_op' ops (w ++ pl_of pf) = None).
  { apply first_op'_none_word; try assumption; apply Hkw; unfold keywords; simpl; tauto. }
  assert (Hd : strip_prefix k_docref (w ++ pl_of pf) = None) by (apply Hkw; unfold keywords; simpl; tauto).
  assert (Hl : strip_prefix k_licref (w ++ pl_of pf) = None) by (apply Hkw; unfold keywords; simpl; tauto).
  rewrite (lexo_unfold T), (ref_run_unfold T HT).
  destruct w as [|c w']; [contradiction|]. inversion F as [|? ? Hc F']; subst.
  cbn [app span]. rewrite (idchar_not_space c Hc). change (c :: w' ++ pl_of pf) with ((c :: w') ++ pl_of pf).
  unfold ref_item. rewrite first_op_first_op', Hop, Hd, Hl.
  assert (Hspan : span is_idchar ((c :: w') ++ pl_of pf) = (c :: w', pl_of pf)).
  { apply span_app; [assumption|]. destruct pf; simpl; [reflexivity|exact I]. }
  rewrite Hspan.
  assert (Hnp : next_is_plus (pl_of pf) = pf) by (destruct pf; reflexivity). rewrite Hnp.
  destruct (classify T (c :: w') pf) as [t|t|t|] eqn:EC; cbn [unit_toks].
  - rewrite (ref_run_oks T HT). destruct pf; cbn [pl_of].
    + rewrite (lexo_plus T HT), (lexo_nil T). reflexivity.
    + rewrite (lexo_nil T). reflexivity.
  - apply (classify_eat T) in EC. subst pf. cbn [pl_of tl]. rewrite (ref_run_oks T HT), (lexo_nil T). reflexivity.
  - rewrite (ref_run_oks T HT). destruct pf; cbn [pl_of].
    + rewrite (lexo_plus T HT), (lexo_nil T). reflexivity.
    + rewrite (lexo_nil T). reflexivity.
  - reflexivity.
Qed.

Lemma sfx_idchars sfx : sfx_ok sfx -> Forall (fun c => is_idchar c = true) sfx.
Proof. intros [H|[H|H]]; subst sfx; repeat constructor. Qed.
Lemma sfx_follows sfx pf : sfx_ok sfx -> follows_ok (sfx ++ pl_of pf).
Proof. intros [H|[H|H]]; subst sfx; destruct pf; simpl; auto. Qed.

(* the unit made of a case variant gives the tokens of the unit made of the list-cased id *)
Lemma variant_unit_lexo b X sfx pf : In X (all_ids T) -> fold_eqb b X = true -> word_ok X -> sfx_ok sfx ->
  lexo T ((b ++ sfx) ++ pl_of pf) = lexo T ((X ++ sfx) ++ pl_of pf).
Proof.
  intros Hin HF HX Hs. pose proof (fold_word_ok b X HF HX) as Hb.
  rewrite (lexo_word_unit (b ++ sfx) pf), (lexo_word_unit (X ++ sfx) pf).
  - rewrite (classify_variant b X sfx pf Hin HF Hs). reflexivity.
  - destruct HX as [Hne _]. destruct X; [contradiction|discriminate].
  - apply Forall_app. split; [apply HX|apply sfx_idchars; assumption].
  - intros kw Hkw. rewrite <- app_assoc. apply (variant_no_prefix X X _ kw Hin (fold_eqb_refl X) (sfx_follows sfx pf Hs) Hkw).
  - destruct Hb as [Hne _]. destruct b; [contradiction|discriminate].
  - apply Forall_app. split; [apply Hb|apply sfx_idchars; assumption].
  - intros kw Hkw. rewrite <- app_assoc. apply (variant_no_prefix b X _ kw Hin HF (sfx_follows sfx pf Hs) Hkw).
Qed.

(* C09, any context: the text after the id is empty, or starts with a non-id byte; if that byte is '+', what
   follows the '+' is again empty or starts with a non-id byte *)
Definition after_ok (q : str) : Prop :=
  q = [] \/ exists c q', q = c :: q' /\ is_idchar c = false /\
    (c = "+"%char -> q' = [] \/ exists c2 q2, q' = c2 :: q2 /\ is_idchar c2 = false).

Theorem case_variant_anywhere b X sfx p q : In X (all_ids T) -> fold_eqb b X = true -> word_ok X -> sfx_ok sfx ->
  after_ok q -> (p = [] \/ exists p' c1, p = p' ++ [c1] /\ boundary p' c1) ->
  same_parse T (p ++ (b ++ sfx) ++ q) (p ++ (X ++ sfx) ++ q).
Proof.
  intros Hin HF HX Hs Hq Hp. pose proof (fold_word_ok b X HF HX) as Hb.
  assert (Sb : forall r, starts_idchar ((b ++ sfx) ++ r)).
  { intros r. destruct Hb as [Hne Fb]. destruct b as [|c b']; [contradiction|]. inversion Fb; subst. assumption. }
  assert (SX : forall r, starts_idchar ((X ++ sfx) ++ r)).
  { intros r. destruct HX as [Hne FX]. destruct X as [|c X']; [contradiction|]. inversion FX; subst. assumption. }
  unfold same_parse.
  destruct Hq as [->|[c [q' [-> [Hc Hplus]]]]].
  - pose proof (variant_unit_lexo b X sfx false Hin HF HX Hs) as HL. cbn [pl_of] in HL. rewrite !app_nil_r in HL.
    apply (parse_context T HT p (b ++ sfx) (X ++ sfx) [] HL); auto.
    + specialize (Sb []). rewrite app_nil_r in Sb. assumption.
    + specialize (SX []). rewrite app_nil_r in SX. assumption.
  - destruct (Ascii.eqb c "+") eqn:Ec.
    + apply Ascii.eqb_eq in Ec. subst c. specialize (Hplus eq_refl).
      pose proof (variant_unit_lexo b X sfx true Hin HF HX Hs) as HL. cbn [pl_of] in HL.
      replace (p ++ (b ++ sfx) ++ "+"%char :: q') with (p ++ ((b ++ sfx) ++ ["+"%char]) ++ q') by (rewrite <- !app_assoc; reflexivity).
      replace (p ++ (X ++ sfx) ++ "+"%char :: q') with (p ++ ((X ++ sfx) ++ ["+"%char]) ++ q') by (rewrite <- !app_assoc; reflexivity).
      apply (parse_context T HT p _ _ q' HL); auto.
      destruct Hplus as [->|[c2 [q2 [-> Hc2]]]]; [left; reflexivity|]. right. exists c2, q2. split; [reflexivity|].
      assert (Lk : forall y : str, last_ok (y ++ ["+"%char]) = true).
      { intros y. rewrite last_ok_suffix by discriminate. reflexivity. }
      split; (split; [assumption|intros _; apply Lk]).
    + assert (Hne : c <> "+"%char) by (intros ->; discriminate).
      pose proof (variant_unit_lexo b X sfx false Hin HF HX Hs) as HL. cbn [pl_of] in HL. rewrite !app_nil_r in HL.
      apply (parse_context T HT p (b ++ sfx) (X ++ sfx) (c :: q') HL); auto.
      * specialize (Sb []). rewrite app_nil_r in Sb. assumption.
      * specialize (SX []). rewrite app_nil_r in SX. assumption.
      * right. exists c, q'. split; [reflexivity|]. split; apply boundary_clean; assumption.
Qed.
End CF.
