(* The stack machine of Model/ParseStack.v (parseExpression as written since the repair of D-k) computes exactly the
   recursive-descent function p_tokens of Model/Parse.v - hence the grammar of Spec/Grammar.v - for token lists of
   any length and nesting; it never reaches a Panic branch (joinOperands is never handed an empty slice) and never
   exhausts its fuel.
     completeness  (d_expr ts t -> ps_tokens ts = Ok t)   by mutual induction on derivations;
     soundness     (ps_tokens ts = Ok t -> d_expr ts t)    through the shape test of Spec/Reject.v: an accepting run
                   passes it, the test is derivability (Proofs/RejectProof.v), completeness + determinism give the tree;
     safety        every result is Ok or Err ESyntax. *)
From Coq Require Import Lia.
From Spdx Require Import Model.Parse Model.ParseStack Spec.Grammar Spec.Reject Proofs.ParseGrammar Proofs.RejectProof.
Local Open Scope list_scope.

Notation R := (res (node * list tok)).

Definition A_body (rA rB : list group -> group -> list tok -> R) (enc : list group) (cur : group) (ts : list tok) : R :=
  match p_op OLp ts with
  | Some r => rA (cur :: enc) g0 r
  | None =>
      match ps_atom ts with
      | Ok (a, r) => rB enc (add_term cur a) r
      | Err e => Err e | Panic => Panic | Fuel => Fuel
      end
  end.
Definition B_body (rA rB : list group -> group -> list tok -> R) (enc : list group) (cur : group) (ts : list tok) : R :=
  match ts with
  | [] =>
      match enc with
      | _ :: _ => Err ESyntax
      | [] => match group_node cur with
              | Ok n => Ok (n, [])
              | Err e => Err e | Panic => Panic | Fuel => Fuel
              end
      end
  | _ =>
      match p_op OAnd ts with
      | Some r => match r with
                  | [] => Err ESyntax
                  | _ => rA enc cur r
                  end
      | None =>
          match p_op OOr ts with
          | Some r =>
              match close_terms cur with
              | Ok cur' => match r with
                           | [] => Err ESyntax
                           | _ => rA enc cur' r
                           end
              | Err e => Err e | Panic => Panic | Fuel => Fuel
              end
          | None =>
              match enc with
              | [] => match group_node cur with
                      | Ok n => Ok (n, ts)
                      | Err e => Err e | Panic => Panic | Fuel => Fuel
                      end
              | top :: enc' =>
                  match p_op ORp ts with
                  | Some r =>
                      match group_node cur with
                      | Ok inner => rB enc' (add_term top inner) r
                      | Err e => Err e | Panic => Panic | Fuel => Fuel
                      end
                  | None => Err ESyntax
                  end
              end
          end
      end
  end.

Lemma runA_S f enc cur ts : runA (S f) enc cur ts = A_body (runA f) (runB f) enc cur ts.
Proof. reflexivity. Qed.
Lemma runB_S f enc cur ts : runB (S f) enc cur ts = B_body (runA f) (runB f) enc cur ts.
Proof. destruct ts; reflexivity. Qed.

(* ---------------- atoms ---------------- *)
Lemma ps_atom_ok ts a r : ps_atom ts = Ok (a, r) -> exists pre, ts = pre ++ r /\ d_atom pre a.
Proof.
  unfold ps_atom. destruct (p_ref ts) as [[[n r']|]|e| |] eqn:E1; try discriminate.
  - intros H; inversion H; subst. apply p_ref_sound in E1. exact E1.
  - destruct (p_lic ts) as [[[n r']|]|e| |] eqn:E2; try discriminate.
    intros H; inversion H; subst. apply p_lic_sound in E2. exact E2.
Qed.
Lemma ps_atom_shorter ts a r : ps_atom ts = Ok (a, r) -> length r < length ts.
Proof.
  intros H. apply ps_atom_ok in H. destruct H as [pre [-> D]].
  apply (proj1 d_nonempty) in D. rewrite app_length. destruct pre; [contradiction|simpl; lia].
Qed.
Lemma ps_atom_cases ts : ps_atom ts = Err ESyntax \/ exists x, ps_atom ts = Ok x.
Proof.
  unfold ps_atom. destruct (p_ref_cases ts) as [->|[[x|] ->]]; [left; reflexivity|right; eexists; reflexivity|].
  destruct (p_lic_cases ts) as [->|[[x|] ->]]; [left; reflexivity|right; eexists; reflexivity|left; reflexivity].
Qed.

(* ---------------- the fuel does not matter once it exceeds the number of tokens ---------------- *)
Lemma A_body_ext rA rB rA' rB' enc cur ts :
  (forall e c r, length r < length ts -> rA e c r = rA' e c r) ->
  (forall e c r, length r < length ts -> rB e c r = rB' e c r) ->
  A_body rA rB enc cur ts = A_body rA' rB' enc cur ts.
Proof.
  intros HA HB. unfold A_body.
  destruct (p_op OLp ts) as [r|] eqn:EL.
  - apply p_op_some in EL; subst. apply HA. simpl. lia.
  - destruct (ps_atom ts) as [[a r]|e| |] eqn:EA; try reflexivity.
    apply HB. apply (ps_atom_shorter _ _ _ EA).
Qed.
Lemma B_body_ext rA rB rA' rB' enc cur ts :
  (forall e c r, length r < length ts -> rA e c r = rA' e c r) ->
  (forall e c r, length r < length ts -> rB e c r = rB' e c r) ->
  B_body rA rB enc cur ts = B_body rA' rB' enc cur ts.
Proof.
  intros HA HB. unfold B_body. destruct ts as [|t0 ts']; [reflexivity|].
  destruct (p_op OAnd (t0 :: ts')) as [r|] eqn:E1.
  - apply p_op_some in E1. inversion E1; subst. destruct r; [reflexivity|]. apply HA. simpl. lia.
  - destruct (p_op OOr (t0 :: ts')) as [r|] eqn:E2.
    + apply p_op_some in E2. inversion E2; subst.
      destruct (close_terms cur); try reflexivity. destruct r; [reflexivity|]. apply HA. simpl. lia.
    + destruct enc as [|top enc']; [reflexivity|].
      destruct (p_op ORp (t0 :: ts')) as [r|] eqn:E3; [|reflexivity].
      apply p_op_some in E3. inversion E3; subst.
      destruct (group_node cur); try reflexivity. apply HB. simpl. lia.
Qed.

Lemma stable f : forall g,
  (forall enc cur ts, length ts < f -> length ts < g -> runA f enc cur ts = runA g enc cur ts) /\
  (forall enc cur ts, length ts < f -> length ts < g -> runB f enc cur ts = runB g enc cur ts).
Proof.
  induction f as [|f IH]; intros g; [split; intros; lia|].
  destruct g as [|g]; [split; intros; lia|].
  destruct (IH g) as [IA IB].
  split; intros enc cur ts Hf Hg.
  - rewrite !runA_S. apply A_body_ext; intros e c r Hr; [apply IA|apply IB]; lia.
  - rewrite !runB_S. apply B_body_ext; intros e c r Hr; [apply IA|apply IB]; lia.
Qed.

Definition RA (enc : list group) (cur : group) (ts : list tok) : R := runA (S (length ts)) enc cur ts.
Definition RB (enc : list group) (cur : group) (ts : list tok) : R := runB (S (length ts)) enc cur ts.
Lemma RA_eq enc cur ts : RA enc cur ts = A_body RA RB enc cur ts.
Proof.
  unfold RA at 1. rewrite runA_S. apply A_body_ext; intros e c r Hr.
  - unfold RA. apply (proj1 (stable _ _)); lia.
  - unfold RB. apply (proj2 (stable _ _)); lia.
Qed.
Lemma RB_eq enc cur ts : RB enc cur ts = B_body RA RB enc cur ts.
Proof.
  unfold RB at 1. rewrite runB_S. apply B_body_ext; intros e c r Hr.
  - unfold RA. apply (proj1 (stable _ _)); lia.
  - unfold RB. apply (proj2 (stable _ _)); lia.
Qed.

(* ---------------- joinOperands ---------------- *)
Lemma join_ops_cons mk x l t : join_ops mk l = Ok t -> join_ops mk (x :: l) = Ok (mk x t).
Proof. destruct l as [|y ys]; simpl; [discriminate|]. intros H; inversion H; reflexivity. Qed.
Lemma join_ops_nonempty mk l : l <> [] -> exists t, join_ops mk l = Ok t.
Proof. destruct l; [contradiction|]. intros _. eexists; reflexivity. Qed.
Lemma snoc_nonempty {A} (l : list A) x : l ++ [x] <> [].
Proof. destruct l; discriminate. Qed.
Lemma close_terms_ok g : terms g <> [] -> exists n, join_ops NAnd (terms g) = Ok n /\ close_terms g = Ok (G (alts g ++ [n]) []).
Proof.
  intros H. destruct (join_ops_nonempty NAnd _ H) as [n Hn]. exists n. split; [exact Hn|].
  unfold close_terms. rewrite Hn. reflexivity.
Qed.
Lemma group_node_ok g : terms g <> [] -> exists n, group_node g = Ok n.
Proof.
  intros H. destruct (close_terms_ok g H) as [n [_ Hc]]. unfold group_node. rewrite Hc. cbn [alts].
  apply join_ops_nonempty. apply snoc_nonempty.
Qed.

(* ---------------- safety: a tree or a syntax error, nothing else ---------------- *)
Definition fine (x : R) : Prop := x = Err ESyntax \/ exists y, x = Ok y.
Lemma safe n : forall ts, length ts < n ->
  (forall enc cur, fine (RA enc cur ts)) /\ (forall enc cur, terms cur <> [] -> fine (RB enc cur ts)).
Proof.
  induction n as [|n IH]; intros ts Hn; [lia|].
  split; intros enc cur.
  - rewrite RA_eq. unfold A_body.
    destruct (p_op OLp ts) as [r|] eqn:EL.
    + apply p_op_some in EL; subst. destruct (IH r) as [IA _]; [simpl in Hn; lia|apply IA].
    + destruct (ps_atom_cases ts) as [E|[[a r] E]]; rewrite E; [left; reflexivity|].
      destruct (IH r) as [_ IB]; [pose proof (ps_atom_shorter _ _ _ E); lia|].
      apply IB. unfold add_term. cbn [terms]. apply snoc_nonempty.
  - intros Ht. rewrite RB_eq. unfold B_body. destruct ts as [|t0 ts'].
    + destruct enc; [|left; reflexivity]. destruct (group_node_ok cur Ht) as [x ->]. right; eexists; reflexivity.
    + destruct (p_op OAnd (t0 :: ts')) as [r|] eqn:E1.
      * apply p_op_some in E1. inversion E1; subst. destruct r as [|r0 r']; [left; reflexivity|].
        destruct (IH (r0 :: r')) as [IA _]; [simpl in Hn |- *; lia|apply IA].
      * destruct (p_op OOr (t0 :: ts')) as [r|] eqn:E2.
        -- apply p_op_some in E2. inversion E2; subst.
           destruct (close_terms_ok cur Ht) as [x [_ ->]]. destruct r as [|r0 r']; [left; reflexivity|].
           destruct (IH (r0 :: r')) as [IA _]; [simpl in Hn |- *; lia|apply IA].
        -- destruct enc as [|top enc'].
           ++ destruct (group_node_ok cur Ht) as [x ->]. right; eexists; reflexivity.
           ++ destruct (p_op ORp (t0 :: ts')) as [r|] eqn:E3; [|left; reflexivity].
              apply p_op_some in E3. inversion E3; subst.
              destruct (group_node_ok cur Ht) as [x ->].
              destruct (IH r) as [_ IB]; [simpl in Hn; lia|]. apply IB. unfold add_term. cbn [terms]. apply snoc_nonempty.
Qed.

(* ---------------- completeness ---------------- *)
Lemma complete_stack :
  (forall ts t, d_atom ts t -> forall enc cur r, fol_atom r -> RA enc cur (ts ++ r) = RB enc (add_term cur t) r) /\
  (forall ts t, d_and ts t -> exists ops, ops <> [] /\ join_ops NAnd ops = Ok t /\
      forall enc a tm r, fol_and r -> RA enc (G a tm) (ts ++ r) = RB enc (G a (tm ++ ops)) r) /\
  (forall ts t, d_expr ts t -> exists al ops, ops <> [] /\ group_node (G al ops) = Ok t /\
      forall enc a r, fol_expr r -> RA enc (G a []) (ts ++ r) = RB enc (G (a ++ al) ops) r).
Proof.
  apply d_mutind.
  - (* paren *) intros ts t D [al [ops [Hne [Hg IH]]]] enc cur r Hr.
    rewrite RA_eq. unfold A_body. cbn [app p_op op_eqb]. rewrite <- app_assoc. cbn [app].
    change g0 with (G [] []).
    rewrite (IH (cur :: enc) [] (TOp ORp :: r)); [|right; eexists; reflexivity]. cbn [app].
    rewrite RB_eq. unfold B_body. cbn [p_op op_eqb]. rewrite Hg. reflexivity.
  - (* ref *) intros x enc cur r Hr. rewrite RA_eq. reflexivity.
  - (* docref *) intros d x enc cur r Hr. rewrite RA_eq. reflexivity.
  - (* lic *) intros l p e enc cur r Hr. rewrite RA_eq. unfold A_body. cbn [app p_op].
    destruct (fol_atom_cases r Hr) as [H1 [H2 _]].
    assert (E : ps_atom ((TLic l :: plus_toks p ++ with_toks e) ++ r) = Ok (NLic l (if p then true else ends_orlater l) e, r)).
    { unfold ps_atom. destruct p, e as [e|]; simpl; rewrite ?H1, ?H2; reflexivity. }
    cbn [app] in E. rewrite E. reflexivity.
  - (* and1 *) intros ts t D IH. exists [t]. split; [discriminate|]. split; [reflexivity|].
    intros enc a tm r Hr. rewrite (IH enc (G a tm) r (or_introl Hr)). reflexivity.
  - (* andS *) intros ts1 t1 ts2 t2 D1 IH1 D2 [ops2 [Hne [Hj IH2]]].
    exists (t1 :: ops2). split; [discriminate|]. split; [apply join_ops_cons; exact Hj|].
    intros enc a tm r Hr.
    assert (NE : ts2 ++ r <> []).
    { destruct d_nonempty as [_ [Hn _]]. specialize (Hn _ _ D2). destruct ts2; [contradiction|discriminate]. }
    rewrite <- app_assoc. cbn [app].
    rewrite (IH1 enc (G a tm) (TOp OAnd :: ts2 ++ r)); [|right; eexists; split; [reflexivity|exact NE]].
    rewrite RB_eq. unfold B_body.
    destruct (ts2 ++ r) as [|x0 r0] eqn:E; [contradiction|]. cbn [p_op op_eqb]. unfold add_term. cbn [alts terms]. rewrite <- E.
    rewrite (IH2 enc a (tm ++ [t1]) r Hr). rewrite <- app_assoc. reflexivity.
  - (* expr1 *) intros ts t D [ops [Hne [Hj IH]]].
    exists [], ops. split; [exact Hne|]. split.
    + unfold group_node, close_terms. cbn [terms alts]. rewrite Hj. reflexivity.
    + intros enc a r Hr. rewrite (IH enc a [] r (or_introl Hr)). rewrite app_nil_r. reflexivity.
  - (* exprS *) intros ts1 t1 ts2 t2 D1 [ops1 [Hne1 [Hj1 IH1]]] D2 [al2 [ops2 [Hne2 [Hg2 IH2]]]].
    exists (t1 :: al2), ops2. split; [exact Hne2|]. split.
    + unfold group_node, close_terms in *. cbn [terms alts] in *.
      destruct (join_ops NAnd ops2) as [x| | |]; try discriminate.
      cbn [app]. apply join_ops_cons. exact Hg2.
    + intros enc a r Hr.
      assert (NE : ts2 ++ r <> []).
      { destruct d_nonempty as [_ [_ Hn]]. specialize (Hn _ _ D2). destruct ts2; [contradiction|discriminate]. }
      rewrite <- app_assoc. cbn [app].
      rewrite (IH1 enc a [] (TOp OOr :: ts2 ++ r)); [|right; eexists; split; [reflexivity|exact NE]].
      rewrite RB_eq. unfold B_body.
      destruct (ts2 ++ r) as [|x0 r0] eqn:E; [contradiction|]. cbn [p_op op_eqb app].
      unfold close_terms. cbn [terms alts app]. rewrite Hj1. rewrite <- E.
      rewrite (IH2 enc (a ++ [t1]) r Hr). rewrite <- app_assoc. reflexivity.
Qed.

Lemma ps_tokens_RA ts : ts <> [] ->
  ps_tokens ts = match RA [] g0 ts with
                 | Ok (n, []) => Ok n
                 | Ok (_, _ :: _) => Err ESyntax
                 | Err e => Err e | Panic => Panic | Fuel => Fuel
                 end.
Proof. destruct ts; [contradiction|reflexivity]. Qed.

Theorem stack_complete ts t : d_expr ts t -> ps_tokens ts = Ok t.
Proof.
  intros D. destruct complete_stack as [_ [_ C]]. destruct (C _ _ D) as [al [ops [Hne [Hg H]]]].
  destruct d_nonempty as [_ [_ Ne]]. specialize (Ne _ _ D).
  rewrite (ps_tokens_RA ts Ne). specialize (H [] [] [] (or_introl eq_refl)). rewrite app_nil_r in H.
  change g0 with (G [] []). rewrite H. cbn [app]. rewrite RB_eq. unfold B_body. rewrite Hg. reflexivity.
Qed.

(* ---------------- soundness through the shape test ---------------- *)
Lemma pairs_step a b r : adj_ok a b = true -> pairs_ok (b :: r) = true -> pairs_ok (a :: b :: r) = true.
Proof. intros H1 H2. change (pairs_ok (a :: b :: r)) with (if adj_ok a b then pairs_ok (b :: r) else false). rewrite H1. exact H2. Qed.

Lemma shape_run n : forall ts, length ts < n ->
  (forall enc cur t, RA enc cur ts = Ok (t, []) ->
     ts <> [] /\ starts_term (hdt ts) = true /\ ends_term (lastt ts) = true /\ pairs_ok ts = true /\ bal (length enc) ts = Some 0) /\
  (forall enc cur t prev, ends_term prev = true -> RB enc cur ts = Ok (t, []) ->
     pairs_ok (prev :: ts) = true /\ bal (length enc) ts = Some 0 /\ ends_term (lastt (prev :: ts)) = true).
Proof.
  induction n as [|n IH]; intros ts Hn; [lia|].
  split.
  - intros enc cur t. rewrite RA_eq. unfold A_body.
    destruct (p_op OLp ts) as [r|] eqn:EL.
    + apply p_op_some in EL; subst. intros H.
      destruct (IH r) as [IA _]; [simpl in Hn; lia|].
      destruct (IA _ _ _ H) as [Hne [Hs [He [Hp Hb]]]].
      refine (conj _ (conj _ (conj _ (conj _ _)))); [discriminate|reflexivity|rewrite lastt_cons by assumption; assumption| |exact Hb].
      destruct r as [|b r']; [contradiction|]. apply pairs_step; [exact Hs|exact Hp].
    + destruct (ps_atom ts) as [[a r]|e| |] eqn:EA; try discriminate.
      intros H. pose proof (ps_atom_shorter _ _ _ EA) as Hlen.
      destruct (IH r) as [_ IB]; [lia|].
      apply ps_atom_ok in EA. destruct EA as [pre [-> D]].
      inversion D; subst.
      * (* paren: impossible here *) simpl in EL. discriminate.
      * destruct (IB enc _ t (TRef x) eq_refl H) as [Hp [Hb He]].
        refine (conj _ (conj _ (conj _ (conj _ _)))); [discriminate|reflexivity|exact He|exact Hp|exact Hb].
      * destruct (IB enc _ t (TRef x) eq_refl H) as [Hp [Hb He]].
        refine (conj _ (conj _ (conj _ (conj _ _)))); [discriminate|reflexivity| | |exact Hb].
        -- cbn [app]. rewrite !lastt_cons by discriminate. exact He.
        -- cbn [app]. apply pairs_step; [reflexivity|]. apply pairs_step; [reflexivity|]. exact Hp.
      * destruct p, e as [e|]; cbn [plus_toks with_toks app] in *.
        -- destruct (IB enc _ t (TExc e) eq_refl H) as [Hp [Hb He]].
           refine (conj _ (conj _ (conj _ (conj _ _)))); [discriminate|reflexivity| | |exact Hb].
           ++ rewrite !lastt_cons by discriminate. exact He.
           ++ repeat (apply pairs_step; [reflexivity|]). exact Hp.
        -- destruct (IB enc _ t (TOp OPlus) eq_refl H) as [Hp [Hb He]].
           refine (conj _ (conj _ (conj _ (conj _ _)))); [discriminate|reflexivity| | |exact Hb].
           ++ rewrite !lastt_cons by discriminate. exact He.
           ++ repeat (apply pairs_step; [reflexivity|]). exact Hp.
        -- destruct (IB enc _ t (TExc e) eq_refl H) as [Hp [Hb He]].
           refine (conj _ (conj _ (conj _ (conj _ _)))); [discriminate|reflexivity| | |exact Hb].
           ++ rewrite !lastt_cons by discriminate. exact He.
           ++ repeat (apply pairs_step; [reflexivity|]). exact Hp.
        -- destruct (IB enc _ t (TLic l) eq_refl H) as [Hp [Hb He]].
           refine (conj _ (conj _ (conj _ (conj _ _)))); [discriminate|reflexivity|exact He|exact Hp|exact Hb].
  - intros enc cur t prev Hprev. rewrite RB_eq. unfold B_body. destruct ts as [|t0 ts'].
    + destruct enc; [|discriminate]. intros _. refine (conj _ (conj _ _)); [reflexivity|reflexivity|exact Hprev].
    + destruct (p_op OAnd (t0 :: ts')) as [r|] eqn:E1.
      * apply p_op_some in E1. inversion E1; subst. destruct r as [|r0 r']; [discriminate|]. intros H.
        destruct (IH (r0 :: r')) as [IA _]; [simpl in Hn |- *; lia|].
        destruct (IA _ _ _ H) as [Hne [Hs [He [Hp Hb]]]].
        refine (conj _ (conj _ _)); [|exact Hb|rewrite !lastt_cons by discriminate; exact He].
        apply pairs_step; [apply ends_adj; [exact Hprev|reflexivity]|]. apply pairs_step; [exact Hs|exact Hp].
      * destruct (p_op OOr (t0 :: ts')) as [r|] eqn:E2.
        -- apply p_op_some in E2. inversion E2; subst.
           destruct (close_terms cur) as [cur'|e| |]; try discriminate.
           destruct r as [|r0 r']; [discriminate|]. intros H.
           destruct (IH (r0 :: r')) as [IA _]; [simpl in Hn |- *; lia|].
           destruct (IA _ _ _ H) as [Hne [Hs [He [Hp Hb]]]].
           refine (conj _ (conj _ _)); [|exact Hb|rewrite !lastt_cons by discriminate; exact He].
           apply pairs_step; [apply ends_adj; [exact Hprev|reflexivity]|]. apply pairs_step; [exact Hs|exact Hp].
        -- destruct enc as [|top enc'].
           ++ destruct (group_node cur); try discriminate.
           ++ destruct (p_op ORp (t0 :: ts')) as [r|] eqn:E3; [|discriminate].
              apply p_op_some in E3. inversion E3; subst.
              destruct (group_node cur) as [inner|e| |]; try discriminate. intros H.
              destruct (IH r) as [_ IB]; [simpl in Hn; lia|].
              destruct (IB enc' _ t (TOp ORp) eq_refl H) as [Hp [Hb He]].
              refine (conj _ (conj _ _)); [|exact Hb|rewrite lastt_cons by discriminate; exact He].
              apply pairs_step; [apply ends_adj; [exact Hprev|reflexivity]|exact Hp].
Qed.

Theorem stack_sound ts t : ps_tokens ts = Ok t -> d_expr ts t.
Proof.
  intros H. destruct ts as [|t0 ts']; [discriminate|].
  assert (HR : RA [] g0 (t0 :: ts') = Ok (t, [])).
  { rewrite (ps_tokens_RA (t0 :: ts')) in H by discriminate.
    destruct (RA [] g0 (t0 :: ts')) as [[n [|]]|e| |]; try discriminate. inversion H; reflexivity. }
  destruct (shape_run (S (length (t0 :: ts'))) (t0 :: ts') (Nat.lt_succ_diag_r _)) as [SA _].
  destruct (SA _ _ _ HR) as [_ [Hs [He [Hp Hb]]]].
  assert (Hshape : shape_ok (t0 :: ts') = true).
  { unfold shape_ok. rewrite Hs, He, Hp. unfold balanced. cbn [length] in Hb. rewrite Hb. reflexivity. }
  destruct (shape_derivable _ Hshape) as [t' D'].
  pose proof (stack_complete _ _ D') as H'. rewrite H in H'. inversion H'; subst. exact D'.
Qed.

(* ---------------- the code's algorithm = the recursive-descent model = the grammar ---------------- *)
Theorem stack_is_grammar ts t : ps_tokens ts = Ok t <-> d_expr ts t.
Proof. split; [apply stack_sound|apply stack_complete]. Qed.

Theorem stack_safe ts : ps_tokens ts = Err ESyntax \/ exists t, ps_tokens ts = Ok t.
Proof.
  destruct ts as [|t0 ts']; [left; reflexivity|].
  rewrite ps_tokens_RA by discriminate.
  destruct (safe (S (length (t0 :: ts'))) (t0 :: ts') (Nat.lt_succ_diag_r _)) as [SA _].
  destruct (SA [] g0) as [->|[[n [|]] ->]]; [left; reflexivity|right; eexists; reflexivity|left; reflexivity].
Qed.

Theorem stack_never_panics ts : ps_tokens ts <> Panic /\ ps_tokens ts <> Fuel.
Proof. destruct (stack_safe ts) as [->|[t ->]]; split; discriminate. Qed.

Lemma p_tokens_cases ts : p_tokens ts = Err ESyntax \/ exists t, p_tokens ts = Ok t.
Proof.
  destruct (p_tokens ts) as [t|e| |] eqn:E; [right; eexists; reflexivity| | |].
  - left. destruct (stack_safe ts) as [Hs|[t Hs]].
    + (* both errors: the kind is ESyntax in p_tokens too *) revert E. unfold p_tokens.
      destruct ts as [|t0 ts']; [intros E; inversion E; reflexivity|].
      generalize (3 * length (t0 :: ts') + 3). intros F.
      assert (K : forall f, (forall x e0, p_expr f x = Err e0 -> e0 = ESyntax) /\ (forall x e0, p_and f x = Err e0 -> e0 = ESyntax) /\ (forall x e0, p_atom f x = Err e0 -> e0 = ESyntax)).
      { induction f as [|f [Ke [Ka Kt]]]; [repeat split; intros; discriminate|].
        repeat split; intros x e0.
        - rewrite p_expr_S. unfold e_body. destruct (p_and f x) as [[lft r]|er| |] eqn:EA; try discriminate.
          + destruct (p_op OOr r) as [[|q0 q]|]; try discriminate; [intros Q; inversion Q; reflexivity|].
            destruct (p_expr f (q0 :: q)) as [[rgt r'']|er| |] eqn:EE; try discriminate.
            intros Q; inversion Q; subst. apply (Ke _ _ EE).
          + intros Q; inversion Q; subst. apply (Ka _ _ EA).
        - rewrite p_and_S. unfold a_body. destruct (p_atom f x) as [[lft r]|er| |] eqn:EA; try discriminate.
          + destruct (p_op OAnd r) as [[|q0 q]|]; try discriminate; [intros Q; inversion Q; reflexivity|].
            destruct (p_and f (q0 :: q)) as [[rgt r'']|er| |] eqn:EE; try discriminate.
            intros Q; inversion Q; subst. apply (Ka _ _ EE).
          + intros Q; inversion Q; subst. apply (Kt _ _ EA).
        - rewrite p_atom_S. unfold t_body. destruct (p_op OLp x) as [r|].
          + destruct (p_expr f r) as [[e1 r']|er| |] eqn:EE; try discriminate.
            * destruct (p_op ORp r'); try discriminate. intros Q; inversion Q; reflexivity.
            * intros Q; inversion Q; subst. apply (Ke _ _ EE).
          + destruct (p_ref_cases x) as [->|[[y|] ->]]; try discriminate; [intros Q; inversion Q; reflexivity|].
            destruct (p_lic_cases x) as [->|[[y|] ->]]; try discriminate; intros Q; inversion Q; reflexivity. }
      destruct (p_expr F (t0 :: ts')) as [[n [|]]|er| |] eqn:EF; try discriminate.
      * intros Q; inversion Q; reflexivity.
      * intros Q; inversion Q; subst. f_equal. apply (proj1 (K F) _ _ EF).
    + apply stack_sound in Hs. apply parse_sound_complete in Hs. rewrite Hs in E. discriminate.
  - exfalso. apply (proj1 (parse_never_panics ts)). exact E.
  - exfalso. apply (proj2 (parse_never_panics ts)). exact E.
Qed.

Theorem stack_equals_recursive ts : ps_tokens ts = p_tokens ts.
Proof.
  destruct (p_tokens_cases ts) as [E|[t E]]; rewrite E.
  - destruct (stack_safe ts) as [Hs|[t Hs]]; [exact Hs|].
    apply stack_sound in Hs. apply parse_sound_complete in Hs. rewrite Hs in E. discriminate.
  - apply stack_complete. apply parse_sound_complete. exact E.
Qed.
