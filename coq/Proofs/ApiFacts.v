(* Totality (no panic, no fuel exhaustion) and the single notion of validity shared by the entry points. *)
From Coq Require Import Lia.
From Spdx Require Import Model.Api Spec.Lex Spec.Grammar Spec.Eval Spec.WF Proofs.BytesFacts Proofs.ScanRef Proofs.ParseGrammar
  Proofs.NodeInv Proofs.Sat.
Local Open Scope list_scope.

Definition validb (T : tables) (s : str) : bool := match parse T s with Ok _ => true | _ => false end.
Definition is_err {A} (r : res A) : bool := match r with Err _ => true | _ => false end.
Definition is_compound (n : node) : bool := negb (is_leaf n).

Section Api.
Variable T : tables.
Hypothesis HT : license_lookup T [] = None.

(* parse returns a tree or an error value, for every byte string *)
Theorem parse_total s : parse T s <> Panic /\ parse T s <> Fuel.
Proof.
  unfold parse. destruct s as [|c s']; [split; discriminate|].
  destruct (scan_total T HT (c :: s')) as [NP NF].
  destruct (scan T (c :: s')) as [ts|e| |]; try (split; discriminate); try contradiction.
  apply parse_never_panics.
Qed.
Lemma parse_cases s : (exists t, parse T s = Ok t) \/ (exists e, parse T s = Err e).
Proof.
  destruct (parse_total s) as [NP NF]. destruct (parse T s) as [t|e| |]; try contradiction; eauto.
Qed.
Lemma validb_true s : validb T s = true <-> exists t, parse T s = Ok t.
Proof. unfold validb. destruct (parse T s) as [t|e| |]; split; intros H; try discriminate; eauto; destruct H; discriminate. Qed.
Lemma validb_false s : validb T s = false <-> exists e, parse T s = Err e.
Proof.
  unfold validb. destruct (parse_total s) as [NP NF].
  destruct (parse T s) as [t|e| |]; split; intros H; try discriminate; try contradiction; eauto; destruct H; discriminate.
Qed.

(* ValidateLicenses returns exactly the invalid elements, in order and with multiplicity, and true iff none *)
Theorem validate_licenses_spec l :
  validate_licenses T l = Ok (forallb (validb T) l, filter (fun s => negb (validb T s)) l).
Proof.
  induction l as [|s l IH]; [reflexivity|]. cbn [validate_licenses forallb filter]. rewrite IH.
  destruct (parse_cases s) as [[t Ht]|[e He]].
  - assert (HV : validb T s = true) by (apply validb_true; eauto). rewrite Ht, HV. reflexivity.
  - assert (HV : validb T s = false) by (apply validb_false; eauto). rewrite He, HV. reflexivity.
Qed.

(* leaves of a tree are leaves *)
Lemma leaves_are_leaves n : forall acc, Forall (fun x => is_leaf x = true) acc -> Forall (fun x => is_leaf x = true) (leaves n acc).
Proof.
  induction n as [l p e|d r|a IHa b IHb|a IHa b IHb]; intros acc F; simpl; auto;
    apply Forall_app; split; auto; repeat constructor.
Qed.
Lemma canon_all_leaves l : Forall (fun x => is_leaf x = true) l -> canon_all l = Some (map canon_str l).
Proof.
  induction l as [|n l IH]; intros F; [reflexivity|]. inversion F; subst. simpl. rewrite (IH H2).
  destruct n; try discriminate; reflexivity.
Qed.
Lemma leaves_tree_leaves n : forall acc, leaves n acc = acc ++ tree_leaves n.
Proof.
  induction n as [l p e|d r|a IHa b IHb|a IHa b IHb]; intros acc; simpl; try reflexivity;
    rewrite IHb, IHa, app_assoc; reflexivity.
Qed.

(* ExtractLicenses returns an error iff its argument is invalid *)
Theorem extract_licenses_spec e :
  match parse T e with
  | Ok t => extract_licenses T e = Ok (remove_dups [] (map canon_str (tree_leaves t)))
  | Err er => extract_licenses T e = Err er
  | _ => False
  end.
Proof.
  unfold extract_licenses. destruct (parse_total e) as [NP NF].
  destruct (parse T e) as [t|er| |]; try contradiction; [|reflexivity].
  rewrite (canon_all_leaves _ (leaves_are_leaves t [] (Forall_nil _))). rewrite leaves_tree_leaves. reflexivity.
Qed.

(* stringsToNodes: error iff some entry is invalid or compound; never a panic *)
Lemma strings_to_nodes_cases A :
  (exists N, strings_to_nodes T A = Ok N /\ Forall (fun n => is_leaf n = true) N) \/
  (exists er, strings_to_nodes T A = Err er /\ Exists (fun a => validb T a = false \/ exists n, parse T a = Ok n /\ is_leaf n = false) A).
Proof.
  induction A as [|a A IH]; simpl; [left; exists []; split; [reflexivity|constructor]|].
  destruct (parse_cases a) as [[n Hn]|[er Her]].
  - rewrite Hn. destruct (is_leaf n) eqn:EL.
    + destruct IH as [[N [HN FN]]|[er [HE EX]]].
      * rewrite HN. left. exists (n :: N). split; [reflexivity|constructor; assumption].
      * rewrite HE. right. exists er. split; [reflexivity|]. apply Exists_cons_tl. assumption.
    + right. exists ECompoundAllowed. split; [reflexivity|]. apply Exists_cons_hd. right. exists n. auto.
  - rewrite Her. right. exists er. split; [reflexivity|]. apply Exists_cons_hd. left. apply validb_false. eauto.
Qed.
Lemma strings_to_nodes_ok_all A N : strings_to_nodes T A = Ok N ->
  Forall (fun a => exists n, parse T a = Ok n /\ is_leaf n = true) A.
Proof.
  intros H. apply strings_to_nodes_ok in H. induction H as [|a n A N [HP HL] HF IH]; constructor; eauto.
Qed.

(* the error stringsToNodes returns is the parse error of the first entry that fails (or "compound") *)
Lemma strings_to_nodes_error A er : strings_to_nodes T A = Err er ->
  er = ECompoundAllowed \/ exists A1 a A2, A = A1 ++ a :: A2 /\ parse T a = Err er /\ Forall (fun x => validb T x = true) A1.
Proof.
  induction A as [|a A IH]; simpl; [discriminate|].
  destruct (parse T a) as [n|e| |] eqn:EP; try discriminate.
  - destruct (is_leaf n); [|intros H; inversion H; left; reflexivity].
    destruct (strings_to_nodes T A) as [ns|e'| |] eqn:ES; try discriminate.
    intros H; inversion H; subst. destruct (IH eq_refl) as [->|[A1 [b [A2 [-> [Hb HF]]]]]]; [left; reflexivity|].
    right. exists (a :: A1), b, A2. split; [reflexivity|]. split; [assumption|]. constructor; [|assumption].
    unfold validb. rewrite EP. reflexivity.
  - intros H; inversion H; subst. right. exists [], a, A. auto.
Qed.

Lemma sort_and_dedup_leaves N : Forall (fun n => is_leaf n = true) N -> exists N', sort_and_dedup N = Ok N'.
Proof.
  intros F. destruct N as [|n0 [|n1 N]]; [eexists; reflexivity|eexists; reflexivity|].
  unfold sort_and_dedup. rewrite (keyed_leaves _ F). eexists. reflexivity.
Qed.

(* Satisfies returns an error iff the expression is invalid, the allowed list is empty, or some allowed
   entry is invalid or compound; otherwise a Boolean.  Never a panic. *)
Theorem satisfies_cases e A :
  (exists b, satisfies T e A = Ok b /\ validb T e = true /\ A <> [] /\
             Forall (fun a => exists n, parse T a = Ok n /\ is_leaf n = true) A) \/
  (exists er, satisfies T e A = Err er /\
              (validb T e = false \/ A = [] \/ Exists (fun a => validb T a = false \/ exists n, parse T a = Ok n /\ is_leaf n = false) A)).
Proof.
  unfold satisfies. destruct (parse_cases e) as [[t Ht]|[er Her]].
  - rewrite Ht. destruct A as [|a0 A'].
    + right. exists EEmptyAllowed. split; [reflexivity|]. right. left. reflexivity.
    + destruct (strings_to_nodes_cases (a0 :: A')) as [[N [HN FN]]|[er [HE EX]]].
      * rewrite HN. destruct (sort_and_dedup_leaves N FN) as [N' HSD]. rewrite HSD.
        left. eexists. split; [reflexivity|]. split; [apply validb_true; eauto|]. split; [discriminate|].
        eapply strings_to_nodes_ok_all. eassumption.
      * rewrite HE. right. exists er. split; [reflexivity|]. right. right. assumption.
  - rewrite Her. right. exists er. split; [reflexivity|]. left. apply validb_false. eauto.
Qed.

(* C03: for every argument, each exported function returns a value or an error value *)
Theorem no_panic_validate l : validate_licenses T l <> Panic /\ validate_licenses T l <> Fuel.
Proof. rewrite validate_licenses_spec. split; discriminate. Qed.
Theorem no_panic_extract e : extract_licenses T e <> Panic /\ extract_licenses T e <> Fuel.
Proof.
  pose proof (extract_licenses_spec e) as H. destruct (parse T e) as [t|er| |]; try contradiction; rewrite H; split; discriminate.
Qed.
Theorem no_panic_satisfies e A : satisfies T e A <> Panic /\ satisfies T e A <> Fuel.
Proof.
  destruct (satisfies_cases e A) as [[b [H _]]|[er [H _]]]; rewrite H; split; discriminate.
Qed.
End Api.
