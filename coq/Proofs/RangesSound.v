(* '+' reaches exactly the later versions of the same natural family; soundness of the table checkers. *)
From Coq Require Import Lia.
From Spdx Require Import Spec.Version Proofs.BytesFacts Proofs.NodeInv Proofs.MatchProof Proofs.VersionOrder.
Local Open Scope list_scope.

Section R.
Variable T : tables.
Hypothesis HFU : chk_fold_unique T = true.
Hypothesis HOB : chk_orlater_base_ranged T = true.
Hypothesis HKA : chk_ranges_keyed_ascending T = true.
Hypothesis HDF : chk_ranges_distinct_families T = true.

(* X-v1+ matches X-v2 iff same natural family and v2 is the same or a later version *)
Theorem plus_reaches_exactly_later a b e f i g j ka va kb vb :
  leaf_ok T (NLic a true e) -> leaf_ok T (NLic b false e) ->
  position T a = Some (f, i) -> position T b = Some (g, j) ->
  nat_kv a = Some (ka, va) -> nat_kv b = Some (kb, vb) ->
  (compatible T (NLic a true e) (NLic b false e) = true <-> ka = kb /\ ver_leb va vb = true) /\
  (compatible T (NLic b false e) (NLic a true e) = true <-> ka = kb /\ ver_leb va vb = true).
Proof.
  intros La Lb Pa Pb Ka Kb.
  destruct (positions_are_natural T HKA HDF a b f i g j ka va kb vb Pa Pb Ka Kb) as [Hfam Hver].
  assert (Main : term_matches T (NLic a true e) (NLic b false e) <-> ka = kb /\ ver_leb va vb = true).
  { simpl. split.
    - intros [_ [Hb|[f' [i' [j' [H1 [H2 HV]]]]]]].
      + assert (Pab : position T a = position T b) by (unfold position; rewrite Hb; reflexivity).
        rewrite Pa, Pb in Pab. inversion Pab; subst g j.
        unfold nat_kv in Ka, Kb. rewrite Hb, Kb in Ka. inversion Ka; subst. split; [reflexivity|apply ver_leb_refl].
      + rewrite Pa in H1. rewrite Pb in H2. inversion H1; inversion H2; subst.
        split; [apply Hfam; reflexivity|]. apply (Hver eq_refl).
        destruct HV as [[H _]|[[_ [_ H]]|[[H _]|[_ H]]]]; try discriminate. assumption.
    - intros [Hk Hv]. split; [reflexivity|]. right. apply Hfam in Hk. subst g.
      exists f, i, j. repeat split; try assumption. right. left. repeat split. apply (Hver eq_refl). assumption. }
  split.
  - rewrite (compatible_iff_term_matches T HFU HOB _ _ La Lb). exact Main.
  - rewrite (compatible_iff_term_matches T HFU HOB _ _ Lb La). rewrite <- Main.
    split; apply term_matches_sym.
Qed.

(* '+' never makes an id match an id of a different family *)
Theorem plus_never_crosses_family a pa b pb e1 e2 ka va kb vb :
  leaf_ok T (NLic a pa e1) -> leaf_ok T (NLic b pb e2) ->
  nat_kv a = Some (ka, va) -> nat_kv b = Some (kb, vb) ->
  compatible T (NLic a pa e1) (NLic b pb e2) = true -> ka = kb.
Proof.
  intros La Lb Ka Kb H. apply (compatible_iff_term_matches T HFU HOB _ _ La Lb) in H. simpl in H.
  destruct H as [_ [Hb|[f [i [j [H1 [H2 _]]]]]]].
  - unfold nat_kv in Ka, Kb. rewrite Hb, Kb in Ka. inversion Ka. reflexivity.
  - destruct (positions_are_natural T HKA HDF a b f i f j ka va kb vb H1 H2 Ka Kb) as [Hfam _]. apply Hfam. reflexivity.
Qed.
End R.

(* soundness of the remaining checkers, stated for arbitrary tables *)
Lemma str_nodup_spec l : str_nodup l = true -> NoDup l.
Proof.
  induction l as [|x l IH]; simpl; [constructor|]. destruct (existsb (str_eqb x) l) eqn:E; [discriminate|].
  intros H. constructor; [|apply IH; assumption]. intros Hin.
  assert (existsb (str_eqb x) l = true) by (apply existsb_exists; exists x; split; [assumption|apply str_eqb_refl]). congruence.
Qed.
Lemma chk_ranges_listed_sound T : chk_ranges_listed T = true -> forall x, In x (entries T) -> In x (lic_ids T).
Proof.
  unfold chk_ranges_listed. intros H x Hx. rewrite forallb_forall in H. specialize (H x Hx).
  apply existsb_exists in H. destruct H as [y [Hy E]]. apply str_eqb_eq in E. subst. assumption.
Qed.
Lemma chk_ranges_unique_pos_sound T : chk_ranges_unique_pos T = true -> NoDup (entries T).
Proof. apply str_nodup_spec. Qed.
Lemma chk_ranges_complete_sound T : chk_ranges_complete T = true ->
  forall id k v, In id (lic_ids T) -> is_word id = true -> decompose id = Some (k, v) -> covered T k = true ->
  exists pos, position T id = Some pos.
Proof.
  unfold chk_ranges_complete. intros H id k v Hin Hw Hd Hc. rewrite forallb_forall in H. specialize (H id Hin).
  rewrite Hw, Hd, Hc in H. destruct (position T id); [eauto|discriminate].
Qed.

Lemma chk_plus_api_sound T : chk_plus_api T = true ->
  forall row a b ka va kb vb, In row (rngs T) -> In a (concat row) -> In b (concat row) ->
  decompose a = Some (ka, va) -> decompose b = Some (kb, vb) ->
  satisfies T b [a ++ ["+"%char]] = Ok (ver_leb va vb) /\ satisfies T (a ++ ["+"%char]) [b] = Ok (ver_leb va vb).
Proof.
  unfold chk_plus_api. intros H row a b ka va kb vb Hr Ha Hb Da Db. rewrite forallb_forall in H. specialize (H row Hr).
  rewrite forallb_forall in H. specialize (H a Ha). rewrite forallb_forall in H. specialize (H b Hb).
  rewrite Da, Db in H.
  assert (K : forall r w, bool_res_eqb r w = true -> r = Ok w).
  { intros r w E. destruct r as [x| | |]; simpl in E; try discriminate. apply Bool.eqb_prop in E. subst. reflexivity. }
  destruct (bool_res_eqb (satisfies T b [a ++ ["+"%char]]) (ver_leb va vb)) eqn:E1; [|discriminate].
  split; apply K; assumption.
Qed.
