(* C14, on the model: structural size bounds and a linear bound on the evaluator's work. *)
From Coq Require Import Lia.
From Spdx Require Import Model.Ticks Spec.Lex Spec.Grammar Spec.Eval Proofs.BytesFacts Proofs.ScanRef Proofs.ParseGrammar Proofs.Offsets.
Local Open Scope list_scope.

(* erasure: the instrumented functions compute what the model computes *)
Lemma exists_compat_t_fst T n A : fst (exists_compat_t T n A) = existsb (compatible T n) A.
Proof. induction A as [|a A IH]; simpl; [reflexivity|]. destruct (compatible T n a); [reflexivity|]. destruct (exists_compat_t T n A). simpl in *. assumption. Qed.
Lemma exists_compat_t_snd T n A : snd (exists_compat_t T n A) <= length A.
Proof. induction A as [|a A IH]; simpl; [lia|]. destruct (compatible T n a); simpl; [lia|]. destruct (exists_compat_t T n A). simpl in *. lia. Qed.
Theorem satisfied_by_t_erasure T n A : fst (satisfied_by_t T n A) = satisfied_by T n A.
Proof.
  induction n as [l p e|d r|a IHa b IHb|a IHa b IHb]; try apply exists_compat_t_fst; simpl;
    destruct (satisfied_by_t T a A) as [x k]; destruct (satisfied_by_t T b A) as [y k']; simpl in *; subst; destruct (satisfied_by T a A); reflexivity.
Qed.
(* matcher calls + node visits are at most  leaves * |A| + internal nodes : linear in the tree, linear in the list *)
Lemma leaf_le_size n : leaf_count n <= tree_size n.
Proof. induction n; simpl; lia. Qed.
Theorem satisfied_by_t_cost T n A : snd (satisfied_by_t T n A) + leaf_count n <= leaf_count n * length A + tree_size n.
Proof.
  induction n as [l p e|d r|a IHa b IHb|a IHa b IHb].
  - cbn [satisfied_by_t leaf_count tree_size]. pose proof (exists_compat_t_snd T (NLic l p e) A). lia.
  - cbn [satisfied_by_t leaf_count tree_size]. pose proof (exists_compat_t_snd T (NRef d r) A). lia.
  - cbn [satisfied_by_t leaf_count tree_size].
    destruct (satisfied_by_t T a A) as [x k]; destruct (satisfied_by_t T b A) as [y k']. cbn [snd] in *.
    pose proof (leaf_le_size a). pose proof (leaf_le_size b).
    rewrite Nat.mul_add_distr_r. destruct x; cbn [snd]; lia.
  - cbn [satisfied_by_t leaf_count tree_size].
    destruct (satisfied_by_t T a A) as [x k]; destruct (satisfied_by_t T b A) as [y k']. cbn [snd] in *.
    pose proof (leaf_le_size a). pose proof (leaf_le_size b).
    rewrite Nat.mul_add_distr_r. destruct x; cbn [snd]; lia.
Qed.
Theorem leaves_t_erasure n acc : fst (leaves_t n acc) = leaves n acc.
Proof.
  revert acc. induction n as [l p e|d r|a IHa b IHb|a IHa b IHb]; intros acc; simpl; try reflexivity;
    specialize (IHa acc); destruct (leaves_t a acc) as [l1 k1]; simpl in IHa; subst;
    specialize (IHb (leaves a acc)); destruct (leaves_t b (leaves a acc)) as [l2 k2]; simpl in *; assumption.
Qed.
Theorem leaves_t_cost n acc : snd (leaves_t n acc) = tree_size n.
Proof.
  revert acc. induction n as [l p e|d r|a IHa b IHb|a IHa b IHb]; intros acc; simpl; try reflexivity;
    specialize (IHa acc); destruct (leaves_t a acc) as [l1 k1]; simpl in IHa;
    specialize (IHb l1); destruct (leaves_t b l1) as [l2 k2]; simpl in *; lia.
Qed.

(* sizes: a tree has fewer nodes than twice its tokens; tokens are at most the bytes of the text *)
Lemma derives_size :
  (forall ts n, d_atom ts n -> tree_size n <= length ts /\ leaf_count n <= length ts) /\
  (forall ts n, d_and ts n -> tree_size n <= length ts /\ leaf_count n <= length ts) /\
  (forall ts n, d_expr ts n -> tree_size n <= length ts /\ leaf_count n <= length ts).
Proof.
  apply d_mutind; intros; simpl; try lia.
  - rewrite app_length. simpl. lia.
  - rewrite !app_length. simpl. lia.
  - rewrite !app_length. simpl. lia.
Qed.
Theorem tree_size_le_tokens ts n : p_tokens ts = Ok n -> tree_size n <= length ts /\ leaf_count n <= length ts.
Proof. intros H. apply parse_sound_complete in H. destruct derives_size as [_ [_ D]]. apply D. assumption. Qed.

Section Tok.
Variable T : tables.
Hypothesis HT : license_lookup T [] = None.
Lemma ref_item_tokens_le spaced r pos ts r2 pos2 : ref_item T spaced r pos = Ok (ts, r2, pos2) -> length ts + length r2 <= length r.
Proof.
  intros H. pose proof (ref_item_shrinks T HT spaced r pos ts r2 pos2 H) as [Hs Hs2].
  unfold ref_item in H.
  assert (Hlen : length ts = 1 \/ exists t, ts = [t; TOp OPlus]).
  { destruct (first_op ops r) as [[[o r'] n]|].
    - destruct o; try (inversion H; auto). destruct spaced; [discriminate|inversion H; auto].
    - destruct (strip_prefix k_docref r). { destruct (span is_idchar s) as [[|] ?]; inversion H; auto. }
      destruct (strip_prefix k_licref r). { destruct (span is_idchar s) as [[|] ?]; inversion H; auto. }
      destruct (span is_idchar r) as [[|] ?]; [discriminate|]. destruct (classify T _ _); inversion H; eauto. }
  destruct Hlen as [Hl|[t ->]]; [lia|]. specialize (Hs2 t eq_refl). simpl. lia.
Qed.
Lemma ref_scan_tokens_le f : forall r pos acc ts, ref_scan T f r pos acc = Ok ts -> length ts <= length acc + length r.
Proof.
  induction f as [|f IH]; intros r pos acc ts; [discriminate|]. cbn [ref_scan].
  destruct r as [|c r']; [intros H; inversion H; rewrite rev_length; lia|].
  destruct (span is_space (c :: r')) as [sp r1] eqn:ES. destruct (span_spec _ _ _ _ ES) as [Hsplit _].
  destruct r1 as [|c1 r1']; [intros H; inversion H; rewrite rev_length; lia|].
  destruct (ref_item T _ (c1 :: r1') _) as [[[ts1 r2] pos2]|e| |] eqn:ER; try discriminate.
  intros H. apply IH in H. apply ref_item_tokens_le in ER. rewrite app_length, rev_length in H.
  rewrite Hsplit, app_length. lia.
Qed.
Theorem tokens_le_bytes s ts : ref_tokens T s = Ok ts -> length ts <= length s.
Proof. intros H. apply ref_scan_tokens_le in H. simpl in H. assumption. Qed.
End Tok.
