(* Soundness of the boolean table checkers of Spec/WF.v. *)
From Coq Require Import Lia.
From Spdx Require Import Model.Api Spec.WF Proofs.BytesFacts Proofs.NodeInv.
Local Open Scope list_scope.

Lemma is_word_spec w : is_word w = true -> word_ok w.
Proof.
  unfold is_word. destruct w as [|c w]; [discriminate|]. intros H. split; [discriminate|].
  apply Forall_forall. rewrite forallb_forall in H. exact H.
Qed.

Lemma fold_eqb_nil x : fold_eqb x [] = true -> x = [].
Proof. destruct x; [reflexivity|discriminate]. Qed.

Lemma in_list_nil_none l : forallb is_word l = true -> in_list l [] = None.
Proof.
  intros H. unfold in_list. destruct (find (fun x => fold_eqb x []) l) as [p|] eqn:E; [|reflexivity].
  apply find_some in E. destruct E as [Hin Hf]. apply fold_eqb_nil in Hf. subst.
  rewrite forallb_forall in H. specialize (H _ Hin). discriminate.
Qed.

(* the one table hypothesis of the scanner simulation *)
Lemma chk_words_lookup_nil T : chk_words T = true -> license_lookup T [] = None.
Proof.
  unfold chk_words. destruct (forallb is_word (active T)) eqn:Ea; [|discriminate].
  destruct (forallb is_word (excs T)) eqn:Ee; [|discriminate]. intros _.
  unfold license_lookup. rewrite (in_list_nil_none _ Ea), (in_list_nil_none _ Ee). reflexivity.
Qed.

Lemma fold_prefix_of_strip p : forall s r, strip_prefix p s = Some r -> fold_prefix p s = true.
Proof.
  induction p as [|x p IH]; intros s r H; [reflexivity|]. destruct s as [|y s]; [discriminate|]. simpl in *.
  destruct (Ascii.eqb x y) eqn:E; [|discriminate]. apply Ascii.eqb_eq in E. subst. rewrite Ascii.eqb_refl. eapply IH. eassumption.
Qed.

Lemma chk_no_keyword_prefix_noref T : chk_no_keyword_prefix T = true -> forall l, In l (lic_ids T) -> no_ref_prefix l.
Proof.
  unfold chk_no_keyword_prefix. intros H l Hin. rewrite forallb_forall in H.
  assert (Hall : In l (all_ids T)).
  { unfold all_ids, lic_ids in *. apply in_app_or in Hin. apply in_or_app. destruct Hin; [left; assumption|right; apply in_or_app; left; assumption]. }
  specialize (H _ Hall). rewrite forallb_forall in H.
  split.
  - destruct (strip_prefix k_licref l) eqn:E; [|reflexivity]. apply fold_prefix_of_strip in E.
    assert (Hk : In k_licref keywords) by (unfold keywords; simpl; tauto). specialize (H _ Hk). rewrite E in H. discriminate.
  - destruct (strip_prefix k_docref l) eqn:E; [|reflexivity]. apply fold_prefix_of_strip in E.
    assert (Hk : In k_docref keywords) by (unfold keywords; simpl; tauto). specialize (H _ Hk). rewrite E in H. discriminate.
Qed.
