(* Consequences of the closed form of Satisfies: the allowed list is a set, the verdict is monotone in it,
   expressions denoting the same Boolean function get the same verdict; ExtractLicenses returns exactly
   the distinct leaves. *)
From Coq Require Import Lia Permutation.
From Spdx Require Import Model.Api Spec.Grammar Spec.Eval Spec.WF Proofs.BytesFacts Proofs.NodeInv Proofs.Sat Proofs.ApiFacts.
Local Open Scope list_scope.

(* the observable of Satisfies: Some verdict, or None for "an error was returned" *)
Definition obs {A} (r : res A) : option A := match r with Ok b => Some b | _ => None end.

(* the node an allowed entry denotes *)
Definition pn (T : tables) (a : str) : node := match parse T a with Ok n => n | _ => NRef None [] end.
Definition entry_ok (T : tables) (a : str) : Prop := exists n, parse T a = Ok n /\ is_leaf n = true.

Lemma eval_mono v v' t : (forall x, v x = true -> v' x = true) -> eval v t = true -> eval v' t = true.
Proof.
  intros H. induction t as [l p e|d r|a IHa b IHb|a IHa b IHb]; simpl; try apply H.
  - intros E. apply andb_true_iff in E. destruct E as [Ea Eb]. rewrite (IHa Ea), (IHb Eb). reflexivity.
  - intros E. apply orb_true_iff in E. destruct E as [Ea|Eb]; [rewrite (IHa Ea); reflexivity|rewrite (IHb Eb); apply orb_true_r].
Qed.

(* dnf: the alternatives of the Boolean function *)
Lemma existsb_app' {A} (f : A -> bool) l1 l2 : existsb f (l1 ++ l2) = existsb f l1 || existsb f l2.
Proof. apply existsb_app. Qed.
Lemma eval_dnf v t : eval v t = existsb (forallb v) (dnf t).
Proof.
  induction t as [l p e|d r|a IHa b IHb|a IHa b IHb]; simpl; try (rewrite andb_true_r, orb_false_r; reflexivity).
  - rewrite IHa, IHb. clear IHa IHb. induction (dnf a) as [|x xs IH]; simpl; [reflexivity|].
    rewrite existsb_app, <- IH. clear IH.
    assert (H : existsb (forallb v) (map (fun y => x ++ y) (dnf b)) = forallb v x && existsb (forallb v) (dnf b)).
    { induction (dnf b) as [|y ys IHy]; simpl; [rewrite andb_false_r; reflexivity|].
      rewrite IHy, forallb_app. destruct (forallb v x); reflexivity. }
    rewrite H. destruct (forallb v x), (existsb (forallb v) xs), (existsb (forallb v) (dnf b)); reflexivity.
  - rewrite IHa, IHb, existsb_app. reflexivity.
Qed.

Section LawsT.
Variable T : tables.
Hypothesis HT : license_lookup T [] = None.
Hypothesis Hnr : forall l, In l (lic_ids T) -> no_ref_prefix l.

Lemma forall2_pn A N : Forall2 (fun a n => parse T a = Ok n /\ is_leaf n = true) A N -> N = map (pn T) A.
Proof.
  induction 1 as [|a n A N [HP HL] HF IH]; [reflexivity|]. simpl. unfold pn at 1. rewrite HP, IH. reflexivity.
Qed.
Lemma entries_forall2 A : Forall (entry_ok T) A -> Forall2 (fun a n => parse T a = Ok n /\ is_leaf n = true) A (map (pn T) A).
Proof.
  induction 1 as [|a A [n [HP HL]] HF IH]; [constructor|]. simpl. constructor; [|assumption].
  unfold pn. rewrite HP. auto.
Qed.

(* closed form, with the denoted nodes as a function of the list *)
Theorem satisfies_closed e t A :
  parse T e = Ok t -> A <> [] -> Forall (entry_ok T) A ->
  satisfies T e A = Ok (eval (fun x => existsb (compatible T x) (map (pn T) A)) t).
Proof.
  intros HP HA HF. apply (satisfies_is_eval T HT Hnr e t A _ HP HA). apply entries_forall2. assumption.
Qed.

(* an invalid / compound / missing entry anywhere gives an error, whatever else is in the list *)
Lemma satisfies_entries e A b : satisfies T e A = Ok b -> A <> [] /\ Forall (entry_ok T) A /\ exists t, parse T e = Ok t.
Proof.
  intros H. destruct (satisfies_cases T HT e A) as [[b' [H' [HV [HA HF]]]]|[er [H' _]]]; [|rewrite H' in H; discriminate].
  split; [assumption|]. split; [exact HF|]. apply (validb_true T). assumption.
Qed.
Lemma satisfies_err_iff e A :
  obs (satisfies T e A) = None <-> (validb T e = false \/ A = [] \/ ~ Forall (entry_ok T) A).
Proof.
  split.
  - intros H. destruct (satisfies_cases T HT e A) as [[b [H' _]]|[er [H' Hc]]]; [rewrite H' in H; discriminate|].
    destruct Hc as [Hc|[Hc|Hc]]; auto. right. right. intros F. rewrite Forall_forall in F. apply Exists_exists in Hc.
    destruct Hc as [a [Hin [Hv|[n [HP HL]]]]]; destruct (F _ Hin) as [n' [HP' HL']].
    + apply (validb_false T HT) in Hv. destruct Hv as [er' Hv]. rewrite Hv in HP'. discriminate.
    + rewrite HP in HP'. inversion HP'; subst. rewrite HL in HL'. discriminate.
  - intros Hc. destruct (satisfies T e A) as [b| | |] eqn:E; try reflexivity. exfalso.
    apply satisfies_entries in E. destruct E as [HA [HF [t Ht]]].
    destruct Hc as [Hc|[Hc|Hc]]; [|contradiction|contradiction].
    apply (validb_false T HT) in Hc. destruct Hc as [er Hc]. rewrite Hc in Ht. discriminate.
Qed.

(* C07: the verdict depends only on the set of nodes the list denotes *)
Theorem sat_same_set e A A' :
  A <> [] -> A' <> [] -> Forall (entry_ok T) A -> Forall (entry_ok T) A' ->
  (forall n, In n (map (pn T) A) <-> In n (map (pn T) A')) ->
  satisfies T e A = satisfies T e A'.
Proof.
  intros HA HA' HF HF' Hset. destruct (parse_cases T HT e) as [[t Ht]|[er Her]].
  - rewrite (satisfies_closed e t A Ht HA HF), (satisfies_closed e t A' Ht HA' HF'). f_equal.
    apply eval_ext. intros x. apply existsb_set. assumption.
  - unfold satisfies. rewrite Her. reflexivity.
Qed.

Lemma entry_ok_perm A A' : Permutation A A' -> Forall (entry_ok T) A -> Forall (entry_ok T) A'.
Proof. intros P F. rewrite Forall_forall in *. intros x Hx. apply F. eapply Permutation_in; [apply Permutation_sym; eassumption|assumption]. Qed.

Theorem sat_perm e A A' : Permutation A A' -> obs (satisfies T e A) = obs (satisfies T e A').
Proof.
  intros P. destruct (obs (satisfies T e A)) as [b|] eqn:E.
  - destruct (satisfies T e A) as [b'| | |] eqn:E'; try discriminate.
    pose proof E' as E3. apply satisfies_entries in E3. destruct E3 as [HA [HF [t Ht]]].
    assert (HA' : A' <> []) by (intros ->; apply Permutation_sym, Permutation_nil in P; contradiction).
    rewrite <- (sat_same_set e A A' HA HA' HF (entry_ok_perm _ _ P HF)).
    + rewrite E'. symmetry. exact E.
    + intros n. split; intros H; (eapply Permutation_in; [|exact H]); [apply Permutation_map; assumption|apply Permutation_map, Permutation_sym; assumption].
  - symmetry. apply satisfies_err_iff. apply satisfies_err_iff in E. destruct E as [E|[E|E]]; auto.
    + subst. apply Permutation_nil in P. auto.
    + right. right. intros F. apply E. eapply entry_ok_perm; [apply Permutation_sym; eassumption|assumption].
Qed.

Theorem sat_dup e a A : obs (satisfies T e (a :: a :: A)) = obs (satisfies T e (a :: A)).
Proof.
  destruct (obs (satisfies T e (a :: A))) as [b|] eqn:E.
  - destruct (satisfies T e (a :: A)) as [b'| | |] eqn:E'; try discriminate. inversion E; subst.
    pose proof E' as E2. apply satisfies_entries in E2. destruct E2 as [HA [HF [t Ht]]].
    rewrite (sat_same_set e (a :: a :: A) (a :: A)); [rewrite E'; reflexivity|discriminate|discriminate| |assumption|].
    + inversion HF; subst. constructor; assumption.
    + intros n. simpl. tauto.
  - apply satisfies_err_iff. apply satisfies_err_iff in E. destruct E as [E|[E|E]]; auto; [discriminate|].
    right. right. intros F. apply E. inversion F; assumption.
Qed.

(* re-spelling an entry: any two strings that denote the same node are interchangeable *)
Theorem sat_respell e A1 a a' A2 :
  entry_ok T a -> entry_ok T a' -> pn T a = pn T a' ->
  obs (satisfies T e (A1 ++ a :: A2)) = obs (satisfies T e (A1 ++ a' :: A2)).
Proof.
  intros Ha Ha' Hp.
  assert (Hiff : Forall (entry_ok T) (A1 ++ a :: A2) <-> Forall (entry_ok T) (A1 ++ a' :: A2)).
  { rewrite !Forall_app. split; intros [F1 F2]; split; try assumption; inversion F2; subst; constructor; assumption. }
  destruct (obs (satisfies T e (A1 ++ a :: A2))) as [b|] eqn:E.
  - destruct (satisfies T e (A1 ++ a :: A2)) as [b'| | |] eqn:E'; try discriminate. inversion E; subst.
    pose proof E' as E2. apply satisfies_entries in E2. destruct E2 as [HA [HF [t Ht]]].
    rewrite <- (sat_same_set e (A1 ++ a :: A2) (A1 ++ a' :: A2)); [rewrite E'; reflexivity|assumption|destruct A1; discriminate|assumption|apply Hiff; assumption|].
    intros n. rewrite !map_app. simpl. rewrite Hp. tauto.
  - symmetry. apply satisfies_err_iff. apply satisfies_err_iff in E. destruct E as [E|[E|E]]; auto.
    + destruct A1; discriminate.
    + right. right. intros F. apply E. apply Hiff. assumption.
Qed.

(* adding valid entries never turns 'satisfied' into 'not satisfied' *)
Theorem sat_mono e A B :
  satisfies T e A = Ok true -> Forall (entry_ok T) B ->
  satisfies T e (A ++ B) = Ok true /\ satisfies T e (B ++ A) = Ok true.
Proof.
  intros H HB. pose proof H as H2. apply satisfies_entries in H2. destruct H2 as [HA [HF [t Ht]]].
  rewrite (satisfies_closed e t A Ht HA HF) in H. inversion H as [Hev].
  split.
  - rewrite (satisfies_closed e t (A ++ B) Ht); [|destruct A; [contradiction|discriminate]|apply Forall_app; split; assumption].
    f_equal. rewrite Hev. eapply eval_mono; [|exact Hev]. intros x Hx. rewrite map_app, existsb_app, Hx. reflexivity.
  - rewrite (satisfies_closed e t (B ++ A) Ht); [|destruct B; [assumption|discriminate]|apply Forall_app; split; assumption].
    f_equal. rewrite Hev. eapply eval_mono; [|exact Hev]. intros x Hx. rewrite map_app, existsb_app, Hx. apply orb_true_r.
Qed.

(* C10: two valid expressions denoting the same Boolean function get the same answer under every list *)
Theorem sat_same_function e1 t1 e2 t2 A :
  parse T e1 = Ok t1 -> parse T e2 = Ok t2 -> (forall v, eval v t1 = eval v t2) ->
  satisfies T e1 A = satisfies T e2 A.
Proof.
  intros H1 H2 Hf. unfold satisfies. rewrite H1, H2. destruct A as [|a0 A']; [reflexivity|].
  destruct (strings_to_nodes T (a0 :: A')) as [N|er| |]; try reflexivity.
  destruct (sort_and_dedup N) as [N'|er| |]; try reflexivity.
  rewrite !satisfied_by_eval, Hf. reflexivity.
Qed.
(* Satisfies("(E) AND (F)") = Satisfies(E) and Satisfies(F), at the level of the parsed trees *)
Theorem sat_and_or e t a b A :
  parse T e = Ok t -> A <> [] -> Forall (entry_ok T) A ->
  let v := fun x => existsb (compatible T x) (map (pn T) A) in
  (t = NAnd a b -> satisfies T e A = Ok (eval v a && eval v b)) /\
  (t = NOr a b -> satisfies T e A = Ok (eval v a || eval v b)).
Proof.
  intros HP HA HF v. split; intros ->; rewrite (satisfies_closed e _ A HP HA HF); reflexivity.
Qed.

(* never 'satisfied' while every alternative has an uncovered required term; never 'not satisfied'
   when one alternative is fully covered *)
Theorem sat_alternatives e t A :
  parse T e = Ok t -> A <> [] -> Forall (entry_ok T) A ->
  let v := fun x => existsb (compatible T x) (map (pn T) A) in
  (satisfies T e A = Ok true <-> exists alt, In alt (dnf t) /\ forall x, In x alt -> v x = true).
Proof.
  intros HP HA HF v. rewrite (satisfies_closed e t A HP HA HF). fold v. rewrite eval_dnf. split.
  - intros H. assert (H1 : existsb (forallb v) (dnf t) = true) by congruence. apply existsb_exists in H1. destruct H1 as [alt [Hin Hall]].
    exists alt. split; [assumption|]. rewrite forallb_forall in Hall. exact Hall.
  - intros [alt [Hin Hall]]. f_equal. apply existsb_exists. exists alt. split; [assumption|]. apply forallb_forall. exact Hall.
Qed.
End LawsT.

(* ---- the Boolean laws named by C10, on trees ---- *)
Lemma law_comm_and v a b : eval v (NAnd a b) = eval v (NAnd b a). Proof. simpl. apply andb_comm. Qed.
Lemma law_comm_or v a b : eval v (NOr a b) = eval v (NOr b a). Proof. simpl. apply orb_comm. Qed.
Lemma law_assoc_and v a b c : eval v (NAnd (NAnd a b) c) = eval v (NAnd a (NAnd b c)). Proof. simpl. symmetry. apply andb_assoc. Qed.
Lemma law_assoc_or v a b c : eval v (NOr (NOr a b) c) = eval v (NOr a (NOr b c)). Proof. simpl. symmetry. apply orb_assoc. Qed.
Lemma law_idem_and v a : eval v (NAnd a a) = eval v a. Proof. simpl. apply andb_diag. Qed.
Lemma law_idem_or v a : eval v (NOr a a) = eval v a. Proof. simpl. apply orb_diag. Qed.
Lemma law_absorb_and v a b : eval v (NAnd a (NOr a b)) = eval v a. Proof. simpl. destruct (eval v a), (eval v b); reflexivity. Qed.
Lemma law_absorb_or v a b : eval v (NOr a (NAnd a b)) = eval v a. Proof. simpl. destruct (eval v a), (eval v b); reflexivity. Qed.
Lemma law_distr v a b c : eval v (NAnd a (NOr b c)) = eval v (NOr (NAnd a b) (NAnd a c)). Proof. simpl. apply andb_orb_distrib_r. Qed.

(* ---- ExtractLicenses: exactly the distinct canonical spellings of the leaves ---- *)
Lemma remove_dups_spec l : forall seen,
  NoDup (remove_dups seen l) /\ (forall x, In x (remove_dups seen l) <-> In x l /\ ~ In x seen).
Proof.
  induction l as [|y l IH]; intros seen; simpl; [split; [constructor|intros x; tauto]|].
  destruct (existsb (str_eqb y) seen) eqn:E.
  - destruct (IH seen) as [ND Hin]. split; [assumption|]. intros x. rewrite Hin.
    apply existsb_exists in E. destruct E as [z [Hz Hy]]. apply str_eqb_eq in Hy. subst z.
    split; [intros [H1 H2]; auto|]. intros [[->|H1] H2]; [contradiction|auto].
  - destruct (IH (y :: seen)) as [ND Hin].
    assert (Hy : ~ In y seen).
    { intros Hy. assert (existsb (str_eqb y) seen = true) by (apply existsb_exists; exists y; split; [assumption|apply str_eqb_refl]). congruence. }
    split.
    + constructor; [|assumption]. intros H. apply Hin in H. destruct H as [_ H]. apply H. left. reflexivity.
    + intros x. simpl. rewrite Hin. simpl. split.
      * intros [->|[H1 H2]]; [auto|]. split; [auto|]. intros H. apply H2. right. assumption.
      * intros [[->|H1] H2]; [auto|]. destruct (list_eq_dec Ascii.ascii_dec y x) as [->|Hne]; [auto|].
        right. split; [assumption|]. intros [H|H]; [contradiction|contradiction].
Qed.

Theorem extract_exact T (HT : license_lookup T [] = None) e t :
  parse T e = Ok t ->
  exists l, extract_licenses T e = Ok l /\ NoDup l /\ forall x, In x l <-> In x (map canon_str (tree_leaves t)).
Proof.
  intros HP. pose proof (extract_licenses_spec T HT e) as H. rewrite HP in H.
  eexists. split; [exact H|]. destruct (remove_dups_spec (map canon_str (tree_leaves t)) []) as [ND Hin].
  split; [assumption|]. intros x. rewrite Hin. simpl. tauto.
Qed.
Theorem extract_invalid T (HT : license_lookup T [] = None) e : validb T e = false -> exists er, extract_licenses T e = Err er.
Proof.
  intros HV. apply validb_false in HV; [|assumption]. destruct HV as [er Her].
  pose proof (extract_licenses_spec T HT e) as H. rewrite Her in H. eauto.
Qed.
(* term-preserving rewrites keep the extracted set *)
Theorem extract_same_leaves T (HT : license_lookup T [] = None) e1 t1 e2 t2 l1 l2 :
  parse T e1 = Ok t1 -> parse T e2 = Ok t2 ->
  (forall x, In x (tree_leaves t1) <-> In x (tree_leaves t2)) ->
  extract_licenses T e1 = Ok l1 -> extract_licenses T e2 = Ok l2 -> forall x, In x l1 <-> In x l2.
Proof.
  intros H1 H2 Hl E1 E2 x.
  destruct (extract_exact T HT e1 t1 H1) as [l1' [E1' [_ I1]]]. destruct (extract_exact T HT e2 t2 H2) as [l2' [E2' [_ I2]]].
  rewrite E1 in E1'. rewrite E2 in E2'. inversion E1'; inversion E2'; subst. rewrite I1, I2, !in_map_iff.
  split; intros [n [Hn Hin]]; exists n; (split; [assumption|apply Hl; assumption]).
Qed.
