(* Error offsets of the reference tokeniser (hence, by scan_refines, of the scanner of scan.go) are
   positions in the caller's own string, and the cited lexeme is found at exactly that offset. *)
From Coq Require Import Lia.
From Spdx Require Import Model.Scan Model.Parse Spec.Lex Proofs.BytesFacts Proofs.ScanRef.
Local Open Scope list_scope.

Section Off.
Variable T : tables.

(* a successful item consumes a prefix of the text and advances the offset by its length *)
Lemma ref_item_consumes spaced r pos ts r2 pos2 :
  ref_item T spaced r pos = Ok (ts, r2, pos2) -> exists c, r = c ++ r2 /\ pos2 = pos + length c.
Proof.
  unfold ref_item. rewrite first_op_first_op'.
  destruct (first_op' ops r) as [[[p o] r']|] eqn:EO.
  - apply first_op'_split in EO. subst r. intros H. exists p.
    destruct o; try (inversion H; subst; auto). destruct spaced; [discriminate|inversion H; subst; auto].
  - destruct (strip_prefix k_docref r) as [ra|] eqn:ED.
    + apply strip_prefix_spec in ED. subst r.
      destruct (span is_idchar ra) as [id rb] eqn:ES. destruct (span_spec _ _ _ _ ES) as [-> _].
      destruct id; [discriminate|]. intros H; inversion H; subst.
      exists (k_docref ++ a :: id). rewrite <- app_assoc. split; [reflexivity|]. rewrite app_length. simpl. lia.
    + destruct (strip_prefix k_licref r) as [ra|] eqn:EL.
      * apply strip_prefix_spec in EL. subst r.
        destruct (span is_idchar ra) as [id rb] eqn:ES. destruct (span_spec _ _ _ _ ES) as [-> _].
        destruct id; [discriminate|]. intros H; inversion H; subst.
        exists (k_licref ++ a :: id). rewrite <- app_assoc. split; [reflexivity|]. rewrite app_length. simpl. lia.
      * destruct (span is_idchar r) as [w rb] eqn:ES. destruct (span_spec _ _ _ _ ES) as [-> _].
        destruct w as [|w0 w']; [discriminate|]. remember (w0 :: w') as w eqn:Ew.
        destruct (classify T w (next_is_plus rb)) as [t|t|t|] eqn:EC; intros H; inversion H; subst ts r2 pos2.
        -- exists w. auto.
        -- apply classify_eat in EC. destruct rb as [|c rb']; [discriminate|]. simpl in EC. apply Ascii.eqb_eq in EC. subst c.
           exists (w ++ ["+"%char]). rewrite <- app_assoc. split; [reflexivity|]. rewrite app_length. simpl. lia.
        -- exists w. auto.
Qed.

(* where an item fails, and with which lexeme *)
Lemma ref_item_error spaced r pos e :
  ref_item T spaced r pos = Err e ->
  match e with
  | EUnknownLicense w o => o = pos /\ exists q, r = w ++ q
  | EExpectedId o => exists p q, r = p ++ q /\ o = pos + length p /\ match q with [] => True | c :: _ => is_idchar c = false end
  | _ => True
  end.
Proof.
  unfold ref_item. rewrite first_op_first_op'.
  destruct (first_op' ops r) as [[[p o] r']|] eqn:EO.
  - destruct o; try discriminate. destruct spaced; [|discriminate]. intros H; inversion H; exact I.
  - destruct (strip_prefix k_docref r) as [ra|] eqn:ED.
    + apply strip_prefix_spec in ED. subst r.
      destruct (span is_idchar ra) as [id rb] eqn:ES. destruct (span_spec _ _ _ _ ES) as [-> [_ Hb]].
      destruct id; [|discriminate]. intros H; inversion H; subst. exists k_docref, rb. auto.
    + destruct (strip_prefix k_licref r) as [ra|] eqn:EL.
      * apply strip_prefix_spec in EL. subst r.
        destruct (span is_idchar ra) as [id rb] eqn:ES. destruct (span_spec _ _ _ _ ES) as [-> [_ Hb]].
        destruct id; [|discriminate]. intros H; inversion H; subst. exists k_licref, rb. auto.
      * destruct (span is_idchar r) as [w rb] eqn:ES. destruct (span_spec _ _ _ _ ES) as [-> [_ Hb]].
        destruct w as [|w0 w'].
        -- intros H; inversion H; subst. exists [], rb. simpl. repeat split; [lia|assumption].
        -- destruct (classify T (w0 :: w') (next_is_plus rb)); try discriminate.
           intros H; inversion H; subst. split; [reflexivity|]. exists rb. reflexivity.
Qed.

Lemma ref_scan_offsets f : forall pre r acc e,
  ref_scan T f r (length pre) acc = Err e ->
  match e with
  | EUnknownLicense w o => exists p q, pre ++ r = p ++ w ++ q /\ o = length p
  | EExpectedId o => exists p q, pre ++ r = p ++ q /\ o = length p /\ match q with [] => True | c :: _ => is_idchar c = false end
  | _ => True
  end.
Proof.
  induction f as [|f IH]; intros pre r acc e; [discriminate|].
  cbn [ref_scan]. destruct r as [|c r']; [discriminate|].
  destruct (span is_space (c :: r')) as [sp r1] eqn:ES. destruct (span_spec _ _ _ _ ES) as [Hsplit _].
  destruct r1 as [|c1 r1']; [discriminate|].
  destruct (ref_item T _ (c1 :: r1') _) as [[[ts r2] pos2]|e'| |] eqn:ER; try discriminate.
  - apply ref_item_consumes in ER. destruct ER as [cons [Hc Hp]].
    intros H. replace pos2 with (length (pre ++ sp ++ cons)) in H by (rewrite !app_length; lia).
    apply IH in H. rewrite Hsplit, Hc. rewrite <- !app_assoc in H. exact H.
  - intros H; inversion H; subst e'. apply ref_item_error in ER. destruct e as [w o|o| | | | |]; try exact I.
    + destruct ER as [-> [q Hq]]. exists (pre ++ sp), q. rewrite Hsplit, Hq, app_length, <- !app_assoc. auto.
    + destruct ER as [p [q [Hr [-> Hq]]]]. exists (pre ++ sp ++ p), q. rewrite Hsplit, Hr, !app_length, <- !app_assoc.
      repeat split; [lia|assumption].
Qed.

(* C15 on the reference tokeniser *)
Theorem ref_tokens_offsets s e :
  ref_tokens T s = Err e ->
  match e with
  | EUnknownLicense w o => o + length w <= length s /\ firstn (length w) (skipn o s) = w
  | EExpectedId o => o <= length s /\ match skipn o s with [] => True | c :: _ => is_idchar c = false end
  | _ => True
  end.
Proof.
  unfold ref_tokens. intros H. apply (ref_scan_offsets _ [] s [] e) in H. destruct e as [w o|o| | | | |]; try exact I.
  - destruct H as [p [q [Hs ->]]]. simpl in Hs. subst s. rewrite !app_length. split; [lia|].
    rewrite skipn_app, skipn_all, Nat.sub_diag. simpl. rewrite firstn_app, firstn_all, Nat.sub_diag. simpl. apply app_nil_r.
  - destruct H as [p [q [Hs [-> Hq]]]]. simpl in Hs. subst s. rewrite app_length. split; [lia|].
    rewrite skipn_app, skipn_all, Nat.sub_diag. simpl. exact Hq.
Qed.
End Off.
