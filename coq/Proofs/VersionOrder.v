(* The version order is a strict total order; positions in a well-formed family table reflect it. *)
From Coq Require Import Lia NArith.
From Spdx Require Import Spec.Version Proofs.BytesFacts.
Local Open Scope list_scope.

(* ---- ver_cmp is a total order whose Eq is equality ---- *)
Lemma nums_cmp_eq a : forall b, nums_cmp a b = Eq -> a = b.
Proof.
  induction a as [|x a IH]; intros [|y b]; simpl; try discriminate; [reflexivity|].
  destruct (N.compare x y) eqn:E; try discriminate. apply N.compare_eq in E. subst. intros H. f_equal. apply IH. assumption.
Qed.
Lemma nums_cmp_refl a : nums_cmp a a = Eq.
Proof. induction a as [|x a IH]; simpl; [reflexivity|]. rewrite N.compare_refl. assumption. Qed.
Lemma nums_cmp_antisym a : forall b, nums_cmp b a = CompOpp (nums_cmp a b).
Proof.
  induction a as [|x a IH]; intros [|y b]; simpl; try reflexivity.
  rewrite (N.compare_antisym x y). destruct (N.compare x y); simpl; auto.
Qed.
Lemma nums_cmp_lt_trans a : forall b c, nums_cmp a b = Lt -> nums_cmp b c = Lt -> nums_cmp a c = Lt.
Proof.
  induction a as [|x a IH]; intros [|y b] [|z c]; simpl; try discriminate; try reflexivity.
  destruct (N.compare x y) eqn:E1; try discriminate; destruct (N.compare y z) eqn:E2; try discriminate; intros H1 H2.
  - apply N.compare_eq in E1, E2. subst. rewrite N.compare_refl. eapply IH; eassumption.
  - apply N.compare_eq in E1. subst. rewrite E2. reflexivity.
  - apply N.compare_eq in E2. subst. rewrite E1. reflexivity.
  - assert (E : N.compare x z = Lt).
    { apply N.compare_lt_iff. apply N.compare_lt_iff in E1. apply N.compare_lt_iff in E2. eapply N.lt_trans; eassumption. }
    rewrite E. reflexivity.
Qed.
Lemma nat_of_ascii_inj x y : nat_of_ascii x = nat_of_ascii y -> x = y.
Proof. intros H. rewrite <- (ascii_nat_embedding x), <- (ascii_nat_embedding y), H. reflexivity. Qed.
Lemma letter_cmp_eq a b : letter_cmp a b = Eq -> a = b.
Proof.
  destruct a as [x|], b as [y|]; simpl; try discriminate; [|reflexivity].
  intros H. apply Nat.compare_eq in H. apply nat_of_ascii_inj in H. subst. reflexivity.
Qed.
Lemma letter_cmp_refl a : letter_cmp a a = Eq.
Proof. destruct a; simpl; [apply Nat.compare_refl|reflexivity]. Qed.
Lemma letter_cmp_antisym a b : letter_cmp b a = CompOpp (letter_cmp a b).
Proof. destruct a, b; simpl; try reflexivity. apply Nat.compare_antisym. Qed.
Lemma letter_cmp_lt_trans a b c : letter_cmp a b = Lt -> letter_cmp b c = Lt -> letter_cmp a c = Lt.
Proof.
  destruct a, b, c; simpl; try discriminate; try reflexivity. intros H1 H2.
  apply Nat.compare_lt_iff in H1, H2. apply Nat.compare_lt_iff. lia.
Qed.

Lemma ver_cmp_eq a b : ver_cmp a b = Eq -> a = b.
Proof.
  unfold ver_cmp. destruct a as [na la], b as [nb lb]. simpl.
  destruct (nums_cmp na nb) eqn:E; try discriminate. apply nums_cmp_eq in E. intros H. apply letter_cmp_eq in H. subst. reflexivity.
Qed.
Lemma ver_cmp_refl a : ver_cmp a a = Eq.
Proof. unfold ver_cmp. rewrite nums_cmp_refl. apply letter_cmp_refl. Qed.
Lemma ver_cmp_antisym a b : ver_cmp b a = CompOpp (ver_cmp a b).
Proof.
  unfold ver_cmp. rewrite (nums_cmp_antisym (fst a) (fst b)). destruct (nums_cmp (fst a) (fst b)); simpl; auto.
  apply letter_cmp_antisym.
Qed.
Lemma ver_lt_trans a b c : ver_ltb a b = true -> ver_ltb b c = true -> ver_ltb a c = true.
Proof.
  unfold ver_ltb, ver_cmp. destruct a as [na la], b as [nb lb], c as [nc lc]. simpl.
  destruct (nums_cmp na nb) eqn:E1; try discriminate; destruct (nums_cmp nb nc) eqn:E2; try discriminate.
  - apply nums_cmp_eq in E1, E2. subst. rewrite nums_cmp_refl.
    destruct (letter_cmp la lb) eqn:L1; try discriminate. destruct (letter_cmp lb lc) eqn:L2; try discriminate.
    rewrite (letter_cmp_lt_trans _ _ _ L1 L2). reflexivity.
  - apply nums_cmp_eq in E1. subst. rewrite E2. reflexivity.
  - apply nums_cmp_eq in E2. subst. rewrite E1. reflexivity.
  - rewrite (nums_cmp_lt_trans _ _ _ E1 E2). reflexivity.
Qed.
Lemma ver_eqb_eq a b : ver_eqb a b = true -> a = b.
Proof. unfold ver_eqb. destruct (ver_cmp a b) eqn:E; try discriminate. intros _. apply ver_cmp_eq. assumption. Qed.
Lemma ver_lt_leb a b : ver_ltb a b = true -> ver_leb a b = true.
Proof. unfold ver_ltb, ver_leb. destruct (ver_cmp a b); auto. Qed.
Lemma ver_leb_refl a : ver_leb a a = true.
Proof. unfold ver_leb. rewrite ver_cmp_refl. reflexivity. Qed.
Lemma ver_lt_not_leb a b : ver_ltb a b = true -> ver_leb b a = false.
Proof. unfold ver_ltb, ver_leb. rewrite (ver_cmp_antisym a b). destruct (ver_cmp a b); simpl; auto; discriminate. Qed.
Lemma key_eqb_eq a b : key_eqb a b = true -> a = b.
Proof.
  unfold key_eqb. destruct a as [a1 a2], b as [b1 b2]. simpl. destruct (str_eqb a1 b1) eqn:E1; [|discriminate].
  intros E2. apply str_eqb_eq in E1, E2. subst. reflexivity.
Qed.
Lemma key_eqb_refl a : key_eqb a a = true.
Proof. unfold key_eqb. rewrite !str_eqb_refl. reflexivity. Qed.

(* ---- positions ---- *)
Lemma find_group_spec x row : forall j0 j, find_group x row j0 = Some j ->
  exists g, nth_error row (j - j0) = Some g /\ In x g /\ j0 <= j.
Proof.
  induction row as [|g row IH]; intros j0 j; simpl; [discriminate|].
  destruct (existsb (str_eqb x) g) eqn:E.
  - intros H; inversion H; subst. exists g. rewrite Nat.sub_diag. simpl. split; [reflexivity|]. split; [|lia].
    apply existsb_exists in E. destruct E as [y [Hy Exy]]. apply str_eqb_eq in Exy. subst. assumption.
  - intros H. apply IH in H. destruct H as [g' [Hn [Hin Hle]]]. exists g'.
    replace (j - j0) with (S (j - S j0)) by lia. simpl. split; [assumption|]. split; [assumption|lia].
Qed.
Lemma find_row_spec x rows : forall i0 i j, find_row x rows i0 = Some (i, j) ->
  exists row g, nth_error rows (i - i0) = Some row /\ nth_error row j = Some g /\ In x g /\ i0 <= i.
Proof.
  induction rows as [|row rows IH]; intros i0 i j; simpl; [discriminate|].
  destruct (find_group x row 0) as [j'|] eqn:E.
  - intros H; inversion H; subst. apply find_group_spec in E. destruct E as [g [Hn [Hin _]]].
    rewrite Nat.sub_0_r in Hn. exists row, g. rewrite Nat.sub_diag. simpl. repeat split; auto.
  - intros H. apply IH in H. destruct H as [row' [g [Hr [Hg [Hin Hle]]]]]. exists row', g.
    replace (i - i0) with (S (i - S i0)) by lia. simpl. repeat split; auto. lia.
Qed.

(* ---- a well-formed row ---- *)
Lemma group_kv_spec g k v : group_kv g = Some (k, v) -> forall x, In x g -> decompose x = Some (k, v).
Proof.
  unfold group_kv. destruct g as [|x0 g']; [discriminate|].
  destruct (decompose x0) as [[k0 v0]|] eqn:E0; [|discriminate].
  destruct (forallb _ g') eqn:EF; [|discriminate]. intros H; inversion H; subst.
  intros x [->|Hin]; [assumption|]. rewrite forallb_forall in EF. specialize (EF x Hin).
  destruct (decompose x) as [[k' v']|]; [|discriminate].
  destruct (key_eqb k k') eqn:EK; [|discriminate]. apply key_eqb_eq in EK. apply ver_eqb_eq in EF. subst. reflexivity.
Qed.

Lemma row_ascending_spec k : forall row prev, row_ascending k prev row = true ->
  forall j g, nth_error row j = Some g -> exists v, group_kv g = Some (k, v) /\
     (forall p, prev = Some p -> ver_ltb p v = true) /\
     forall j' g', j < j' -> nth_error row j' = Some g' -> exists v', group_kv g' = Some (k, v') /\ ver_ltb v v' = true.
Proof.
  induction row as [|g0 row IH]; intros prev H j g Hn; [destruct j; discriminate|].
  simpl in H. destruct (group_kv g0) as [[k' v0]|] eqn:EG; [|discriminate].
  destruct (key_eqb k k') eqn:EK; [|discriminate]. apply key_eqb_eq in EK. subst k'.
  destruct (match prev with Some p => ver_ltb p v0 | None => true end) eqn:EP; [|discriminate].
  destruct j as [|j].
  - simpl in Hn. inversion Hn; subst. exists v0. split; [assumption|]. split.
    + intros p ->. assumption.
    + intros j' g' Hlt Hn'. destruct j' as [|j']; [lia|]. simpl in Hn'.
      destruct (IH (Some v0) H j' g' Hn') as [v' [Hg' [Hp _]]]. exists v'. split; [assumption|]. apply Hp. reflexivity.
  - simpl in Hn. destruct (IH (Some v0) H j g Hn) as [v [Hg [Hp Hlater]]]. exists v. split; [assumption|]. split.
    + intros p ->. eapply ver_lt_trans; [exact EP|]. apply Hp. reflexivity.
    + intros j' g' Hlt Hn'. destruct j' as [|j']; [lia|]. simpl in Hn'. apply (Hlater j' g'); [lia|assumption].
Qed.

Lemma keys_nodup_spec l : keys_nodup l = true ->
  forall i j k, nth_error l i = Some (Some k) -> nth_error l j = Some (Some k) -> i = j.
Proof.
  induction l as [|o l IH]; intros H i j k Hi Hj; [destruct i; discriminate|].
  simpl in H. destruct o as [k0|]; [|discriminate].
  destruct (existsb _ l) eqn:E; [discriminate|].
  assert (Hno : forall n, nth_error l n <> Some (Some k0)).
  { intros n Hn. assert (existsb (fun o => match o with Some k' => key_eqb k0 k' | None => false end) l = true).
    { apply existsb_exists. exists (Some k0). split; [eapply nth_error_In; eassumption|apply key_eqb_refl]. }
    congruence. }
  destruct i as [|i], j as [|j]; simpl in *; auto.
  - inversion Hi; subst. exfalso. eapply Hno; eassumption.
  - inversion Hj; subst. exfalso. eapply Hno; eassumption.
  - f_equal. eapply IH; eassumption.
Qed.

Section Pos.
Variable T : tables.
Hypothesis HKA : chk_ranges_keyed_ascending T = true.
Hypothesis HDF : chk_ranges_distinct_families T = true.

(* the natural key and version of an id, read off its base (the text without -or-later) *)
Definition nat_kv (id : str) := decompose (base_id id).

Lemma position_kv id f i : position T id = Some (f, i) ->
  exists row k v, nth_error (rngs T) f = Some row /\ row_key row = Some k /\ row_ascending k None row = true /\
                  nat_kv id = Some (k, v) /\ exists g, nth_error row i = Some g /\ group_kv g = Some (k, v).
Proof.
  unfold position. intros H. apply find_row_spec in H. destruct H as [row [g [Hr [Hg [Hin _]]]]].
  rewrite Nat.sub_0_r in Hr.
  unfold chk_ranges_keyed_ascending in HKA. rewrite forallb_forall in HKA.
  specialize (HKA row (nth_error_In _ _ Hr)). destruct (row_key row) as [k|] eqn:ERK; [|discriminate].
  destruct (row_ascending_spec k row None HKA i g Hg) as [v [Hkv _]].
  exists row, k, v. repeat split; try assumption.
  - unfold nat_kv. eapply group_kv_spec; eassumption.
  - exists g. auto.
Qed.

(* positions reflect the natural family and the natural version order *)
Theorem positions_are_natural a b f i g j ka va kb vb :
  position T a = Some (f, i) -> position T b = Some (g, j) ->
  nat_kv a = Some (ka, va) -> nat_kv b = Some (kb, vb) ->
  (f = g <-> ka = kb) /\ (f = g -> (i <= j <-> ver_leb va vb = true)).
Proof.
  intros Pa Pb Ka Kb.
  destruct (position_kv a f i Pa) as [rowa [k1 [v1 [Hra [Hka [Hasc_a [Hkva [ga [Hga Hgkva]]]]]]]]].
  destruct (position_kv b g j Pb) as [rowb [k2 [v2 [Hrb [Hkb [Hasc_b [Hkvb [gb [Hgb Hgkvb]]]]]]]]].
  rewrite Ka in Hkva. rewrite Kb in Hkvb. inversion Hkva; inversion Hkvb; subst k1 v1 k2 v2.
  split.
  - split.
    + intros ->. rewrite Hra in Hrb. inversion Hrb; subst. rewrite Hka in Hkb. inversion Hkb. reflexivity.
    + intros ->. unfold chk_ranges_distinct_families in HDF.
      apply (keys_nodup_spec _ HDF f g kb); rewrite nth_error_map.
      * rewrite Hra. simpl. rewrite Hka. reflexivity.
      * rewrite Hrb. simpl. rewrite Hkb. reflexivity.
  - intros ->. rewrite Hra in Hrb. inversion Hrb; subst rowb.
    destruct (Nat.lt_trichotomy i j) as [Hlt|[->|Hgt]].
    + destruct (row_ascending_spec ka rowa None Hasc_a i ga Hga) as [v [Hv [_ Hlater]]].
      rewrite Hgkva in Hv. inversion Hv; subst v.
      destruct (Hlater j gb Hlt Hgb) as [v' [Hv' Hltv]]. rewrite Hgkvb in Hv'. inversion Hv'; subst.
      split; [intros _; apply ver_lt_leb; assumption|intros _; lia].
    + rewrite Hga in Hgb. inversion Hgb; subst. rewrite Hgkva in Hgkvb. inversion Hgkvb; subst.
      split; [intros _; apply ver_leb_refl|intros _; lia].
    + destruct (row_ascending_spec kb rowa None Hasc_b j gb Hgb) as [v [Hv [_ Hlater]]].
      rewrite Hgkvb in Hv. inversion Hv; subst v.
      destruct (Hlater i ga Hgt Hga) as [v' [Hv' Hltv]]. rewrite Hgkva in Hv'. inversion Hv'; subst.
      split; [intros; lia|]. rewrite (ver_lt_not_leb _ _ Hltv). discriminate.
Qed.
End Pos.
