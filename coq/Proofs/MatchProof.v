(* compatible (the code's matcher) decides exactly term_matches (the rule of the property text) on parser output. *)
From Coq Require Import Lia.
From Spdx Require Import Model.Api Spec.WF Spec.MatchSpec Proofs.BytesFacts Proofs.NodeInv.
Local Open Scope list_scope.

Lemma opt_str_eqb_eq a b : opt_str_eqb a b = true <-> a = b.
Proof.
  destruct a as [x|], b as [y|]; simpl; split; intros H; try discriminate; try reflexivity.
  - apply str_eqb_eq in H. subst. reflexivity.
  - inversion H; subst. apply str_eqb_refl.
Qed.

Lemma simplify_base l : simplify l = base_id l. Proof. reflexivity. Qed.
Lemma license_range_position T l : license_range T l = position T l. Proof. reflexivity. Qed.

(* fold-uniqueness of a list: two members equal up to case are equal *)
Lemma fold_nodup_spec l : fold_nodup l = true -> forall x y, In x l -> In y l -> fold_eqb x y = true -> x = y.
Proof.
  induction l as [|z l IH]; simpl; [contradiction|]. destruct (existsb (fold_eqb z) l) eqn:E; [discriminate|].
  intros H x y [->|Hx] [->|Hy] F; auto.
  - exfalso. assert (existsb (fold_eqb x) l = true) by (apply existsb_exists; exists y; auto). congruence.
  - exfalso. rewrite fold_eqb_sym in F. assert (existsb (fold_eqb y) l = true) by (apply existsb_exists; exists x; auto). congruence.
Qed.

Lemma chk_fold_unique_sound T : chk_fold_unique T = true -> forall x y, In x (all_ids T) -> In y (all_ids T) -> fold_eqb x y = true -> x = y.
Proof. unfold chk_fold_unique. apply fold_nodup_spec. Qed.

Lemma version_rule_sym p1 p2 i j : version_rule p1 p2 i j -> version_rule p2 p1 j i.
Proof. unfold version_rule. intros [H|[H|[H|H]]]; [left|right; right; left|right; left|right; right; right]; intuition. Qed.

Theorem term_matches_sym T a b : term_matches T a b -> term_matches T b a.
Proof.
  destruct a as [l1 p1 e1|d1 r1| |], b as [l2 p2 e2|d2 r2| |]; simpl; try tauto.
  - intros [He [Hb|[f [i [j [H1 [H2 H3]]]]]]]; split; auto.
    right. exists f, j, i. repeat split; auto. apply version_rule_sym. assumption.
  - intros [-> ->]. auto.
Qed.
Theorem term_matches_refl T a : is_leaf a = true -> term_matches T a a.
Proof. destruct a; simpl; try discriminate; auto. Qed.
Theorem lic_never_matches_ref T l p e d r : ~ term_matches T (NLic l p e) (NRef d r) /\ ~ term_matches T (NRef d r) (NLic l p e).
Proof. simpl. tauto. Qed.

Section MatchT.
Variable T : tables.
Hypothesis HFU : chk_fold_unique T = true.
Hypothesis HOB : chk_orlater_base_ranged T = true.

Lemma lic_fold_eq l1 l2 : In l1 (lic_ids T) -> In l2 (lic_ids T) -> fold_eqb l1 l2 = true -> l1 = l2.
Proof.
  intros H1 H2. apply (fold_nodup_spec (all_ids T) HFU); unfold all_ids, lic_ids in *;
    rewrite app_assoc; apply in_or_app; left; assumption.
Qed.

Lemma orlater_base_ranged y x : In y (lic_ids T) -> In x (lic_ids T) -> strip_suffix k_orlater y = Some x ->
  exists pos, find_row x (rngs T) 0 = Some pos.
Proof.
  intros Hy Hx HS. unfold chk_orlater_base_ranged in HOB. rewrite forallb_forall in HOB.
  specialize (HOB y Hy). rewrite HS in HOB.
  assert (E : existsb (str_eqb x) (active T ++ deprec T) = true).
  { apply existsb_exists. exists x. split; [exact Hx|apply str_eqb_refl]. }
  rewrite E in HOB. destruct (find_row x (rngs T) 0); [eauto|discriminate].
Qed.

Lemma fold_eqb_cons x a y b : fold_eqb (x :: a) (y :: b) = if Ascii.eqb (lower x) (lower y) then fold_eqb a b else false.
Proof. reflexivity. Qed.
Lemma canon_tail_fold_inj p1 p2 e : fold_eqb (canon_tail p1 e) (canon_tail p2 e) = true -> p1 = p2.
Proof. destruct p1, p2; try reflexivity; destruct e; vm_compute; intros H; discriminate H. Qed.

Lemma canon_fold_lic l1 p1 e l2 p2 :
  Forall (fun c => is_idchar c = true) l1 -> Forall (fun c => is_idchar c = true) l2 ->
  fold_eqb (l1 ++ canon_tail p1 e) (l2 ++ canon_tail p2 e) = true -> fold_eqb l1 l2 = true /\ p1 = p2.
Proof.
  revert l2. induction l1 as [|x l1 IH]; intros l2 F1 F2 H.
  - destruct l2 as [|y l2].
    + split; [reflexivity|]. cbn [app] in H. eapply canon_tail_fold_inj. eassumption.
    + exfalso. inversion F2 as [|? ? Hy F2']; subst. cbn [app] in H.
      pose proof (canon_tail_head p1 e) as Hh. destruct (canon_tail p1 e) as [|c r]; [discriminate|].
      rewrite fold_eqb_cons in H. destruct (Ascii.eqb (lower c) (lower y)) eqn:E; [|discriminate].
      rewrite (fold_byte_idchar c y E Hy) in Hh. discriminate.
  - destruct l2 as [|y l2].
    + exfalso. inversion F1 as [|? ? Hx F1']; subst. cbn [app] in H.
      pose proof (canon_tail_head p2 e) as Hh. destruct (canon_tail p2 e) as [|c r]; [discriminate|].
      rewrite fold_eqb_cons in H. destruct (Ascii.eqb (lower x) (lower c)) eqn:E; [|discriminate].
      rewrite Ascii.eqb_sym in E. rewrite (fold_byte_idchar c x E Hx) in Hh. discriminate.
    + inversion F1; inversion F2; subst. cbn [app] in H. rewrite fold_eqb_cons in H |- *.
      destruct (Ascii.eqb (lower x) (lower y)); [|discriminate]. apply IH; assumption.
Qed.

Lemma same_group_spec a b : same_group a b = true <-> exists f i j, a = Some (f, i) /\ b = Some (f, j).
Proof.
  unfold same_group. destruct a as [[f i]|], b as [[g j]|]; split; try discriminate; try (intros [? [? [? [? ?]]]]; discriminate).
  - intros H. apply Nat.eqb_eq in H. subst. eauto.
  - intros [f' [i' [j' [H1 H2]]]]. inversion H1; inversion H2; subst. apply Nat.eqb_refl.
Qed.

(* C02: on parser output, the code's matcher decides exactly the documented rule *)
Theorem compatible_iff_term_matches a b :
  leaf_ok T a -> leaf_ok T b -> (compatible T a b = true <-> term_matches T a b).
Proof.
  intros Ha Hb. unfold compatible.
  destruct a as [l1 p1 e1|d1 r1| |]; try contradiction; destruct b as [l2 p2 e2|d2 r2| |]; try contradiction.
  - (* license / license *)
    destruct Ha as [[_ F1] [In1 [OL1 _]]]. destruct Hb as [[_ F2] [In2 [OL2 _]]].
    cbn [refs_compatible licenses_compatible term_matches].
    destruct (opt_str_eqb e1 e2) eqn:EE; cbn [negb].
    2:{ split; [discriminate|]. intros [He _]. apply opt_str_eqb_eq in He. congruence. }
    apply opt_str_eqb_eq in EE. subst e2.
    unfold canon_str, canon.
    change (l1 ++ (if p1 then ["+"%char] else []) ++ match e1 with Some e => k_with ++ e | None => [] end) with (l1 ++ canon_tail p1 e1).
    change (l2 ++ (if p2 then ["+"%char] else []) ++ match e1 with Some e => k_with ++ e | None => [] end) with (l2 ++ canon_tail p2 e1).
    destruct (fold_eqb (l1 ++ canon_tail p1 e1) (l2 ++ canon_tail p2 e1)) eqn:EC.
    { split; [intros _|reflexivity]. apply canon_fold_lic in EC; try assumption. destruct EC as [EF _].
      split; [reflexivity|]. left. rewrite (lic_fold_eq _ _ In1 In2 EF). reflexivity. }
    change (license_range T) with (position T).
    assert (Hnoteq : l1 = l2 -> p1 <> p2).
    { intros -> ->. rewrite fold_eqb_refl in EC. discriminate. }
    (* same base id but different ids: one is X, the other X-or-later; then both are in the table at one position *)
    assert (Hbase : base_id l1 = base_id l2 -> l1 <> l2 ->
                    exists f i, position T l1 = Some (f, i) /\ position T l2 = Some (f, i)).
    { intros Hb Hne. unfold position. rewrite <- Hb. unfold base_id in Hb.
      destruct (strip_suffix k_orlater l1) as [x1|] eqn:S1; destruct (strip_suffix k_orlater l2) as [x2|] eqn:S2.
      - exfalso. apply Hne. apply strip_suffix_spec in S1, S2. subst. reflexivity.
      - subst x1. destruct (orlater_base_ranged l1 l2 In1 In2 S1) as [[f i] Hp]. exists f, i.
        unfold base_id. rewrite S1. auto.
      - subst x2. destruct (orlater_base_ranged l2 l1 In2 In1 S2) as [[f i] Hp]. exists f, i.
        unfold base_id. rewrite S1. auto.
      - contradiction. }
    assert (Hplus : forall l p, (ends_orlater l = true -> p = true) -> p = false -> base_id l = l).
    { intros l p H Hp. unfold base_id. unfold ends_orlater in H. destruct (strip_suffix k_orlater l); [|reflexivity].
      specialize (H eq_refl). congruence. }
    unfold in_range, compare_gt, compare_eq. change (license_range T) with (position T).
    assert (Hsym : str_eqb l2 l1 = str_eqb l1 l2).
    { destruct (str_eqb l1 l2) eqn:E1.
      - apply str_eqb_eq in E1. subst. apply str_eqb_refl.
      - apply str_eqb_neq. apply str_eqb_neq in E1. auto. }
    rewrite Hsym. clear Hsym.
    destruct (str_eqb l1 l2) eqn:ES; [apply str_eqb_eq in ES|apply str_eqb_neq in ES].
    + (* same id, different plus *)
      subst l2. specialize (Hnoteq eq_refl).
      destruct p1, p2; try contradiction.
      * split; [|intros _]. { intros _. split; [reflexivity|left; reflexivity]. }
        destruct (position T l1) as [[f i]|]; [rewrite Nat.eqb_refl, Nat.ltb_irrefl|]; reflexivity.
      * split; [|intros _]. { intros _. split; [reflexivity|left; reflexivity]. }
        destruct (position T l1) as [[f i]|]; [rewrite Nat.eqb_refl, Nat.ltb_irrefl|]; reflexivity.
    + (* different ids *)
      destruct (position T l1) as [[f i]|] eqn:P1; destruct (position T l2) as [[g j]|] eqn:P2.
      * (* both in the table *)
        assert (Hcode : (if p2 then if p1 then same_group (Some (f, i)) (Some (g, j))
                                   else (if (if Nat.eqb f g then Nat.ltb j i else false) then true else if Nat.eqb f g then Nat.eqb i j else false)
                         else if p1 then (if (if Nat.eqb g f then Nat.ltb i j else false) then true else if Nat.eqb g f then Nat.eqb j i else false)
                              else if Nat.eqb f g then Nat.eqb i j else false) = true
                        <-> (f = g /\ version_rule p1 p2 i j)).
        { unfold version_rule, same_group. destruct (Nat.eqb_spec f g) as [->|Hfg].
          - rewrite Nat.eqb_refl.
            destruct p1, p2;
              repeat match goal with |- context [Nat.ltb ?a ?b] => destruct (Nat.ltb_spec a b) end;
              repeat match goal with |- context [Nat.eqb ?a ?b] => destruct (Nat.eqb_spec a b) end;
              (split; intros Hx; [try discriminate Hx; try (split; [reflexivity|])|try reflexivity]);
              try solve [intuition (try discriminate; try lia; try (exfalso; lia))].
          - assert (Hgf : Nat.eqb g f = false) by (apply Nat.eqb_neq; auto). rewrite Hgf.
            destruct p1, p2; split; intros Hx; try discriminate Hx; destruct Hx as [Hx _]; contradiction. }
        assert (Hw : forall X : bool, (if X then true else false) = X) by (intros []; reflexivity).
        rewrite Hw, Hcode. split.
        -- intros [-> HV]. split; [reflexivity|]. right. exists g, i, j. auto.
        -- intros [_ [Hb|[f' [i' [j' [H1 [H2 HV]]]]]]].
           ++ destruct (Hbase Hb ES) as [f' [i' [H1 H2]]]. inversion H1; inversion H2; subst.
              split; [reflexivity|]. unfold version_rule.
              (* same base, different ids: one of them is X-or-later and carries the plus *)
              destruct p1, p2.
              ** right. right. right. split; reflexivity.
              ** right. left. repeat split; lia.
              ** right. right. left. repeat split; lia.
              ** exfalso. apply ES. rewrite <- (Hplus l1 false OL1 eq_refl), <- (Hplus l2 false OL2 eq_refl). assumption.
           ++ inversion H1; inversion H2; subst. auto.
      * split.
        -- destruct p1, p2; simpl; discriminate.
        -- intros [_ [Hb|[f' [i' [j' [H1 [H2 HV]]]]]]]; [|discriminate].
           destruct (Hbase Hb ES) as [f' [i' [H1 H2]]]. discriminate.
      * split.
        -- destruct p1, p2; simpl; discriminate.
        -- intros [_ [Hb|[f' [i' [j' [H1 [H2 HV]]]]]]]; [|discriminate].
           destruct (Hbase Hb ES) as [f' [i' [H1 H2]]]. discriminate.
      * split.
        -- destruct p1, p2; simpl; discriminate.
        -- intros [_ [Hb|[f' [i' [j' [H1 [H2 HV]]]]]]]; [|discriminate].
           destruct (Hbase Hb ES) as [f' [i' [H1 H2]]]. discriminate.
  - simpl. split; [discriminate|tauto].
  - simpl. split; [discriminate|tauto].
  - (* reference / reference *)
    cbn [licenses_compatible refs_compatible term_matches].
    destruct (str_eqb r1 r2) eqn:ER.
    + apply str_eqb_eq in ER. subst. rewrite opt_str_eqb_eq. split; [intros ->; auto|intros [_ ->]; reflexivity].
    + apply str_eqb_neq in ER. split; [discriminate|]. intros [H _]. contradiction.
Qed.

Corollary compatible_sym a b : leaf_ok T a -> leaf_ok T b -> compatible T a b = compatible T b a.
Proof.
  intros Ha Hb. destruct (compatible T a b) eqn:E1; destruct (compatible T b a) eqn:E2; try reflexivity.
  - apply (compatible_iff_term_matches a b Ha Hb) in E1. apply term_matches_sym in E1.
    apply (compatible_iff_term_matches b a Hb Ha) in E1. congruence.
  - apply (compatible_iff_term_matches b a Hb Ha) in E2. apply term_matches_sym in E2.
    apply (compatible_iff_term_matches a b Ha Hb) in E2. congruence.
Qed.
Corollary compatible_refl a : leaf_ok T a -> compatible T a a = true.
Proof.
  intros Ha. apply (compatible_iff_term_matches a a Ha Ha). apply term_matches_refl. destruct a; try contradiction; reflexivity.
Qed.
End MatchT.
