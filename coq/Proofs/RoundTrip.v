(* C06: every string ExtractLicenses returns is a valid single-term expression that parses back to the very node it
   was printed from (hence extracts to itself).  The delicate case is a deprecated id followed by '+': when
   X-or-later is listed, "X+" is read as the id X-or-later - so the node (X, plus) must be shown unreachable. *)
From Coq Require Import Lia.
From Spdx Require Import Model.Api Spec.Lex Spec.Grammar Spec.Eval Spec.WF Spec.Units Spec.Spellings
  Proofs.BytesFacts Proofs.ScanRef Proofs.NodeInv Proofs.Sat Proofs.ApiFacts Proofs.Laws Proofs.MatchProof Proofs.WFSound
  Proofs.Split Proofs.Lexo Proofs.Respell Proofs.Replace Proofs.SameParse Proofs.ParseGrammar Proofs.CaseFold Proofs.Congruence.
Local Open Scope list_scope.

Section RT.
Variable T : tables.
Hypothesis HT : license_lookup T [] = None.
Hypothesis HKW : chk_no_keyword_prefix T = true.
Hypothesis HCS : chk_case_safe T = true.
Hypothesis HFU : chk_fold_unique T = true.
Hypothesis HDO : chk_deprec_no_orlater T = true.

(* a '+' token directly after this license token was a '+' the id did not absorb *)
Definition plus_stable (l : str) : Prop := license_lookup T (l ++ k_orlater) = None \/ In l (active T).
Fixpoint adj_ok (ts : list tok) : Prop :=
  match ts with
  | [] => True
  | t :: r => (match t, r with TLic l, TOp OPlus :: _ => plus_stable l | _, _ => True end) /\ adj_ok r
  end.

(* ---- facts about lookups in fold-unique, disjoint lists ---- *)
Lemma all_ids_in_active x : In x (active T) -> In x (all_ids T).
Proof. intros H. unfold all_ids. apply in_or_app. left. assumption. Qed.
Lemma all_ids_in_deprec x : In x (deprec T) -> In x (all_ids T).
Proof. intros H. unfold all_ids. apply in_or_app. right. apply in_or_app. left. assumption. Qed.
Lemma all_ids_in_excs x : In x (excs T) -> In x (all_ids T).
Proof. intros H. unfold all_ids. apply in_or_app. right. apply in_or_app. right. assumption. Qed.

Lemma in_list_self l x : In x l -> (forall y, In y l -> fold_eqb y x = true -> y = x) -> in_list l x = Some x.
Proof.
  intros Hin Hu. unfold in_list. destruct (find (fun y => fold_eqb y x) l) as [y|] eqn:E.
  - apply find_some in E. destruct E as [Hy Hf]. rewrite (Hu y Hy Hf). reflexivity.
  - exfalso. pose proof (find_none _ _ E x Hin) as K. simpl in K. rewrite fold_eqb_refl in K. discriminate.
Qed.
Lemma fold_nodup_app_disjoint l1 : forall l2, fold_nodup (l1 ++ l2) = true -> forall x y, In x l1 -> In y l2 -> fold_eqb x y = false.
Proof.
  induction l1 as [|a l1 IH]; intros l2 H x y Hx Hy; [contradiction|].
  simpl in H. destruct (existsb (fold_eqb a) (l1 ++ l2)) eqn:E; [discriminate|].
  destruct Hx as [->|Hx]; [|eapply IH; eassumption].
  destruct (fold_eqb x y) eqn:F; [|reflexivity].
  assert (existsb (fold_eqb x) (l1 ++ l2) = true) by (apply existsb_exists; exists y; split; [apply in_or_app; right; assumption|assumption]). congruence.
Qed.
Lemma fold_nodup_tail l1 : forall l2, fold_nodup (l1 ++ l2) = true -> fold_nodup l2 = true.
Proof. induction l1 as [|a l1 IH]; intros l2 H; [assumption|]. simpl in H. destruct (existsb _ _); [discriminate|]. apply IH. assumption. Qed.

Lemma in_list_none_disjoint l x : (forall y, In y l -> fold_eqb y x = false) -> in_list l x = None.
Proof.
  intros H. unfold in_list. destruct (find (fun y => fold_eqb y x) l) as [y|] eqn:E; [|reflexivity].
  apply find_some in E. destruct E as [Hy Hf]. rewrite (H y Hy) in Hf. discriminate.
Qed.

Lemma uniq x y : In x (all_ids T) -> In y (all_ids T) -> fold_eqb y x = true -> y = x.
Proof. intros Hx Hy F. symmetry. apply (chk_fold_unique_sound T HFU x y Hx Hy). rewrite fold_eqb_sym. assumption. Qed.

Lemma lookup_active l : In l (active T) -> license_lookup T l = Some (TLic l).
Proof.
  intros H. unfold license_lookup. rewrite (in_list_self (active T) l H); [reflexivity|].
  intros y Hy F. apply uniq; auto using all_ids_in_active.
Qed.
Lemma lookup_exc x : In x (excs T) -> license_lookup T x = Some (TExc x).
Proof.
  intros H. unfold license_lookup.
  rewrite (in_list_none_disjoint (active T) x).
  - rewrite (in_list_self (excs T) x H); [reflexivity|]. intros y Hy F. apply uniq; auto using all_ids_in_excs.
  - intros y Hy. unfold chk_fold_unique, all_ids in HFU.
    apply (fold_nodup_app_disjoint (active T) (deprec T ++ excs T) HFU y x Hy). apply in_or_app. right. assumption.
Qed.
Lemma lookup_deprec_none d : In d (deprec T) -> license_lookup T d = None.
Proof.
  intros H. unfold license_lookup. unfold chk_fold_unique, all_ids in HFU.
  rewrite (in_list_none_disjoint (active T) d).
  - rewrite (in_list_none_disjoint (excs T) d); [reflexivity|].
    intros y Hy. rewrite fold_eqb_sym.
    apply (fold_nodup_app_disjoint (deprec T) (excs T) (fold_nodup_tail _ _ HFU) d y H Hy).
  - intros y Hy. apply (fold_nodup_app_disjoint (active T) (deprec T ++ excs T) HFU y d Hy). apply in_or_app. left. assumption.
Qed.
Lemma deprecated_lookup_self d : In d (deprec T) -> deprecated_lookup T d = Some (TLic d).
Proof.
  intros H. unfold deprecated_lookup. rewrite (in_list_self (deprec T) d H); [reflexivity|].
  intros y Hy F. apply uniq; auto using all_ids_in_deprec.
Qed.

(* the decision for the list's own spelling of an id gives the id back *)
Lemma classify_active l np : In l (active T) -> classify T l np = NTok (TLic l).
Proof. intros H. unfold classify. rewrite (lookup_active l H). reflexivity. Qed.
Lemma classify_exc x np : In x (excs T) -> classify T x np = NTok (TExc x).
Proof. intros H. unfold classify. rewrite (lookup_exc x H). reflexivity. Qed.
Lemma classify_deprec d np : In d (deprec T) -> (np = true -> license_lookup T (d ++ k_orlater) = None) ->
  classify T d np = NTok (TLic d).
Proof.
  intros H Hnp. unfold classify. rewrite (lookup_deprec_none d H).
  assert (R : forall S, In S [k_only; k_orlater] ->
              match strip_suffix S d with Some adj => license_lookup T adj | None => None end = None).
  { intros S HS. destruct (strip_suffix S d) as [adj|] eqn:E; [|reflexivity].
    apply (variant_suffix_safe T HCS S d d adj HS (all_ids_in_deprec d H) (fold_eqb_refl d) (lookup_deprec_none d H) E). }
  rewrite (R k_only) by (left; reflexivity). rewrite (R k_orlater) by (right; left; reflexivity).
  destruct np; [rewrite (Hnp eq_refl)|]; rewrite (deprecated_lookup_self d H); reflexivity.
Qed.

(* lookups never produce operator tokens *)
Definition not_op (t : tok) : Prop := match t with TOp _ => False | _ => True end.
Lemma license_lookup_not_op w t : license_lookup T w = Some t -> not_op t.
Proof. unfold license_lookup. destruct (in_list (active T) w); [intros H; inversion H; exact I|]. destruct (in_list (excs T) w); intros H; inversion H; exact I. Qed.
Lemma deprecated_lookup_not_op w t : deprecated_lookup T w = Some t -> not_op t.
Proof. unfold deprecated_lookup. destruct (in_list (deprec T) w); intros H; inversion H; exact I. Qed.
Lemma classify_not_op w np : match classify T w np with NTok t | NEatPlus t | NThenPlus t => not_op t | NUnknown => True end.
Proof.
  unfold classify.
  destruct (license_lookup T w) eqn:E1; [eapply license_lookup_not_op; eassumption|].
  destruct (strip_suffix k_only w) as [a1|].
  - destruct (license_lookup T a1) eqn:E2; [eapply license_lookup_not_op; eassumption|].
    destruct (if np then license_lookup T (w ++ k_orlater) else None) eqn:E3.
    { destruct np; [eapply license_lookup_not_op; eassumption|discriminate]. }
    destruct (strip_suffix k_orlater w) as [a2|].
    + destruct (license_lookup T a2) eqn:E4; [eapply license_lookup_not_op; eassumption|].
      destruct (deprecated_lookup T w) eqn:E5; [eapply deprecated_lookup_not_op; eassumption|exact I].
    + destruct (deprecated_lookup T w) eqn:E5; [eapply deprecated_lookup_not_op; eassumption|exact I].
  - destruct (if np then license_lookup T (w ++ k_orlater) else None) eqn:E3.
    { destruct np; [eapply license_lookup_not_op; eassumption|discriminate]. }
    destruct (strip_suffix k_orlater w) as [a2|].
    + destruct (license_lookup T a2) eqn:E4; [eapply license_lookup_not_op; eassumption|].
      destruct (deprecated_lookup T w) eqn:E5; [eapply deprecated_lookup_not_op; eassumption|exact I].
    + destruct (deprecated_lookup T w) eqn:E5; [eapply deprecated_lookup_not_op; eassumption|exact I].
Qed.

(* ---- adjacency: a license token followed by a '+' token ---- *)
Lemma lexo_step r : r <> [] ->
  lexo T r = let (sp, r1) := span is_space r in
             match r1 with
             | [] => Some []
             | _ => match ref_item T (match sp with [] => false | _ => true end) r1 (0 + length sp) with
                    | Ok (ts, r2, _) => option_map (app ts) (lexo T r2)
                    | _ => None
                    end
             end.
Proof.
  intros Hne. rewrite (lexo_unfold T), (ref_run_unfold T HT). destruct r as [|c r']; [contradiction|].
  destruct (span is_space (c :: r')) as [sp r1]. destruct r1 as [|c1 r1']; [reflexivity|].
  destruct (ref_item T _ (c1 :: r1') _) as [[[ts r2] pos2]|e| |]; try reflexivity.
  rewrite (ref_run_oks T HT). rewrite app_nil_r, rev_involutive. reflexivity.
Qed.

Lemma first_plus_immediate r ts : lexo T r = Some (TOp OPlus :: ts) -> exists r', r = "+"%char :: r'.
Proof.
  intros H. destruct r as [|c r0]; [discriminate|]. rewrite (lexo_step (c :: r0)) in H by discriminate.
  destruct (span is_space (c :: r0)) as [sp r1] eqn:ES. destruct (span_spec _ _ _ _ ES) as [Hsplit _].
  destruct r1 as [|c1 r1']; [discriminate|].
  destruct (ref_item T _ (c1 :: r1') _) as [[[its r2] pos2]|e| |] eqn:EI; try discriminate.
  destruct (lexo T r2) as [ts2|]; [|discriminate]. simpl in H.
  (* the first token of the item is '+' *)
  unfold ref_item in EI. rewrite first_op_first_op' in EI.
  destruct (first_op' ops (c1 :: r1')) as [[[p o] r'']|] eqn:EO.
  - pose proof (first_op'_in _ _ _ _ _ EO) as Hin. destruct (ops_facts _ _ Hin) as [_ [_ [_ [_ Hp]]]].
    destruct o; try (inversion EI; subst; inversion H; fail).
    specialize (Hp eq_refl). subst p. destruct sp as [|s0 sp'].
    + simpl in Hsplit. apply first_op'_split in EO. simpl in EO. rewrite Hsplit. inversion EO. eexists. reflexivity.
    + discriminate.
  - exfalso. destruct (strip_prefix k_docref (c1 :: r1')). { destruct (span is_idchar s) as [[|] ?]; inversion EI; subst; inversion H. }
    destruct (strip_prefix k_licref (c1 :: r1')). { destruct (span is_idchar s) as [[|] ?]; inversion EI; subst; inversion H. }
    destruct (span is_idchar (c1 :: r1')) as [[|w0 w'] rb] eqn:ESW; [discriminate|].
    pose proof (classify_not_op (w0 :: w') (next_is_plus rb)) as TK.
    destruct (classify T (w0 :: w') (next_is_plus rb)) as [t|t|t|]; inversion EI; subst; inversion H; subst; simpl in TK; exact TK.
Qed.

Lemma adj_ok_cons t b : adj_ok b -> (forall l b', t = TLic l -> b = TOp OPlus :: b' -> plus_stable l) -> adj_ok (t :: b).
Proof.
  intros Hb Hj. simpl. split; [|assumption]. destruct t as [o| | |l|]; try exact I.
  destruct b as [|[[]| | | |] b']; try exact I. eapply Hj; reflexivity.
Qed.

Theorem lexo_adj_ok_n n : forall r, length r = n -> forall ts, lexo T r = Some ts -> adj_ok ts.
Proof.
  induction n as [n IH] using lt_wf_ind. intros r Hn ts H.
  destruct r as [|c r0]; [inversion H; exact I|]. rewrite (lexo_step (c :: r0)) in H by discriminate.
  destruct (span is_space (c :: r0)) as [sp r1] eqn:ES. destruct (span_spec _ _ _ _ ES) as [Hsplit _].
  destruct r1 as [|c1 r1']; [inversion H; exact I|].
  destruct (ref_item T _ (c1 :: r1') _) as [[[its r2] pos2]|e| |] eqn:EI; try discriminate.
  pose proof (ref_item_shrinks T HT _ _ _ _ _ _ EI) as [Hs _].
  destruct (lexo T r2) as [ts2|] eqn:E2; [|discriminate]. simpl in H. inversion H; subst ts. clear H.
  assert (A2 : adj_ok ts2).
  { apply (IH (length r2)) with (r := r2); [subst n; rewrite Hsplit, app_length; lia|reflexivity|assumption]. }
  unfold ref_item in EI. rewrite first_op_first_op' in EI.
  destruct (first_op' ops (c1 :: r1')) as [[[p o] r'']|] eqn:EO.
  - assert (its = [TOp o]) as ->.
    { destruct o; try (inversion EI; reflexivity). destruct (match sp with [] => false | _ => true end); [discriminate|inversion EI; reflexivity]. }
    simpl. split; [exact I|assumption].
  - destruct (strip_prefix k_docref (c1 :: r1')).
    { destruct (span is_idchar s) as [[|] ?]; inversion EI; subst. simpl. split; [exact I|assumption]. }
    destruct (strip_prefix k_licref (c1 :: r1')).
    { destruct (span is_idchar s) as [[|] ?]; inversion EI; subst. simpl. split; [exact I|assumption]. }
    destruct (span is_idchar (c1 :: r1')) as [[|w0 w'] rb] eqn:ESW; [discriminate|].
    assert (Hw : word_ok (w0 :: w')) by (eapply span_word_ok; [eassumption|discriminate]).
    destruct (classify T (w0 :: w') (next_is_plus rb)) as [t|t|t|] eqn:EC; inversion EI; subst its r2 pos2; clear EI.
    + (* the id did not absorb a '+': if one follows, rule 3 had failed for this word *)
      cbn [app]. apply adj_ok_cons; [assumption|]. intros l b' -> ->.
      destruct (first_plus_immediate rb b' E2) as [rb' ->].
      change (next_is_plus ("+"%char :: rb')) with true in EC.
      unfold classify in EC.
      destruct (license_lookup T (w0 :: w')) as [t1|] eqn:L1.
      { inversion EC; subst. right. unfold license_lookup in L1.
        destruct (in_list (active T) (w0 :: w')) as [q|] eqn:LA.
        - inversion L1; subst. apply in_list_some in LA. apply LA.
        - destruct (in_list (excs T) (w0 :: w')); discriminate. }
      destruct (match strip_suffix k_only (w0 :: w') with Some adj => license_lookup T adj | None => None end) as [t2|] eqn:L2.
      { inversion EC; subst. right. destruct (strip_suffix k_only (w0 :: w')) as [adj|]; [|discriminate].
        unfold license_lookup in L2. destruct (in_list (active T) adj) as [q|] eqn:LA.
        - inversion L2; subst. apply in_list_some in LA. apply LA.
        - destruct (in_list (excs T) adj); discriminate. }
      destruct (license_lookup T ((w0 :: w') ++ k_orlater)) as [t3|] eqn:L3; [discriminate|].
      destruct (match strip_suffix k_orlater (w0 :: w') with Some adj => license_lookup T adj | None => None end); [discriminate|].
      unfold deprecated_lookup in EC. destruct (in_list (deprec T) (w0 :: w')) as [q|] eqn:LD; [|discriminate].
      inversion EC; subst. left. apply in_list_some in LD. destruct LD as [_ LF].
      rewrite (license_lookup_fold T (l ++ k_orlater) ((w0 :: w') ++ k_orlater)); [assumption|].
      rewrite fold_eqb_same_tail; [assumption|apply fold_eqb_length; assumption].
    + (* the id absorbed the '+': it is an active X-or-later *)
      cbn [app]. apply adj_ok_cons; [assumption|]. intros l b' -> _. right.
      unfold classify in EC.
      destruct (license_lookup T (w0 :: w')); [discriminate|].
      destruct (match strip_suffix k_only (w0 :: w') with Some adj => license_lookup T adj | None => None end); [discriminate|].
      destruct (next_is_plus rb); [|destruct (match strip_suffix k_orlater (w0 :: w') with Some adj => license_lookup T adj | None => None end); [discriminate|destruct (deprecated_lookup T (w0 :: w')); discriminate]].
      destruct (license_lookup T ((w0 :: w') ++ k_orlater)) as [t3|] eqn:L3.
      * inversion EC; subst. unfold license_lookup in L3. destruct (in_list (active T) ((w0 :: w') ++ k_orlater)) as [q|] eqn:LA.
        -- inversion L3; subst. apply in_list_some in LA. apply LA.
        -- destruct (in_list (excs T) ((w0 :: w') ++ k_orlater)); discriminate.
      * destruct (match strip_suffix k_orlater (w0 :: w') with Some adj => license_lookup T adj | None => None end); [discriminate|destruct (deprecated_lookup T (w0 :: w')); discriminate].
    + (* X-or-later rewritten to X then '+': X is active *)
      cbn [app]. simpl. split; [|split; [exact I|assumption]].
      destruct t as [o| | |l|]; try exact I. right.
      unfold classify in EC.
      destruct (license_lookup T (w0 :: w')); [discriminate|].
      destruct (match strip_suffix k_only (w0 :: w') with Some adj => license_lookup T adj | None => None end); [discriminate|].
      destruct (if next_is_plus rb then license_lookup T ((w0 :: w') ++ k_orlater) else None); [discriminate|].
      destruct (strip_suffix k_orlater (w0 :: w')) as [adj|]; [|destruct (deprecated_lookup T (w0 :: w')); discriminate].
      destruct (license_lookup T adj) as [t4|] eqn:L4; [|destruct (deprecated_lookup T (w0 :: w')); discriminate].
      inversion EC; subst. unfold license_lookup in L4. destruct (in_list (active T) adj) as [q|] eqn:LA.
      * inversion L4; subst. apply in_list_some in LA. apply LA.
      * destruct (in_list (excs T) adj); discriminate.
Qed.
Theorem lexo_adj_ok r ts : lexo T r = Some ts -> adj_ok ts.
Proof. apply (lexo_adj_ok_n (length r)). reflexivity. Qed.

Lemma adj_ok_app_inv a : forall b, adj_ok (a ++ b) -> adj_ok a /\ adj_ok b.
Proof.
  induction a as [|t a IH]; intros b H; [split; [exact I|exact H]|].
  simpl in H. destruct H as [Hc Hr]. destruct (IH b Hr) as [Ha Hb]. split; [|assumption].
  simpl. split; [|assumption]. destruct t as [o| | |l|]; try exact I. destruct a as [|u a']; [exact I|exact Hc].
Qed.
Lemma adj_ok_tail t ts : adj_ok (t :: ts) -> adj_ok ts. Proof. intros [_ H]. exact H. Qed.

(* a leaf with an explicit '+' (not implied by an -or-later id) sat before a '+' token *)
Definition leaves_plus_stable (t : node) : Prop :=
  forall l p e, In (NLic l p e) (tree_leaves t) -> p = true -> ends_orlater l = false -> plus_stable l.
Lemma derives_plus_stable :
  (forall ts t, d_atom ts t -> adj_ok ts -> leaves_plus_stable t) /\
  (forall ts t, d_and ts t -> adj_ok ts -> leaves_plus_stable t) /\
  (forall ts t, d_expr ts t -> adj_ok ts -> leaves_plus_stable t).
Proof.
  apply d_mutind.
  - intros ts t D IH A. apply IH. apply adj_ok_tail in A. apply adj_ok_app_inv in A. apply A.
  - intros x A l p e H. simpl in H. destruct H as [H|[]]. discriminate.
  - intros d x A l p e H. simpl in H. destruct H as [H|[]]. discriminate.
  - intros l0 p0 e0 A l p e H Hp Ho. simpl in H. destruct H as [H|[]]. inversion H; subst.
    destruct p0; [|congruence]. simpl in A. destruct A as [A _]. exact A.
  - intros ts t D IH A. apply IH. assumption.
  - intros ts1 t1 ts2 t2 D1 IH1 D2 IH2 A l p e H Hp Ho. apply adj_ok_app_inv in A. destruct A as [A1 A2]. apply adj_ok_tail in A2.
    simpl in H. apply in_app_or in H. destruct H as [H|H]; [eapply IH1|eapply IH2]; eassumption.
  - intros ts t D IH A. apply IH. assumption.
  - intros ts1 t1 ts2 t2 D1 IH1 D2 IH2 A l p e H Hp Ho. apply adj_ok_app_inv in A. destruct A as [A1 A2]. apply adj_ok_tail in A2.
    simpl in H. apply in_app_or in H. destruct H as [H|H]; [eapply IH1|eapply IH2]; eassumption.
Qed.

Theorem parsed_leaves_plus_stable s t : parse T s = Ok t -> leaves_plus_stable t.
Proof.
  intros H. destruct (parse_lexo T HT s t H) as [ts [HL [_ [HD _]]]].
  destruct derives_plus_stable as [_ [_ K]]. apply (K ts t HD). eapply lexo_adj_ok. eassumption.
Qed.

(* the id of a reachable license leaf is read back as itself *)
Lemma leaf_id_stable l p e : leaf_ok T (NLic l p e) -> (p = true -> ends_orlater l = false -> plus_stable l) ->
  classify T l p = NTok (TLic l).
Proof.
  intros [Hw [Hin _]] Hps. unfold lic_ids in Hin. apply in_app_or in Hin. destruct Hin as [Ha|Hd]; [apply classify_active; assumption|].
  apply classify_deprec; [assumption|]. intros ->.
  assert (Ho : ends_orlater l = false).
  { unfold chk_deprec_no_orlater in HDO. rewrite forallb_forall in HDO. specialize (HDO l Hd). destruct (ends_orlater l); [discriminate|reflexivity]. }
  destruct (Hps eq_refl Ho) as [K|K]; [assumption|]. exfalso.
  unfold chk_fold_unique, all_ids in HFU.
  pose proof (fold_nodup_app_disjoint (active T) (deprec T ++ excs T) HFU l l K (in_or_app _ _ _ (or_introl Hd))) as F.
  rewrite fold_eqb_refl in F. discriminate.
Qed.

(* ---- printing and reading back ---- *)
Lemma lexo_with r : lexo T (s2l "WITH" ++ r) = option_map (cons (TOp OWith)) (lexo T r).
Proof.
  rewrite (lexo_unfold T), (ref_run_unfold T HT). cbn [app s2l list_ascii_of_string span is_space]. cbv iota.
  change (is_space "W") with false. cbv iota. unfold ref_item.
  change (first_op ops ("W"%char :: "I"%char :: "T"%char :: "H"%char :: r)) with (Some (OWith, r, 4)). cbv iota beta.
  rewrite (ref_run_oks T HT). reflexivity.
Qed.

Lemma listed_unit_lexo x (pf : bool) : In x (all_ids T) -> word_ok x ->
  lexo T (x ++ pl_of pf) = unit_toks (classify T x pf) pf.
Proof.
  intros Hin [Hne F]. apply (lexo_word_unit T HT x pf Hne F).
  intros kw Hkw. apply (variant_no_prefix T HKW HCS x x (pl_of pf) kw Hin (fold_eqb_refl x)); [|assumption].
  destruct pf; simpl; auto.
Qed.

Lemma ref_word_lexo k r tk : (k = k_licref /\ tk = TRef r) \/ (k = k_docref /\ tk = TDoc r) -> word_ok r ->
  lexo T (k ++ r) = Some [tk].
Proof.
  intros Hk [Hne F]. rewrite (lexo_unfold T), (ref_run_unfold T HT).
  assert (Hspan : span is_idchar r = (r, [])).
  { rewrite <- (app_nil_r r) at 1. apply span_app; [assumption|exact I]. }
  destruct Hk as [[-> ->]|[-> ->]].
  - unfold k_licref. cbn [app s2l list_ascii_of_string span]. change (is_space "L") with false. cbv iota.
    unfold ref_item. rewrite first_op_first_op'. unfold ops, k_docref, k_licref.
    cbn [first_op' s2l list_ascii_of_string strip_prefix Ascii.eqb Bool.eqb]. cbv iota.
    rewrite Hspan. destruct r as [|c r']; [contradiction|]. rewrite (ref_run_oks T HT). reflexivity.
  - unfold k_docref. cbn [app s2l list_ascii_of_string span]. change (is_space "D") with false. cbv iota.
    unfold ref_item. rewrite first_op_first_op'. unfold ops, k_docref, k_licref.
    cbn [first_op' s2l list_ascii_of_string strip_prefix Ascii.eqb Bool.eqb]. cbv iota.
    rewrite Hspan. destruct r as [|c r']; [contradiction|]. rewrite (ref_run_oks T HT). reflexivity.
Qed.

Theorem canon_round_trip n : leaf_ok T n ->
  (forall l p e, n = NLic l p e -> p = true -> ends_orlater l = false -> plus_stable l) ->
  parse T (canon_str n) = Ok n.
Proof.
  intros Hok Hps. destruct n as [l p e|d r| |]; try contradiction.
  - (* license *)
    pose proof (leaf_id_stable l p e Hok (Hps l p e eq_refl)) as HC.
    destruct Hok as [Hw [Hin [Hol He]]].
    assert (Hall : In l (all_ids T)).
    { unfold all_ids, lic_ids in *. rewrite app_assoc. apply in_or_app. left. assumption. }
    assert (HU : lexo T (l ++ pl_of p) = Some (TLic l :: plus_toks p)).
    { rewrite (listed_unit_lexo l p Hall Hw), HC. destruct p; reflexivity. }
    assert (Hnode : NLic l (if p then true else ends_orlater l) e = NLic l p e).
    { destruct p; [reflexivity|]. destruct (ends_orlater l) eqn:E; [specialize (Hol eq_refl); discriminate|reflexivity]. }
    unfold canon_str, canon. change (if p then ["+"%char] else []) with (pl_of p).
    destruct e as [x|].
    + destruct He as [Hwx Hinx].
      apply (lexo_parse T HT _ (TLic l :: plus_toks p ++ with_toks (Some x))).
      * destruct Hw as [Hne _]. destruct l; [contradiction|discriminate].
      * rewrite app_assoc. unfold k_with. change (s2l " WITH " ++ x) with (" "%char :: s2l "WITH" ++ " "%char :: x).
        rewrite (lexo_app T HT (l ++ pl_of p) " " _ (boundary_clean _ " " eq_refl ltac:(discriminate))), HU.
        rewrite (lexo_space_then T HT) by (intros r' E; discriminate).
        rewrite lexo_with.
        assert (Sx : forall r', x <> "+"%char :: r').
        { intros r' ->. destruct Hwx as [_ Fx]. inversion Fx as [|? ? Hc _]. discriminate. }
        rewrite (lexo_space_then T HT x Sx).
        pose proof (listed_unit_lexo x false (all_ids_in_excs x Hinx) Hwx) as LX. cbn [pl_of] in LX. rewrite app_nil_r in LX.
        rewrite LX, (classify_exc x false Hinx). reflexivity.
      * rewrite <- Hnode. apply d_expr1, d_and1. apply (d_lic l p (Some x)).
    + rewrite app_nil_r.
      apply (lexo_parse T HT _ (TLic l :: plus_toks p ++ with_toks None)).
      * destruct Hw as [Hne _]. destruct l; [contradiction|discriminate].
      * rewrite HU. simpl. rewrite app_nil_r. reflexivity.
      * rewrite <- Hnode. apply d_expr1, d_and1. apply (d_lic l p None).
  - (* reference *)
    destruct Hok as [Hwr Hd]. unfold canon_str, canon. destruct d as [dd|].
    + apply (lexo_parse T HT _ [TDoc dd; TOp OColon; TRef r]); [discriminate| |apply d_expr1, d_and1, d_docref].
      replace ((k_docref ++ dd ++ [":"%char]) ++ k_licref ++ r) with ((k_docref ++ dd) ++ ":"%char :: k_licref ++ r)
        by (rewrite <- !app_assoc; reflexivity).
      rewrite (lexo_app T HT (k_docref ++ dd) ":" (k_licref ++ r) (boundary_clean _ ":" eq_refl ltac:(discriminate))).
      rewrite (ref_word_lexo k_docref dd (TDoc dd) (or_intror (conj eq_refl eq_refl)) Hd).
      rewrite (lexo_colon T HT), (ref_word_lexo k_licref r (TRef r) (or_introl (conj eq_refl eq_refl)) Hwr). reflexivity.
    + cbn [app]. apply (lexo_parse T HT _ [TRef r]); [discriminate| |apply d_expr1, d_and1, d_ref].
      apply (ref_word_lexo k_licref r (TRef r) (or_introl (conj eq_refl eq_refl)) Hwr).
Qed.

Lemma tree_ok_leaves t : tree_ok T t -> forall n, In n (tree_leaves t) -> leaf_ok T n.
Proof.
  induction t as [l p e|d r|a IHa b IHb|a IHa b IHb]; simpl; intros Hok n Hn.
  - destruct Hn as [<-|[]]. exact Hok.
  - destruct Hn as [<-|[]]. exact Hok.
  - destruct Hok as [Oa Ob]. apply in_app_or in Hn. destruct Hn; [apply IHa|apply IHb]; assumption.
  - destruct Hok as [Oa Ob]. apply in_app_or in Hn. destruct Hn; [apply IHa|apply IHb]; assumption.
Qed.

(* C06: every term of a valid expression, in canonical spelling, is a valid single-term expression that parses to
   that very term and extracts to itself *)
Theorem extracted_terms_round_trip s t : parse T s = Ok t -> forall n, In n (tree_leaves t) ->
  parse T (canon_str n) = Ok n /\ extract_licenses T (canon_str n) = Ok [canon_str n].
Proof.
  intros H n Hn. pose proof (parse_tree_ok T HT s t H) as Hok. pose proof (tree_ok_leaves t Hok n Hn) as Ln.
  assert (P : parse T (canon_str n) = Ok n).
  { apply canon_round_trip; [assumption|]. intros l p e -> Hp Ho. apply (parsed_leaves_plus_stable s t H l p e Hn Hp Ho). }
  split; [assumption|]. pose proof (extract_licenses_spec T HT (canon_str n)) as E. rewrite P in E. rewrite E.
  destruct n; try contradiction; reflexivity.
Qed.
End RT.
