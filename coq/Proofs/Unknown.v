(* "Unknown ids are rejected": a maximal id word that none of the documented lookups recognises makes the whole text
   invalid, wherever it stands, and the error cites that word at its own offset (the converse of C15's statement
   that a cited lexeme is found at the cited offset). *)
From Coq Require Import Lia.
From Spdx Require Import Model.Scan Model.Parse Spec.Lex Proofs.BytesFacts Proofs.ScanRef Proofs.Offsets Proofs.Split.
Local Open Scope list_scope.

Section UnknownT.
Variable T : tables.
Hypothesis HT : license_lookup T [] = None.

(* w is a maximal id word followed by b, it is not an operator keyword or a reference prefix glued to more id
   characters, and no lookup rule (listed id, -only, +, -or-later, deprecated id) recognises it *)
Definition unknown_word (w b : str) : Prop :=
  w <> [] /\ Forall (fun c => is_idchar c = true) w /\
  match b with [] => True | c :: _ => is_idchar c = false end /\
  first_op ops w = None /\ strip_prefix k_docref w = None /\ strip_prefix k_licref w = None /\
  classify T w (next_is_plus b) = NUnknown.

Lemma strip_prefix_id_app p w b : Forall (fun x => is_idchar x = true) p -> p <> [] ->
  match b with [] => True | c :: _ => is_idchar c = false end ->
  strip_prefix p w = None -> strip_prefix p (w ++ b) = None.
Proof.
  intros Fp Np Hb H. destruct b as [|c b']; [rewrite app_nil_r; assumption|].
  rewrite (strip_prefix_app_id p w c b' Fp Hb Np), H. reflexivity.
Qed.

Lemma first_op_id_app w b : w <> [] -> match b with [] => True | c :: _ => is_idchar c = false end ->
  first_op ops w = None -> first_op ops (w ++ b) = None.
Proof.
  intros Nw Hb H. destruct b as [|c b']; [rewrite app_nil_r; assumption|].
  rewrite first_op_first_op' in *. rewrite (first_op'_app w c b' Nw Hb).
  destruct (first_op' ops w) as [[[p o] r]|]; [discriminate|reflexivity].
Qed.

Lemma item_unknown spaced w b pos : unknown_word w b -> ref_item T spaced (w ++ b) pos = Err (EUnknownLicense w pos).
Proof.
  intros [Nw [Fw [Hb [Ho [Hd [Hl Hc]]]]]]. unfold ref_item.
  rewrite (first_op_id_app w b Nw Hb Ho).
  rewrite (strip_prefix_id_app k_docref w b) by (try assumption; try discriminate; repeat constructor).
  rewrite (strip_prefix_id_app k_licref w b) by (try assumption; try discriminate; repeat constructor).
  rewrite (span_app is_idchar w b Fw Hb). destruct w as [|w0 w']; [contradiction|]. rewrite Hc. reflexivity.
Qed.

Lemma run_unknown sp w b pos acc : unknown_word w b -> Forall (fun c => is_space c = true) sp ->
  ref_run T (sp ++ w ++ b) pos acc = Err (EUnknownLicense w (pos + length sp)).
Proof.
  intros U Fs. pose proof U as [Nw [Fw _]]. rewrite (ref_run_unfold T HT).
  destruct w as [|w0 w']; [contradiction|]. inversion Fw as [|? ? Hw0 _]; subst.
  assert (Hsp : span is_space (sp ++ (w0 :: w') ++ b) = (sp, (w0 :: w') ++ b)).
  { rewrite (span_spaces_app sp _ Fs). cbn [app span]. rewrite (idchar_not_space w0 Hw0). cbn [fst snd]. rewrite app_nil_r. reflexivity. }
  rewrite Hsp. destruct (sp ++ (w0 :: w') ++ b) eqn:E0; [destruct sp; discriminate|].
  change ((w0 :: w') ++ b) with (w0 :: (w' ++ b)) at 1. cbv iota.
  change (w0 :: w' ++ b) with ((w0 :: w') ++ b). rewrite (item_unknown _ (w0 :: w') b _ U). reflexivity.
Qed.

(* at the start of the text (after optional spaces) *)
Theorem unknown_word_first sp w b : unknown_word w b -> Forall (fun c => is_space c = true) sp ->
  ref_tokens T (sp ++ w ++ b) = Err (EUnknownLicense w (length sp)).
Proof. intros U Fs. exact (run_unknown sp w b 0 [] U Fs). Qed.

(* after a prefix that tokenises and a space *)
Theorem unknown_word_after_space a sp w b ts : ref_tokens T a = Ok ts -> unknown_word w b -> Forall (fun c => is_space c = true) sp ->
  ref_tokens T (a ++ " "%char :: sp ++ w ++ b) = Err (EUnknownLicense w (length a + 1 + length sp)).
Proof.
  intros Ha U Fs. change (ref_tokens T (a ++ " "%char :: sp ++ w ++ b)) with (ref_run T (a ++ " "%char :: sp ++ w ++ b) 0 []).
  rewrite (ref_run_app T HT a " "%char (sp ++ w ++ b) 0 []) by (split; [reflexivity|discriminate]).
  change (ref_run T a 0 []) with (ref_tokens T a). rewrite Ha.
  change (" "%char :: sp ++ w ++ b) with ((" "%char :: sp) ++ w ++ b).
  rewrite (run_unknown (" "%char :: sp) w b _ _ U) by (constructor; [reflexivity|assumption]).
  cbn [length]. f_equal. f_equal. lia.
Qed.

(* after a prefix that tokenises and an opening parenthesis *)
Theorem unknown_word_after_paren a sp w b ts : ref_tokens T a = Ok ts -> unknown_word w b -> Forall (fun c => is_space c = true) sp ->
  ref_tokens T (a ++ "("%char :: sp ++ w ++ b) = Err (EUnknownLicense w (length a + 1 + length sp)).
Proof.
  intros Ha U Fs. change (ref_tokens T (a ++ "("%char :: sp ++ w ++ b)) with (ref_run T (a ++ "("%char :: sp ++ w ++ b) 0 []).
  rewrite (ref_run_app T HT a "("%char (sp ++ w ++ b) 0 []) by (split; [reflexivity|discriminate]).
  change (ref_run T a 0 []) with (ref_tokens T a). rewrite Ha.
  rewrite (ref_run_unfold T HT). cbn [span].
  replace (is_space "("%char) with false by reflexivity. cbv beta iota zeta. cbn [length].
  assert (HI : forall sp0 r p, ref_item T sp0 ("("%char :: r) p = Ok ([TOp OLp], r, p + 1)) by (intros; reflexivity).
  rewrite HI. rewrite (run_unknown sp w b _ _ U Fs). f_equal. f_equal. lia.
Qed.
End UnknownT.
