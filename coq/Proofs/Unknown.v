(* "Unknown ids are rejected": a maximal id word that none of the documented lookups recognises makes the whole text
   invalid, wherever it stands, and the error cites that word at its own offset (the converse of C15's statement
   that a cited lexeme is found at the cited offset). *)
From Coq Require Import Lia.
From Spdx Require Import Model.Scan Model.Parse Spec.Lex Proofs.BytesFacts Proofs.ScanRef Proofs.Offsets Proofs.Split.
Local Open Scope list_scope.

Section UnknownT.
Variable T : tables.
Hypothesis HT : license_lookup T [] = None.

(* w is a maximal id word followed by b, it is not an operator keyword or a reference prefix glued to more id
   characters, and no lookup rule (listed id, -only, +, -or-later, deprecated id) recognises it *)
Definition unknown_word (w b : str) : Prop :=
  w <> [] /\ Forall (fun c => is_idchar c = true) w /\
  match b with [] => True | c :: _ => is_idchar c = false end /\
  first_op ops w = None /\ strip_prefix k_docref w = None /\ strip_prefix k_licref w = None /\
  classify T w (next_is_plus b) = NUnknown.

Lemma strip_prefix_id_app p w b : Forall (fun x => is_idchar x = true) p -> p <> [] ->
  match b with [] => True | c :: _ => is_idchar c = false end ->
  strip_prefix p w = None -> strip_prefix p (w ++ b) = None.
Proof.
  intros Fp Np Hb H. destruct b as [|c b']; [rewrite app_nil_r; assumption|].
  rewrite (strip_prefix_app_id p w c b' Fp Hb Np), H. reflexivity.
Qed.

Lemma first_op_id_app w b : w <> [] -> match b with [] => True | c :: _ => is_idchar c = false end ->
  first_op ops w = None -> first_op ops (w ++ b) = None.
Proof.
  intros Nw Hb H. destruct b as [|c b']; [rewrite app_nil_r; assumption|].
  rewrite first_op_first_op' in *. rewrite (first_op'_app w c b' Nw Hb).
  destruct (first_op' ops w) as [[[p o] r]|]; [discriminate|reflexivity].
Qed.

Lemma item_unknown spaced w b pos : unknown_word w b -> ref_item T spaced (w ++ b) pos = Err (EUnknownLicense w pos).
Proof.
  intros [Nw [Fw [Hb [Ho [Hd [Hl Hc]]]]]]. unfold ref_item.
  rewrite (first_op_id_app w b Nw Hb Ho).
  rewrite (strip_prefix_id_app k_docref w b) by (try assumption; try discriminate; repeat constructor).
  rewrite (strip_prefix_id_app k_licref w b) by (try assumption; try discriminate; repeat constructor).
  rewrite (span_app is_idchar w b Fw Hb). destruct w as [|w0 w']; [contradiction|]. rewrite Hc. reflexivity.
Qed.

Lemma run_unknown sp w b pos acc : unknown_word w b -> Forall (fun c => is_space c = true) sp ->
  ref_run T (sp ++ w ++ b) pos acc = Err (EUnknownLicense w (pos + length sp)).
Proof.
  intros U Fs. pose proof U as [Nw [Fw _]]. rewrite (ref_run_unfold T HT).
  destruct w as [|w0 w']; [contradiction|]. inversion Fw as [|? ? Hw0 _]; subst.
  assert (Hsp : span is_space (sp ++ (w0 :: w') ++ b) = (sp, (w0 :: w') ++ b)).
  { rewrite (span_spaces_app sp _ Fs). cbn [app span]. rewrite (idchar_not_space w0 Hw0). cbn [fst snd]. rewrite app_nil_r. reflexivity. }
  rewrite Hsp. destruct (sp ++ (w0 :: w') ++ b) eqn:E0; [destruct sp; discriminate|].
  change ((w0 :: w') ++ b) with (w0 :: (w' ++ b)) at 1. cbv iota.
  change (w0 :: w' ++ b) with ((w0 :: w') ++ b). rewrite (item_unknown _ (w0 :: w') b _ U). reflexivity.
Qed.

(* at the start of the text (after optional spaces) *)
Theorem unknown_word_first sp w b : unknown_word w b -> Forall (fun c => is_space c = true) sp ->
  ref_tokens T (sp ++ w ++ b) = Err (EUnknownLicense w (length sp)).
Proof. intros U Fs. exact (run_unknown sp w b 0 [] U Fs). Qed.

(* after a prefix that tokenises and a space *)
Theorem unknown_word_after_space a sp w b ts : ref_tokens T a = Ok ts -> unknown_word w b -> Forall (fun c => is_space c = true) sp ->
  ref_tokens T (a ++ " "%char :: sp ++ w ++ b) = Err (EUnknownLicense w (length a + 1 + length sp)).
Proof.
  intros Ha U Fs. change (ref_tokens T (a ++ " "%char :: sp ++ w ++ b)) with (ref_run T (a ++ " "%char :: sp ++ w ++ b) 0 []).
  rewrite (ref_run_app T HT a " "%char (sp ++ w ++ b) 0 []) by (split; [reflexivity|discriminate]).
  change (ref_run T a 0 []) with (ref_tokens T a). rewrite Ha.
  change (" "%char :: sp ++ w ++ b) with ((" "%char :: sp) ++ w ++ b).
  rewrite (run_unknown (" "%char :: sp) w b _ _ U) by (constructor; [reflexivity|assumption]).
  cbn [length]. f_equal. f_equal. lia.
Qed.

(* after a prefix that tokenises and an opening parenthesis *)
Theorem unknown_word_after_paren a sp w b ts : ref_tokens T a = Ok ts -> unknown_word w b -> Forall (fun c => is_space c = true) sp ->
  ref_tokens T (a ++ "("%char :: sp ++ w ++ b) = Err (EUnknownLicense w (length a + 1 + length sp)).
Proof.
  intros Ha U Fs. change (ref_tokens T (a ++ "("%char :: sp ++ w ++ b)) with (ref_run T (a ++ "("%char :: sp ++ w ++ b) 0 []).
  rewrite (ref_run_app T HT a "("%char (sp ++ w ++ b) 0 []) by (split; [reflexivity|discriminate]).
  change (ref_run T a 0 []) with (ref_tokens T a). rewrite Ha.
  rewrite (ref_run_unfold T HT). cbn [span].
  replace (is_space "("%char) with false by reflexivity. cbv beta iota zeta. cbn [length].
  assert (HI : forall sp0 r p, ref_item T sp0 ("("%char :: r) p = Ok ([TOp OLp], r, p + 1)) by (intros; reflexivity).
  rewrite HI. rewrite (run_unknown sp w b _ _ U Fs). f_equal. f_equal. lia.
Qed.
(* ---------- missing ids: "LicenseRef-" / "DocumentRef-" followed by no id character ---------- *)
Definition no_id_follows (b : str) : Prop := match b with [] => True | c :: _ => is_idchar c = false end.

Lemma item_missing_licref spaced b pos : no_id_follows b ->
  ref_item T spaced (k_licref ++ b) pos = Err (EExpectedId (pos + length k_licref)).
Proof.
  intros Hb. unfold ref_item.
  replace (first_op ops (k_licref ++ b)) with (@None (op * str * nat)) by reflexivity.
  replace (strip_prefix k_docref (k_licref ++ b)) with (@None str) by reflexivity.
  rewrite strip_prefix_app. pose proof (span_app is_idchar [] b (Forall_nil _) Hb) as Hs. cbn [app] in Hs. rewrite Hs. reflexivity.
Qed.
Lemma item_missing_docref spaced b pos : no_id_follows b ->
  ref_item T spaced (k_docref ++ b) pos = Err (EExpectedId (pos + length k_docref)).
Proof.
  intros Hb. unfold ref_item.
  replace (first_op ops (k_docref ++ b)) with (@None (op * str * nat)) by reflexivity.
  rewrite strip_prefix_app. pose proof (span_app is_idchar [] b (Forall_nil _) Hb) as Hs. cbn [app] in Hs. rewrite Hs. reflexivity.
Qed.

(* a run that starts (after optional spaces) with an item that fails, fails with that item's error *)
Lemma run_item_err sp c r pos acc (e : nat -> err) : Forall (fun x => is_space x = true) sp -> is_space c = false ->
  (forall spaced p, ref_item T spaced (c :: r) p = Err (e p)) ->
  ref_run T (sp ++ c :: r) pos acc = Err (e (pos + length sp)).
Proof.
  intros Fs Hc HI. rewrite (ref_run_unfold T HT).
  assert (Hsp : span is_space (sp ++ c :: r) = (sp, c :: r)).
  { rewrite (span_spaces_app sp _ Fs). cbn [span]. rewrite Hc. cbn [fst snd]. rewrite app_nil_r. reflexivity. }
  rewrite Hsp. destruct (sp ++ c :: r) eqn:E0; [destruct sp; discriminate|]. rewrite HI. reflexivity.
Qed.

Theorem missing_licref_first sp b : Forall (fun x => is_space x = true) sp -> no_id_follows b ->
  ref_tokens T (sp ++ k_licref ++ b) = Err (EExpectedId (length sp + length k_licref)).
Proof.
  intros Fs Hb. change (ref_tokens T (sp ++ k_licref ++ b)) with (ref_run T (sp ++ k_licref ++ b) 0 []).
  change (k_licref ++ b) with ("L"%char :: (tl k_licref ++ b)).
  rewrite (run_item_err sp "L"%char (tl k_licref ++ b) 0 [] (fun p => EExpectedId (p + length k_licref)) Fs eq_refl); [reflexivity|].
  intros spaced p. exact (item_missing_licref spaced b p Hb).
Qed.
Theorem missing_licref_after a c sp b ts : ref_tokens T a = Ok ts -> c = " "%char \/ c = "("%char \/ c = ":"%char ->
  Forall (fun x => is_space x = true) sp -> no_id_follows b ->
  ref_tokens T (a ++ c :: sp ++ k_licref ++ b) = Err (EExpectedId (length a + 1 + length sp + length k_licref)).
Proof.
  intros Ha Hc Fs Hb.
  change (ref_tokens T (a ++ c :: sp ++ k_licref ++ b)) with (ref_run T (a ++ c :: sp ++ k_licref ++ b) 0 []).
  assert (Bd : boundary a c) by (destruct Hc as [ -> | [ -> | -> ] ]; split; try reflexivity; discriminate).
  rewrite (ref_run_app T HT a c (sp ++ k_licref ++ b) 0 [] Bd).
  change (ref_run T a 0 []) with (ref_tokens T a). rewrite Ha.
  assert (HR : forall sp0, Forall (fun x => is_space x = true) sp0 -> forall p acc0,
            ref_run T (sp0 ++ k_licref ++ b) p acc0 = Err (EExpectedId (p + length sp0 + length k_licref))).
  { intros sp0 F0 p acc0. change (k_licref ++ b) with ("L"%char :: (tl k_licref ++ b)).
    rewrite (run_item_err sp0 "L"%char (tl k_licref ++ b) p acc0 (fun q => EExpectedId (q + length k_licref)) F0 eq_refl); [reflexivity|].
    intros spaced q. exact (item_missing_licref spaced b q Hb). }
  destruct Hc as [ -> | [ -> | -> ] ].
  - change (" "%char :: sp ++ k_licref ++ b) with ((" "%char :: sp) ++ k_licref ++ b).
    rewrite (HR (" "%char :: sp)) by (constructor; [reflexivity|assumption]). cbn [length]. f_equal. f_equal. lia.
  - rewrite (ref_run_unfold T HT). cbn [span]. replace (is_space "("%char) with false by reflexivity. cbv beta iota zeta. cbn [length].
    assert (HI : forall sp0 r p, ref_item T sp0 ("("%char :: r) p = Ok ([TOp OLp], r, p + 1)) by (intros; reflexivity).
    rewrite HI, (HR sp Fs). f_equal. f_equal. lia.
  - rewrite (ref_run_unfold T HT). cbn [span]. replace (is_space ":"%char) with false by reflexivity. cbv beta iota zeta. cbn [length].
    assert (HI : forall sp0 r p, ref_item T sp0 (":"%char :: r) p = Ok ([TOp OColon], r, p + 1)) by (intros; reflexivity).
    rewrite HI, (HR sp Fs). f_equal. f_equal. lia.
Qed.
Theorem missing_docref_first sp b : Forall (fun x => is_space x = true) sp -> no_id_follows b ->
  ref_tokens T (sp ++ k_docref ++ b) = Err (EExpectedId (length sp + length k_docref)).
Proof.
  intros Fs Hb. change (ref_tokens T (sp ++ k_docref ++ b)) with (ref_run T (sp ++ k_docref ++ b) 0 []).
  change (k_docref ++ b) with ("D"%char :: (tl k_docref ++ b)).
  rewrite (run_item_err sp "D"%char (tl k_docref ++ b) 0 [] (fun p => EExpectedId (p + length k_docref)) Fs eq_refl); [reflexivity|].
  intros spaced p. exact (item_missing_docref spaced b p Hb).
Qed.
End UnknownT.
