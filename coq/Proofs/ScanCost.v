(* The scanner's buffer never grows (a rewrite removes nine bytes and inserts one), so the bytes copied by all buffer
   rebuilds of one scan, plus one per loop iteration, are at most (|text|+1)^2. *)
From Coq Require Import Lia.
From Spdx Require Import Model.Scan Model.ScanTicks Proofs.BytesFacts.
Local Open Scope list_scope.

Lemma zread_blen next z z' : zread next z = Some z' -> blen z' = blen z.
Proof.
  unfold zread. destruct (strip_prefix next (zr z)) as [r|] eqn:E; [|discriminate].
  intros H; inversion H; subst. apply strip_prefix_spec in E. unfold blen. cbn [zb zr].
  rewrite rapp_rev, app_length, rev_length, E, app_length. lia.
Qed.
Lemma zclass_blen p z m z' : zclass p z = (m, z') -> blen z' = blen z.
Proof.
  unfold zclass. destruct (span p (zr z)) as [a b] eqn:E. intros H; inversion H; subst.
  apply span_spec in E. destruct E as [E _]. unfold blen. cbn [zb zr].
  rewrite rapp_rev, app_length, rev_length, E, app_length. lia.
Qed.
Lemma zread_first_blen l : forall z o z', zread_first l z = Some (o, z') -> blen z' = blen z.
Proof.
  induction l as [|[p o'] l IH]; intros z o z'; cbn [zread_first]; [discriminate|].
  destruct (zread p z) as [z1|] eqn:E; [|apply IH].
  intros H; inversion H; subst. apply (zread_blen _ _ _ E).
Qed.
Lemma zoperator_blen z t z' : zoperator z = Some (inr (t, z')) -> blen z' = blen z.
Proof.
  unfold zoperator. destruct (zread_first ops z) as [[o z1]|] eqn:E; [|discriminate].
  apply zread_first_blen in E. destruct o; try (intros H; inversion H; subst; exact E).
  destruct (zb z1) as [|c0 [|c l]]; try (intros H; inversion H; subst; exact E).
  destruct (is_space c); intros H; inversion H; subst; exact E.
Qed.
Lemma zid_blen z id z' : zid z = inr (id, z') -> blen z' = blen z.
Proof.
  unfold zid. destruct (zclass is_idchar z) as [m z1] eqn:E. apply zclass_blen in E.
  destruct m; [discriminate|]. intros H; inversion H; subst. exact E.
Qed.
Lemma znormalize_blen T w z t z' : znormalize T w z = Ok (Some (t, z')) -> blen z' <= blen z.
Proof.
  unfold znormalize. destruct (classify T w (next_is_plus (zr z))) as [t0|t0|t0|].
  - intros H; inversion H; subst. lia.
  - destruct (zr z) as [|c r] eqn:E; [discriminate|]. intros H; inversion H; subst. unfold blen. cbn [zb zr]. rewrite E. simpl. lia.
  - destruct (Nat.ltb (length (zb z)) 9) eqn:E; [discriminate|]. apply Nat.ltb_ge in E.
    pose proof (skipn_length 9 (zb z)) as HS. remember (skipn 9 (zb z)) as sk eqn:Hsk. clear Hsk.
    intros H; inversion H; subst. unfold blen. cbn [zb zr length]. lia.
  - discriminate.
Qed.
Lemma znorm_cost_le T w z : znorm_cost T w z <= blen z.
Proof.
  unfold znorm_cost. destruct (classify T w (next_is_plus (zr z))); try lia.
  destruct (Nat.ltb (length (zb z)) 9) eqn:E; [lia|]. apply Nat.ltb_ge in E.
  unfold blen. rewrite skipn_length. lia.
Qed.

Theorem ztoken_blen T z t z' : ztoken T z = Ok (t, z') -> blen z' <= blen z.
Proof.
  unfold ztoken. destruct (zoperator z) as [[e|[t0 z0]]|] eqn:EO.
  - discriminate.
  - intros H; inversion H; subst. rewrite (zoperator_blen _ _ _ EO). lia.
  - destruct (zread k_docref z) as [z1|] eqn:E1.
    + destruct (zid z1) as [e|[id z2]] eqn:E2; [discriminate|]. intros H; inversion H; subst.
      rewrite (zid_blen _ _ _ E2), (zread_blen _ _ _ E1). lia.
    + destruct (zread k_licref z) as [z1|] eqn:E3.
      * destruct (zid z1) as [e|[id z2]] eqn:E2; [discriminate|]. intros H; inversion H; subst.
        rewrite (zid_blen _ _ _ E2), (zread_blen _ _ _ E3). lia.
      * destruct (zid z) as [e|[id z1]] eqn:E2; [discriminate|].
        destruct (znormalize T id z1) as [[[t1 z2]|]|e| |] eqn:EN; try discriminate.
        intros H; inversion H; subst. apply znormalize_blen in EN. rewrite (zid_blen _ _ _ E2) in EN. exact EN.
Qed.
Theorem rebuild_cost_le T z : rebuild_cost T z <= blen z.
Proof.
  unfold rebuild_cost. destruct (zoperator z); [lia|]. destruct (zread k_docref z); [lia|].
  destruct (zread k_licref z); [lia|]. destruct (zid z) as [e|[id z1]] eqn:E; [lia|].
  rewrite <- (zid_blen _ _ _ E). apply znorm_cost_le.
Qed.

Theorem zscan_ticks_bound T f : forall z, zscan_ticks T f z <= f * (1 + blen z).
Proof.
  induction f as [|f IH]; intros z; [simpl; lia|].
  cbn [zscan_ticks]. destruct (zr z) as [|c r] eqn:Ez; [lia|].
  destruct (zclass is_space z) as [m z1] eqn:E1. apply zclass_blen in E1.
  destruct (zr z1) as [|c1 r1] eqn:Ez1; [lia|].
  pose proof (rebuild_cost_le T z1) as HR.
  destruct (ztoken T z1) as [[t z2]|e| |] eqn:ET; try lia.
  apply ztoken_blen in ET. specialize (IH z2).
  assert (f * (1 + blen z2) <= f * (1 + blen z)) by (apply Nat.mul_le_mono_l; lia).
  lia.
Qed.

(* as run by scan(): fuel |s|+1 from the start of the caller's string *)
Theorem scan_ticks_quadratic T s :
  zscan_ticks T (S (length s)) {| zb := []; zr := s; zshift := 0 |} <= (length s + 1) * (length s + 1).
Proof.
  pose proof (zscan_ticks_bound T (S (length s)) {| zb := []; zr := s; zshift := 0 |}) as H.
  unfold blen in H. cbn [zb zr length] in H. lia.
Qed.
