(* Parser == grammar:  p_tokens ts = Ok n  <->  d_expr ts n, for token lists of any length and nesting;
   the parser never panics and never runs out of its fuel. *)
From Coq Require Import Lia.
From Spdx Require Import Model.Parse Spec.Grammar.
Local Open Scope list_scope.

(* ---------------- soundness ---------------- *)
Lemma p_op_some o ts r : p_op o ts = Some r -> ts = TOp o :: r.
Proof.
  destruct ts as [|[o'| |er| |] ts']; simpl; try discriminate.
  destruct (op_eqb o o') eqn:E; [|discriminate]. intros H; inversion H; subst.
  destruct o, o'; simpl in E; try discriminate; reflexivity.
Qed.

Lemma p_ref_sound ts n r : p_ref ts = Ok (Some (n, r)) -> exists pre, ts = pre ++ r /\ d_atom pre n.
Proof.
  unfold p_ref. destruct ts as [|[o|d|x|l|e] ts']; try discriminate.
  - destruct (p_op OColon ts') as [r'|] eqn:E; [|discriminate].
    apply p_op_some in E; subst. destruct r' as [|[o|d'|x|l|e] r'']; try discriminate.
    intros H; inversion H; subst. exists [TDoc d; TOp OColon; TRef x]; split; [reflexivity|constructor].
  - intros H; inversion H; subst. exists [TRef x]; split; [reflexivity|constructor].
Qed.

Lemma p_lic_sound ts n r : p_lic ts = Ok (Some (n, r)) -> exists pre, ts = pre ++ r /\ d_atom pre n.
Proof.
  unfold p_lic. destruct ts as [|[o|d|x|l|e] ts']; try discriminate.
  destruct (p_op OPlus ts') as [r1|] eqn:E1.
  - apply p_op_some in E1; subst.
    destruct (p_op OWith r1) as [r2|] eqn:E2.
    + apply p_op_some in E2; subst. destruct r2 as [|[o|d|x|l'|e] r3]; try discriminate.
      intros H; inversion H; subst.
      exists (TLic l :: plus_toks true ++ with_toks (Some e)); split; [reflexivity|].
      apply (d_lic l true (Some e)).
    + intros H; inversion H; subst.
      exists (TLic l :: plus_toks true ++ with_toks None); split; [reflexivity|].
      apply (d_lic l true None).
  - destruct (p_op OWith ts') as [r2|] eqn:E2.
    + apply p_op_some in E2; subst. destruct r2 as [|[o|d|x|l'|e] r3]; try discriminate.
      intros H; inversion H; subst.
      exists (TLic l :: plus_toks false ++ with_toks (Some e)); split; [reflexivity|].
      apply (d_lic l false (Some e)).
    + intros H; inversion H; subst.
      exists (TLic l :: plus_toks false ++ with_toks None); split; [reflexivity|].
      apply (d_lic l false None).
Qed.

Lemma sound_all f :
  (forall ts n r, p_expr f ts = Ok (n, r) -> exists pre, ts = pre ++ r /\ d_expr pre n) /\
  (forall ts n r, p_and f ts = Ok (n, r) -> exists pre, ts = pre ++ r /\ d_and pre n) /\
  (forall ts n r, p_atom f ts = Ok (n, r) -> exists pre, ts = pre ++ r /\ d_atom pre n).
Proof.
  induction f as [|f [IHe [IHa IHt]]]; [repeat split; intros; discriminate|].
  repeat split; intros ts n r H; simpl in H.
  - destruct (p_and f ts) as [[lft r0]|er| |] eqn:EA; try discriminate.
    apply IHa in EA. destruct EA as [pre1 [-> D1]].
    destruct (p_op OOr r0) as [r'|] eqn:EO.
    + apply p_op_some in EO; subst. destruct r' as [|t0 r'0]; [discriminate|].
      destruct (p_expr f (t0 :: r'0)) as [[rgt r'']|er| |] eqn:EE; try discriminate.
      inversion H; subst. apply IHe in EE. destruct EE as [pre2 [EQ D2]].
      exists (pre1 ++ TOp OOr :: pre2). split.
      * rewrite <- app_assoc. simpl. rewrite EQ. reflexivity.
      * apply d_exprS; assumption.
    + inversion H; subst. exists pre1; split; [reflexivity|apply d_expr1; assumption].
  - destruct (p_atom f ts) as [[lft r0]|er| |] eqn:EA; try discriminate.
    apply IHt in EA. destruct EA as [pre1 [-> D1]].
    destruct (p_op OAnd r0) as [r'|] eqn:EO.
    + apply p_op_some in EO; subst. destruct r' as [|t0 r'0]; [discriminate|].
      destruct (p_and f (t0 :: r'0)) as [[rgt r'']|er| |] eqn:EE; try discriminate.
      inversion H; subst. apply IHa in EE. destruct EE as [pre2 [EQ D2]].
      exists (pre1 ++ TOp OAnd :: pre2). split.
      * rewrite <- app_assoc. simpl. rewrite EQ. reflexivity.
      * apply d_andS; assumption.
    + inversion H; subst. exists pre1; split; [reflexivity|apply d_and1; assumption].
  - destruct (p_op OLp ts) as [r0|] eqn:EL.
    + apply p_op_some in EL; subst.
      destruct (p_expr f r0) as [[e r']|er| |] eqn:EE; try discriminate.
      destruct (p_op ORp r') as [r''|] eqn:ER; [|discriminate].
      apply p_op_some in ER; subst. inversion H; subst.
      apply IHe in EE. destruct EE as [pre [-> D]].
      exists (TOp OLp :: pre ++ [TOp ORp]). split.
      * simpl. rewrite <- app_assoc. reflexivity.
      * constructor; assumption.
    + destruct (p_ref ts) as [[[n0 r0]|]|er| |] eqn:ER; try discriminate.
      * inversion H; subst. eapply p_ref_sound; eassumption.
      * destruct (p_lic ts) as [[[n0 r0]|]|er| |] eqn:ELc; try discriminate.
        inversion H; subst. eapply p_lic_sound; eassumption.
Qed.

(* ---------------- completeness ---------------- *)
(* what may follow a complete atom / and / expr *)
Definition fol_expr (r : list tok) : Prop := r = [] \/ exists r', r = TOp ORp :: r'.
Definition fol_and (r : list tok) : Prop := fol_expr r \/ exists r', r = TOp OOr :: r' /\ r' <> [].
Definition fol_atom (r : list tok) : Prop := fol_and r \/ exists r', r = TOp OAnd :: r' /\ r' <> [].

Lemma fol_atom_cases r : fol_atom r ->
  p_op OPlus r = None /\ p_op OWith r = None /\ p_op OColon r = None.
Proof.
  intros [[[->|[r' ->]]|[r' [-> _]]]|[r' [-> _]]]; repeat split; reflexivity.
Qed.

Lemma d_nonempty :
  (forall ts n, d_atom ts n -> ts <> []) /\ (forall ts n, d_and ts n -> ts <> []) /\ (forall ts n, d_expr ts n -> ts <> []).
Proof.
  apply d_mutind; intros; try discriminate; try assumption.
  - destruct ts1; [contradiction|discriminate].
  - destruct ts1; [contradiction|discriminate].
Qed.

Definition e_body (f : nat) (ts : list tok) : res (node * list tok) :=
  match p_and f ts with
  | Ok (lft, r) =>
      match p_op OOr r with
      | None => Ok (lft, r)
      | Some r' => match r' with [] => Err ESyntax | _ => match p_expr f r' with Ok (rgt, r'') => Ok (NOr lft rgt, r'') | e => e end end
      end
  | e => e end.
Definition a_body (f : nat) (ts : list tok) : res (node * list tok) :=
  match p_atom f ts with
  | Ok (lft, r) =>
      match p_op OAnd r with
      | None => Ok (lft, r)
      | Some r' => match r' with [] => Err ESyntax | _ => match p_and f r' with Ok (rgt, r'') => Ok (NAnd lft rgt, r'') | e => e end end
      end
  | e => e end.
Definition t_body (f : nat) (ts : list tok) : res (node * list tok) :=
  match p_op OLp ts with
  | Some r => match p_expr f r with
              | Ok (e, r') => match p_op ORp r' with Some r'' => Ok (e, r'') | None => Err ESyntax end
              | e => e end
  | None => match p_ref ts with
            | Ok (Some x) => Ok x
            | Ok None => match p_lic ts with Ok (Some x) => Ok x | Ok None => Err ESyntax | Err e => Err e | Panic => Panic | Fuel => Fuel end
            | Err e => Err e | Panic => Panic | Fuel => Fuel end
  end.
Lemma p_expr_S f ts : p_expr (S f) ts = e_body f ts. Proof. reflexivity. Qed.
Lemma p_and_S f ts : p_and (S f) ts = a_body f ts. Proof. reflexivity. Qed.
Lemma p_atom_S f ts : p_atom (S f) ts = t_body f ts. Proof. reflexivity. Qed.

Lemma p_ref_cases ts : p_ref ts = Err ESyntax \/ exists x, p_ref ts = Ok x.
Proof.
  unfold p_ref. destruct ts as [|[o|d|x|l|e] ts']; eauto.
  destruct (p_op OColon ts') as [[|[o|d'|x|l|e] r'']|]; eauto.
Qed.
Lemma p_lic_cases ts : p_lic ts = Err ESyntax \/ exists x, p_lic ts = Ok x.
Proof.
  unfold p_lic. destruct ts as [|[o|d|x|l|e] ts']; eauto.
  destruct (p_op OPlus ts'); destruct (p_op OWith _) as [[|[o|d'|x|l'|e] r'']|]; eauto.
Qed.

(* any result other than Fuel is stable under more fuel *)
Lemma mono_all f :
  (forall ts, p_expr f ts <> Fuel -> p_expr (S f) ts = p_expr f ts) /\
  (forall ts, p_and f ts <> Fuel -> p_and (S f) ts = p_and f ts) /\
  (forall ts, p_atom f ts <> Fuel -> p_atom (S f) ts = p_atom f ts).
Proof.
  induction f as [|f [IHe [IHa IHt]]]; [repeat split; intros ts H; exfalso; apply H; reflexivity|].
  repeat split; intros ts H.
  - rewrite (p_expr_S (S f)). rewrite (p_expr_S f) in *. unfold e_body in *.
    destruct (p_and f ts) as [[lft r]|er| |] eqn:EA; try (rewrite IHa; rewrite EA; [reflexivity|discriminate]).
    + rewrite IHa; rewrite EA; [|discriminate].
      destruct (p_op OOr r) as [[|t0 r'0]|]; try reflexivity.
      destruct (p_expr f (t0 :: r'0)) as [[rgt r'']|er| |] eqn:EE;
        try (rewrite IHe; rewrite EE; [reflexivity|discriminate]).
      exfalso; apply H; reflexivity.
    + exfalso; apply H; reflexivity.
  - rewrite (p_and_S (S f)). rewrite (p_and_S f) in *. unfold a_body in *.
    destruct (p_atom f ts) as [[lft r]|er| |] eqn:EA; try (rewrite IHt; rewrite EA; [reflexivity|discriminate]).
    + rewrite IHt; rewrite EA; [|discriminate].
      destruct (p_op OAnd r) as [[|t0 r'0]|]; try reflexivity.
      destruct (p_and f (t0 :: r'0)) as [[rgt r'']|er| |] eqn:EE;
        try (rewrite IHa; rewrite EE; [reflexivity|discriminate]).
      exfalso; apply H; reflexivity.
    + exfalso; apply H; reflexivity.
  - rewrite (p_atom_S (S f)). rewrite (p_atom_S f) in *. unfold t_body in *.
    destruct (p_op OLp ts) as [r|]; [|reflexivity].
    destruct (p_expr f r) as [[e r']|er| |] eqn:EE; try (rewrite IHe; rewrite EE; [reflexivity|discriminate]).
    exfalso; apply H; reflexivity.
Qed.

Lemma mono_le f g : f <= g ->
  (forall ts, p_expr f ts <> Fuel -> p_expr g ts = p_expr f ts) /\
  (forall ts, p_and f ts <> Fuel -> p_and g ts = p_and f ts) /\
  (forall ts, p_atom f ts <> Fuel -> p_atom g ts = p_atom f ts).
Proof.
  induction 1 as [|g Hle [IHe [IHa IHt]]]; [repeat split; auto|].
  destruct (mono_all g) as [Me [Ma Mt]].
  repeat split; intros ts H.
  - rewrite Me; [apply IHe; assumption|rewrite IHe; assumption].
  - rewrite Ma; [apply IHa; assumption|rewrite IHa; assumption].
  - rewrite Mt; [apply IHt; assumption|rewrite IHt; assumption].
Qed.
Lemma mono_ok f g : f <= g ->
  (forall ts x, p_expr f ts = Ok x -> p_expr g ts = Ok x) /\
  (forall ts x, p_and f ts = Ok x -> p_and g ts = Ok x) /\
  (forall ts x, p_atom f ts = Ok x -> p_atom g ts = Ok x).
Proof.
  intros Hle. destruct (mono_le f g Hle) as [Me [Ma Mt]].
  repeat split; intros ts x H; [rewrite Me|rewrite Ma|rewrite Mt]; rewrite H; try reflexivity; discriminate.
Qed.

(* completeness with existential fuel *)
Lemma complete_all :
  (forall ts n, d_atom ts n -> forall r, fol_atom r -> exists f, p_atom f (ts ++ r) = Ok (n, r)) /\
  (forall ts n, d_and ts n -> forall r, fol_and r -> exists f, p_and f (ts ++ r) = Ok (n, r)) /\
  (forall ts n, d_expr ts n -> forall r, fol_expr r -> exists f, p_expr f (ts ++ r) = Ok (n, r)).
Proof.
  apply d_mutind.
  - (* paren *) intros ts t D IH r Hr.
    destruct (IH (TOp ORp :: r)) as [f Hf]; [right; eexists; reflexivity|].
    exists (S f). simpl. rewrite <- app_assoc. simpl. rewrite Hf. reflexivity.
  - intros x r Hr. exists 1. reflexivity.
  - intros d x r Hr. exists 1. reflexivity.
  - intros l p e r Hr. exists 1.
    destruct (fol_atom_cases r Hr) as [H1 [H2 _]].
    destruct p, e as [e|]; simpl; rewrite ?H1, ?H2; reflexivity.
  - (* and1 *) intros ts t D IH r Hr.
    destruct (IH r (or_introl Hr)) as [f Hf]. exists (S f). simpl. rewrite Hf.
    destruct Hr as [[->|[r' ->]]|[r' [-> _]]]; reflexivity.
  - (* andS *) intros ts1 t1 ts2 t2 D1 IH1 D2 IH2 r Hr.
    destruct (IH2 r Hr) as [f2 Hf2].
    assert (NE : ts2 ++ r <> []).
    { destruct d_nonempty as [_ [Hn _]]. specialize (Hn _ _ D2). destruct ts2; [contradiction|discriminate]. }
    destruct (IH1 (TOp OAnd :: ts2 ++ r)) as [f1 Hf1]; [right; eexists; split; [reflexivity|assumption]|].
    exists (S (max f1 f2)).
    destruct (mono_ok f1 (max f1 f2) (Nat.le_max_l _ _)) as [_ [_ Mt]].
    destruct (mono_ok f2 (max f1 f2) (Nat.le_max_r _ _)) as [_ [Ma _]].
    simpl. rewrite <- app_assoc. simpl. rewrite (Mt _ _ Hf1). simpl.
    destruct (ts2 ++ r) as [|t0 r0] eqn:E; [contradiction|].
    rewrite (Ma _ _ Hf2). reflexivity.
  - (* expr1 *) intros ts t D IH r Hr.
    destruct (IH r (or_introl Hr)) as [f Hf]. exists (S f). simpl. rewrite Hf.
    destruct Hr as [->|[r' ->]]; reflexivity.
  - (* exprS *) intros ts1 t1 ts2 t2 D1 IH1 D2 IH2 r Hr.
    destruct (IH2 r Hr) as [f2 Hf2].
    assert (NE : ts2 ++ r <> []).
    { destruct d_nonempty as [_ [_ Hn]]. specialize (Hn _ _ D2). destruct ts2; [contradiction|discriminate]. }
    destruct (IH1 (TOp OOr :: ts2 ++ r)) as [f1 Hf1]; [right; eexists; split; [reflexivity|assumption]|].
    exists (S (max f1 f2)).
    destruct (mono_ok f1 (max f1 f2) (Nat.le_max_l _ _)) as [_ [Ma _]].
    destruct (mono_ok f2 (max f1 f2) (Nat.le_max_r _ _)) as [Me _].
    simpl. rewrite <- app_assoc. simpl. rewrite (Ma _ _ Hf1). simpl.
    destruct (ts2 ++ r) as [|t0 r0] eqn:E; [contradiction|].
    rewrite (Me _ _ Hf2). reflexivity.
Qed.

(* ---------------- fuel sufficiency and the top-level equivalence ---------------- *)
Lemma sound_shorter f :
  (forall ts n r, p_expr f ts = Ok (n, r) -> length r < length ts) /\
  (forall ts n r, p_and f ts = Ok (n, r) -> length r < length ts) /\
  (forall ts n r, p_atom f ts = Ok (n, r) -> length r < length ts).
Proof.
  destruct (sound_all f) as [Se [Sa St]].
  destruct d_nonempty as [Nt [Na Ne]].
  repeat split; intros ts n r H.
  - apply Se in H. destruct H as [pre [-> D]]. apply Ne in D. rewrite app_length. destruct pre; [contradiction|simpl; lia].
  - apply Sa in H. destruct H as [pre [-> D]]. apply Na in D. rewrite app_length. destruct pre; [contradiction|simpl; lia].
  - apply St in H. destruct H as [pre [-> D]]. apply Nt in D. rewrite app_length. destruct pre; [contradiction|simpl; lia].
Qed.

Lemma fuel_enough f :
  (forall ts, 3 * length ts + 3 <= f -> p_expr f ts <> Fuel) /\
  (forall ts, 3 * length ts + 2 <= f -> p_and f ts <> Fuel) /\
  (forall ts, 3 * length ts + 1 <= f -> p_atom f ts <> Fuel).
Proof.
  induction f as [|f [IHe [IHa IHt]]]; [repeat split; intros; lia|].
  destruct (sound_shorter f) as [She [Sha Sht]].
  repeat split; intros ts Hf.
  - rewrite p_expr_S. unfold e_body.
    destruct (p_and f ts) as [[lft r]|er| |] eqn:EA; try discriminate.
    + destruct (p_op OOr r) as [r'|] eqn:EO; [|discriminate].
      destruct r' as [|t0 r'0]; [discriminate|].
      apply p_op_some in EO; subst. apply Sha in EA. simpl in EA.
      destruct (p_expr f (t0 :: r'0)) as [[rgt r'']|er| |] eqn:EE; try discriminate.
      exfalso. apply (IHe (t0 :: r'0)); [simpl in *; lia|assumption].
    + exfalso. apply (IHa ts); [lia|assumption].
  - rewrite p_and_S. unfold a_body.
    destruct (p_atom f ts) as [[lft r]|er| |] eqn:EA; try discriminate.
    + destruct (p_op OAnd r) as [r'|] eqn:EO; [|discriminate].
      destruct r' as [|t0 r'0]; [discriminate|].
      apply p_op_some in EO; subst. apply Sht in EA. simpl in EA.
      destruct (p_and f (t0 :: r'0)) as [[rgt r'']|er| |] eqn:EE; try discriminate.
      exfalso. apply (IHa (t0 :: r'0)); [simpl in *; lia|assumption].
    + exfalso. apply (IHt ts); [lia|assumption].
  - rewrite p_atom_S. unfold t_body.
    destruct (p_op OLp ts) as [r|] eqn:EL.
    + apply p_op_some in EL; subst.
      destruct (p_expr f r) as [[e r']|er| |] eqn:EE; try discriminate.
      * destruct (p_op ORp r'); discriminate.
      * exfalso. apply (IHe r); [simpl in *; lia|assumption].
    + destruct (p_ref_cases ts) as [->|[[x|] ->]]; try discriminate.
      destruct (p_lic_cases ts) as [->|[[x|] ->]]; discriminate.
Qed.

Theorem parse_sound_complete ts n : p_tokens ts = Ok n <-> d_expr ts n.
Proof.
  split.
  - unfold p_tokens. destruct ts as [|t0 ts']; [discriminate|].
    destruct (p_expr _ (t0 :: ts')) as [[n' [|]]|er| |] eqn:E; try discriminate.
    intros H; inversion H; subst. apply sound_all in E. destruct E as [pre [EQ D]].
    rewrite app_nil_r in EQ. subst. assumption.
  - intros D. destruct complete_all as [_ [_ C]].
    destruct (C _ _ D [] (or_introl eq_refl)) as [f Hf]. rewrite app_nil_r in Hf.
    destruct d_nonempty as [_ [_ Ne]]. specialize (Ne _ _ D).
    unfold p_tokens. destruct ts as [|t0 ts']; [contradiction|].
    set (F := 3 * length (t0 :: ts') + 3).
    assert (HF : p_expr F (t0 :: ts') <> Fuel).
    { destruct (fuel_enough F) as [Fe _]. apply Fe. unfold F. lia. }
    assert (E : p_expr F (t0 :: ts') = Ok (n, [])).
    { destruct (Nat.le_gt_cases f F) as [Hle|Hgt].
      - destruct (mono_ok f F Hle) as [Me _]. apply Me. assumption.
      - destruct (mono_le F f (Nat.lt_le_incl _ _ Hgt)) as [Me _]. rewrite <- (Me _ HF). assumption. }
    rewrite E. reflexivity.
Qed.

Lemma no_panic_all f :
  (forall ts, p_expr f ts <> Panic) /\ (forall ts, p_and f ts <> Panic) /\ (forall ts, p_atom f ts <> Panic).
Proof.
  induction f as [|f [IHe [IHa IHt]]]; [repeat split; intros; discriminate|].
  repeat split; intros ts.
  - rewrite p_expr_S. unfold e_body. specialize (IHa ts).
    destruct (p_and f ts) as [[lft r]|er| |]; try discriminate; try contradiction.
    destruct (p_op OOr r) as [[|t0 r'0]|]; try discriminate.
    specialize (IHe (t0 :: r'0)). destruct (p_expr f (t0 :: r'0)) as [[rgt r'']|er| |]; try discriminate; contradiction.
  - rewrite p_and_S. unfold a_body. specialize (IHt ts).
    destruct (p_atom f ts) as [[lft r]|er| |]; try discriminate; try contradiction.
    destruct (p_op OAnd r) as [[|t0 r'0]|]; try discriminate.
    specialize (IHa (t0 :: r'0)). destruct (p_and f (t0 :: r'0)) as [[rgt r'']|er| |]; try discriminate; contradiction.
  - rewrite p_atom_S. unfold t_body.
    destruct (p_op OLp ts) as [r|].
    + specialize (IHe r). destruct (p_expr f r) as [[e r']|er| |]; try discriminate; try contradiction.
      destruct (p_op ORp r'); discriminate.
    + destruct (p_ref_cases ts) as [->|[[x|] ->]]; try discriminate.
      destruct (p_lic_cases ts) as [->|[[x|] ->]]; discriminate.
Qed.

(* the parser returns a tree or an error value: it neither panics nor exhausts its fuel *)
Theorem parse_never_panics ts : p_tokens ts <> Panic /\ p_tokens ts <> Fuel.
Proof.
  unfold p_tokens. destruct ts as [|t0 ts']; [split; discriminate|].
  set (F := 3 * length (t0 :: ts') + 3).
  destruct (no_panic_all F) as [Np _]. specialize (Np (t0 :: ts')).
  destruct (fuel_enough F) as [Fe _]. specialize (Fe (t0 :: ts') (le_n _)).
  destruct (p_expr F (t0 :: ts')) as [[n [|]]|er| |]; split; try discriminate; contradiction.
Qed.

(* the grammar is unambiguous *)
Corollary derivation_unique ts n n' : d_expr ts n -> d_expr ts n' -> n = n'.
Proof.
  intros H H'. apply parse_sound_complete in H, H'. rewrite H in H'. inversion H'. reflexivity.
Qed.
