(* What chk_fold_unique gives, at full strength: no two POSITIONS of active ++ deprecated ++ exceptions hold ids that are
   equal up to letter case - hence no id occurs twice, the three lists are pairwise disjoint, and disjoint up to case. *)
From Coq Require Import Lia.
From Spdx Require Import Spec.WF Proofs.BytesFacts.
Local Open Scope list_scope.

Lemma fold_nodup_positions l : fold_nodup l = true ->
  forall i j x y, nth_error l i = Some x -> nth_error l j = Some y -> fold_eqb x y = true -> i = j.
Proof.
  induction l as [|z l IH]; intros H i j x y Hi Hj F; [destruct i; discriminate|].
  simpl in H. destruct (existsb (fold_eqb z) l) eqn:E; [discriminate|].
  destruct i as [|i], j as [|j]; simpl in Hi, Hj.
  - reflexivity.
  - inversion Hi; subst. exfalso. apply nth_error_In in Hj.
    assert (existsb (fold_eqb x) l = true) by (apply existsb_exists; exists y; auto). congruence.
  - inversion Hj; subst. exfalso. apply nth_error_In in Hi. rewrite fold_eqb_sym in F.
    assert (existsb (fold_eqb y) l = true) by (apply existsb_exists; exists x; auto). congruence.
  - f_equal. exact (IH H i j x y Hi Hj F).
Qed.

Lemma fold_nodup_NoDup l : fold_nodup l = true -> NoDup l.
Proof.
  induction l as [|z l IH]; intros H; [constructor|]. simpl in H.
  destruct (existsb (fold_eqb z) l) eqn:E; [discriminate|]. constructor; [|exact (IH H)].
  intros Hin. assert (existsb (fold_eqb z) l = true) by (apply existsb_exists; exists z; split; [assumption|apply fold_eqb_refl]). congruence.
Qed.

(* members of different segments of a fold-unique list are not equal, not even up to letter case *)
Lemma fold_nodup_app_disjoint a b : fold_nodup (a ++ b) = true -> forall x y, In x a -> In y b -> fold_eqb x y = false.
Proof.
  intros H x y Hx Hy. destruct (fold_eqb x y) eqn:F; [|reflexivity]. exfalso.
  destruct (In_nth_error a x Hx) as [i Hi]. destruct (In_nth_error b y Hy) as [j Hj].
  assert (Hi' : nth_error (a ++ b) i = Some x).
  { rewrite nth_error_app1; [assumption|]. apply nth_error_Some. congruence. }
  assert (Hj' : nth_error (a ++ b) (length a + j) = Some y).
  { rewrite nth_error_app2 by lia. replace (length a + j - length a) with j by lia. assumption. }
  pose proof (fold_nodup_positions _ H _ _ _ _ Hi' Hj' F) as E.
  assert (i < length a) by (apply nth_error_Some; congruence). lia.
Qed.

Theorem fold_unique_lists T : chk_fold_unique T = true ->
  NoDup (active T ++ deprec T ++ excs T) /\
  (forall i j x y, nth_error (all_ids T) i = Some x -> nth_error (all_ids T) j = Some y -> fold_eqb x y = true -> i = j) /\
  (forall x y, In x (active T) -> In y (deprec T) -> fold_eqb x y = false) /\
  (forall x y, In x (active T) -> In y (excs T) -> fold_eqb x y = false) /\
  (forall x y, In x (deprec T) -> In y (excs T) -> fold_eqb x y = false).
Proof.
  unfold chk_fold_unique, all_ids. intros H. split; [exact (fold_nodup_NoDup _ H)|]. split; [exact (fold_nodup_positions _ H)|].
  split; [|split].
  - intros x y Hx Hy. apply (fold_nodup_app_disjoint (active T) (deprec T ++ excs T) H x y Hx). apply in_or_app. left. assumption.
  - intros x y Hx Hy. apply (fold_nodup_app_disjoint (active T) (deprec T ++ excs T) H x y Hx). apply in_or_app. right. assumption.
  - intros x y Hx Hy. rewrite app_assoc in H. apply (fold_nodup_app_disjoint (active T ++ deprec T) (excs T) H x y); [apply in_or_app; right; assumption|assumption].
Qed.
