(* The token list of a text, ignoring offsets: lexo.  Parsing depends on the text only through lexo, and lexo
   distributes over boundaries (Proofs/Split.v). *)
From Coq Require Import Lia.
From Spdx Require Import Model.Scan Model.Parse Spec.Lex Proofs.BytesFacts Proofs.ScanRef Proofs.Offsets Proofs.Split Proofs.ParseGrammar.
Local Open Scope list_scope.

Definition oks {A} (r : res A) : option A := match r with Ok x => Some x | _ => None end.

Section LexoT.
Variable T : tables.
Hypothesis HT : license_lookup T [] = None.

Definition lexo (s : str) : option (list tok) := oks (ref_tokens T s).

(* success, tokens and remaining text of one item do not depend on the offset *)
Lemma ref_item_pos spaced r pos pos' :
  match ref_item T spaced r pos, ref_item T spaced r pos' with
  | Ok (ts, r2, _), Ok (ts', r2', _) => ts = ts' /\ r2 = r2'
  | Err _, Err _ => True
  | _, _ => False
  end.
Proof.
  unfold ref_item. destruct (first_op ops r) as [[[o r'] n]|].
  - destruct o; auto. destruct spaced; auto.
  - destruct (strip_prefix k_docref r). { destruct (span is_idchar s) as [[|] ?]; auto. }
    destruct (strip_prefix k_licref r). { destruct (span is_idchar s) as [[|] ?]; auto. }
    destruct (span is_idchar r) as [[|] ?]; auto. destruct (classify T _ _); auto.
Qed.

Lemma ref_run_oks_n n : forall r, length r = n -> forall pos acc,
  oks (ref_run T r pos acc) = option_map (fun ts => rev acc ++ ts) (oks (ref_run T r 0 [])).
Proof.
  induction n as [n IHn] using lt_wf_ind. intros r Hn pos acc.
  rewrite (ref_run_unfold T HT r pos acc), (ref_run_unfold T HT r 0 []).
  destruct r as [|c r']; [simpl; rewrite app_nil_r; reflexivity|].
  destruct (span is_space (c :: r')) as [sp r1] eqn:ES. destruct (span_spec _ _ _ _ ES) as [Hsplit _].
  destruct r1 as [|c1 r1']; [simpl; rewrite app_nil_r; reflexivity|].
  pose proof (ref_item_pos (match sp with [] => false | _ => true end) (c1 :: r1') (pos + length sp) (0 + length sp)) as HP.
  destruct (ref_item T _ (c1 :: r1') (pos + length sp)) as [[[ts r2] pos2]|e| |] eqn:E1;
    destruct (ref_item T _ (c1 :: r1') (0 + length sp)) as [[[ts' r2'] pos2']|e'| |] eqn:E2; try contradiction; try reflexivity.
  destruct HP as [-> ->].
  apply (ref_item_shrinks T HT) in E1. destruct E1 as [Hs _].
  assert (Hl : length r2' < n) by (subst n; rewrite Hsplit, app_length; lia).
  rewrite (IHn _ Hl r2' eq_refl pos2 (rev ts' ++ acc)), (IHn _ Hl r2' eq_refl pos2' (rev ts' ++ [])).
  destruct (oks (ref_run T r2' 0 [])) as [ts2|]; [|reflexivity]. simpl.
  rewrite app_nil_r, rev_app_distr, rev_involutive, <- app_assoc. reflexivity.
Qed.
Lemma ref_run_oks r pos acc : oks (ref_run T r pos acc) = option_map (fun ts => rev acc ++ ts) (lexo r).
Proof. apply (ref_run_oks_n (length r)). reflexivity. Qed.

(* lexo distributes over a boundary *)
Theorem lexo_app a c b : boundary a c ->
  lexo (a ++ c :: b) = match lexo a with Some t1 => option_map (app t1) (lexo (c :: b)) | None => None end.
Proof.
  intros Hb. unfold lexo at 1 2. unfold ref_tokens. fold (ref_run T (a ++ c :: b) 0 []). fold (ref_run T a 0 []).
  rewrite (ref_run_app T HT a c b 0 [] Hb).
  destruct (ref_run T a 0 []) as [ts| | |]; try reflexivity. simpl.
  rewrite ref_run_oks. rewrite rev_involutive. reflexivity.
Qed.

(* one-byte items *)
Lemma lexo_unfold r : lexo r = oks (ref_run T r 0 []). Proof. reflexivity. Qed.
Lemma lexo_op_char c o r : first_op ops (c :: r) = Some (o, r, 1) -> o <> OPlus -> is_space c = false ->
  lexo (c :: r) = option_map (cons (TOp o)) (lexo r).
Proof.
  intros Hop Hno Hsp. rewrite lexo_unfold, (ref_run_unfold T HT). cbn [span]. rewrite Hsp.
  unfold ref_item. rewrite Hop. destruct o; try contradiction; cbn [length Nat.add];
    rewrite ref_run_oks; reflexivity.
Qed.
Lemma lexo_lp r : lexo ("("%char :: r) = option_map (cons (TOp OLp)) (lexo r).
Proof. apply lexo_op_char; [reflexivity|discriminate|reflexivity]. Qed.
Lemma lexo_rp r : lexo (")"%char :: r) = option_map (cons (TOp ORp)) (lexo r).
Proof. apply lexo_op_char; [reflexivity|discriminate|reflexivity]. Qed.
Lemma lexo_colon r : lexo (":"%char :: r) = option_map (cons (TOp OColon)) (lexo r).
Proof. apply lexo_op_char; [reflexivity|discriminate|reflexivity]. Qed.
Lemma lexo_plus r : lexo ("+"%char :: r) = option_map (cons (TOp OPlus)) (lexo r).
Proof.
  rewrite lexo_unfold, (ref_run_unfold T HT). cbn [span]. change (is_space "+") with false. cbv iota.
  unfold ref_item. change (first_op ops ("+"%char :: r)) with (Some (OPlus, r, 1)). cbv iota beta.
  rewrite ref_run_oks. reflexivity.
Qed.
Lemma lexo_nil : lexo [] = Some []. Proof. reflexivity. Qed.

(* leading spaces *)
Lemma lexo_spaces sp r : Forall (fun ch => is_space ch = true) sp -> (forall r', r <> "+"%char :: r') ->
  lexo (sp ++ r) = lexo r.
Proof.
  intros F Hnp. destruct sp as [|s0 sp']; [reflexivity|].
  rewrite !lexo_unfold, (ref_run_unfold T HT ((s0 :: sp') ++ r)), (ref_run_unfold T HT r).
  rewrite (span_spaces_app (s0 :: sp') r F). destruct (span is_space r) as [sp2 r1] eqn:ES. cbn [fst snd].
  destruct r as [|c r'].
  - simpl in ES. inversion ES; subst. simpl. reflexivity.
  - change ((s0 :: sp') ++ c :: r') with (s0 :: sp' ++ c :: r').
    destruct r1 as [|c1 r1']; [reflexivity|].
    assert (Hnp1 : sp2 = [] -> forall r'', c1 :: r1' <> "+"%char :: r'').
    { intros -> r'' E. destruct (span_spec _ _ _ _ ES) as [Hs _]. simpl in Hs. rewrite Hs in Hnp. eapply Hnp. eassumption. }
    destruct sp2 as [|s2 sp2'].
    + rewrite app_nil_r. rewrite (ref_item_spaced_irrelevant T true false (c1 :: r1') _ (Hnp1 eq_refl)).
      pose proof (ref_item_pos false (c1 :: r1') (0 + length (s0 :: sp')) (0 + length (@nil ascii))) as HP.
      destruct (ref_item T false (c1 :: r1') (0 + length (s0 :: sp'))) as [[[ts r2] pos2]|e| |];
        destruct (ref_item T false (c1 :: r1') (0 + length (@nil ascii))) as [[[ts' r2'] pos2']|e'| |]; try contradiction; try reflexivity.
      destruct HP as [-> ->]. rewrite !ref_run_oks. reflexivity.
    + replace (match (s0 :: sp') ++ s2 :: sp2' with [] => false | _ => true end) with true by reflexivity.
      pose proof (ref_item_pos true (c1 :: r1') (0 + length ((s0 :: sp') ++ s2 :: sp2')) (0 + length (s2 :: sp2'))) as HP.
      destruct (ref_item T true (c1 :: r1') (0 + length ((s0 :: sp') ++ s2 :: sp2'))) as [[[ts r2] pos2]|e| |];
        destruct (ref_item T true (c1 :: r1') (0 + length (s2 :: sp2'))) as [[[ts' r2'] pos2']|e'| |]; try contradiction; try reflexivity.
      destruct HP as [-> ->]. rewrite !ref_run_oks. reflexivity.
Qed.
Lemma lexo_all_spaces sp : Forall (fun ch => is_space ch = true) sp -> lexo sp = Some [].
Proof.
  intros F. rewrite <- (app_nil_r sp). rewrite (lexo_spaces sp [] F); [reflexivity|]. intros r' E. discriminate.
Qed.

(* parse sees the text only through lexo *)
Theorem parse_via_lexo s :
  oks (parse T s) = match s with [] => None | _ => match lexo s with Some ts => oks (p_tokens ts) | None => None end end.
Proof.
  unfold parse. destruct s as [|c s']; [reflexivity|]. rewrite (scan_refines T HT). unfold lexo.
  destruct (ref_tokens T (c :: s')); reflexivity.
Qed.
End LexoT.
