(* The parser makes at most 3 calls per token consumed, plus 3: no backtracking, no re-parsing. *)
From Coq Require Import Lia.
From Spdx Require Import Model.Ticks Spec.Grammar Proofs.ParseGrammar.
Local Open Scope list_scope.

(* erasure *)
Lemma p_t_erasure f :
  (forall ts, fst (p_expr_t f ts) = p_expr f ts) /\ (forall ts, fst (p_and_t f ts) = p_and f ts) /\ (forall ts, fst (p_atom_t f ts) = p_atom f ts).
Proof.
  induction f as [|f [IHe [IHa IHt]]]; [repeat split; reflexivity|]. repeat split; intros ts; simpl.
  - specialize (IHa ts). destruct (p_and_t f ts) as [[[l r]|e| |] k]; simpl in IHa; rewrite <- IHa; try reflexivity.
    destruct (p_op OOr r) as [[|t0 r0]|]; try reflexivity.
    specialize (IHe (t0 :: r0)). destruct (p_expr_t f (t0 :: r0)) as [[[g s]|e| |] k']; simpl in IHe; rewrite <- IHe; reflexivity.
  - specialize (IHt ts). destruct (p_atom_t f ts) as [[[l r]|e| |] k]; simpl in IHt; rewrite <- IHt; try reflexivity.
    destruct (p_op OAnd r) as [[|t0 r0]|]; try reflexivity.
    specialize (IHa (t0 :: r0)). destruct (p_and_t f (t0 :: r0)) as [[[g s]|e| |] k']; simpl in IHa; rewrite <- IHa; reflexivity.
  - destruct (p_op OLp ts) as [r|]; [|reflexivity].
    specialize (IHe r). destruct (p_expr_t f r) as [[[g s]|e| |] k]; simpl in IHe; rewrite <- IHe; reflexivity.
Qed.

(* cost: ticks <= 3 * (tokens consumed) on success, <= 3 * |ts| + 3 otherwise; with slack per level of the three functions *)
Definition consumed (ts r : list tok) : nat := length ts - length r.
Lemma p_op_len o ts r : p_op o ts = Some r -> length ts = S (length r).
Proof. intros H. apply p_op_some in H. subst. reflexivity. Qed.

Lemma p_t_cost f :
  (forall ts, match p_expr_t f ts with (Ok (_, r), k) => k + 3 * length r <= 3 * length ts /\ length r < length ts | (_, k) => k <= 3 * length ts + 3 end) /\
  (forall ts, match p_and_t f ts with (Ok (_, r), k) => S k + 3 * length r <= 3 * length ts /\ length r < length ts | (_, k) => k <= 3 * length ts + 2 end) /\
  (forall ts, match p_atom_t f ts with (Ok (_, r), k) => S (S k) + 3 * length r <= 3 * length ts /\ length r < length ts | (_, k) => k <= 3 * length ts + 1 end).
Proof.
  induction f as [|f [IHe [IHa IHt]]]; [repeat split; intros; simpl; lia|].
  repeat split; intros ts; simpl.
  - specialize (IHa ts). destruct (p_and_t f ts) as [[[l r]|e| |] k]; try lia.
    destruct IHa as [Hk Hl]. destruct (p_op OOr r) as [r'|] eqn:EO; [|split; lia].
    apply p_op_len in EO. destruct r' as [|t0 r0]; [lia|].
    specialize (IHe (t0 :: r0)). destruct (p_expr_t f (t0 :: r0)) as [[[g s]|e| |] k']; simpl in *; try lia.
  - specialize (IHt ts). destruct (p_atom_t f ts) as [[[l r]|e| |] k]; try lia.
    destruct IHt as [Hk Hl]. destruct (p_op OAnd r) as [r'|] eqn:EO; [|split; lia].
    apply p_op_len in EO. destruct r' as [|t0 r0]; [lia|].
    specialize (IHa (t0 :: r0)). destruct (p_and_t f (t0 :: r0)) as [[[g s]|e| |] k']; simpl in *; try lia.
  - destruct (p_op OLp ts) as [r|] eqn:EL.
    + apply p_op_len in EL. specialize (IHe r). destruct (p_expr_t f r) as [[[g s]|e| |] k]; try lia.
      destruct IHe as [Hk Hl]. destruct (p_op ORp s) as [s'|] eqn:ER; [apply p_op_len in ER; split; lia|lia].
    + destruct (p_ref ts) as [[[n r]|]|e| |] eqn:ER.
      * apply p_ref_sound in ER. destruct ER as [pre [-> D]]. destruct d_nonempty as [Nt _]. apply Nt in D.
        rewrite app_length. destruct pre; [contradiction|simpl; split; lia].
      * destruct (p_lic ts) as [[[n r]|]|e| |] eqn:EC; try lia.
        apply p_lic_sound in EC. destruct EC as [pre [-> D]]. destruct d_nonempty as [Nt _]. apply Nt in D.
        rewrite app_length. destruct pre; [contradiction|simpl; split; lia].
      * lia.
      * lia.
      * lia.
Qed.

(* the parser, as run by parseTokens, makes at most 3 * |tokens| + 3 calls *)
Theorem parser_calls_linear ts :
  fst (p_expr_t (3 * length ts + 3) ts) = p_expr (3 * length ts + 3) ts /\ snd (p_expr_t (3 * length ts + 3) ts) <= 3 * length ts + 3.
Proof.
  split; [apply p_t_erasure|]. destruct (p_t_cost (3 * length ts + 3)) as [H _]. specialize (H ts).
  destruct (p_expr_t (3 * length ts + 3) ts) as [[[n r]|e| |] k]; simpl; lia.
Qed.
