(* Tokens, results, and the table lookups of spdxexp/license.go + the decision part of
   scan.go:normalizeLicense.  Shared by the model of the scanner and by the reference tokeniser
   of Spec/Lex.v (they share nothing else). *)
From Spdx Require Export Model.Tables.
Local Open Scope list_scope.

Inductive op := OWith | OAnd | OOr | OLp | ORp | OColon | OPlus.
(* token{role,value}: operatorToken / documentRefToken / licenseRefToken / licenseToken / exceptionToken *)
Inductive tok := TOp (o : op) | TDoc (s : str) | TRef (s : str) | TLic (s : str) | TExc (s : str).

(* error values; texts are not modelled except the offset-bearing ones *)
Inductive err :=
| EUnknownLicense (lexeme : str) (off : nat)   (* "unknown license '%s' at offset %d" *)
| EExpectedId (off : nat)                      (* "expected id at offset %d" *)
| ESpaceBeforePlus                             (* "unexpected space before +" *)
| EEmptyString                                 (* parse: "cannot parse empty string" *)
| ESyntax                                      (* every error raised by parse.go on a token list *)
| EEmptyAllowed                                (* Satisfies: empty allowed list *)
| ECompoundAllowed.                            (* Satisfies: expression in the allowed list *)

(* result of a Go call: value, error value, run-time panic, or (model only) fuel exhausted *)
Inductive res (A : Type) := Ok (a : A) | Err (e : err) | Panic | Fuel.
Arguments Ok {A}. Arguments Err {A}. Arguments Panic {A}. Arguments Fuel {A}.

Definition op_eqb (a b : op) : bool :=
  match a, b with
  | OWith, OWith | OAnd, OAnd | OOr, OOr | OLp, OLp | ORp, ORp | OColon, OColon | OPlus, OPlus => true
  | _, _ => false
  end.

(* readOperator: possibilities, in this order *)
Definition ops : list (str * op) :=
  [(s2l "WITH", OWith); (s2l "AND", OAnd); (s2l "OR", OOr); (s2l "(", OLp); (s2l ")", ORp);
   (s2l ":", OColon); (s2l "+", OPlus)].

(* inLicenseList: first entry EqualFold to id; returns the list's spelling *)
Definition in_list (l : list str) (id : str) : option str := find (fun x => fold_eqb x id) l.
(* licenseLookup: active list, then exception list *)
Definition license_lookup (T : tables) (id : str) : option tok :=
  match in_list (active T) id with
  | Some p => Some (TLic p)
  | None => match in_list (excs T) id with Some p => Some (TExc p) | None => None end
  end.
Definition deprecated_lookup (T : tables) (id : str) : option tok :=
  match in_list (deprec T) id with Some p => Some (TLic p) | None => None end.

(* normalizeLicense, decision only.  w is the id word just read, next_plus says whether the byte
   after it is '+'.
     NTok t      : emit t
     NEatPlus t  : emit t and consume the '+'          (X+  with X-or-later listed)
     NThenPlus t : emit t, then a '+' operator token    (X-or-later with X listed, X-or-later not)
     NUnknown    : unknown license *)
Inductive norm := NTok (t : tok) | NEatPlus (t : tok) | NThenPlus (t : tok) | NUnknown.
Definition classify (T : tables) (w : str) (next_plus : bool) : norm :=
  match license_lookup T w with
  | Some t => NTok t
  | None =>
    match (match strip_suffix k_only w with Some adj => license_lookup T adj | None => None end) with
    | Some t => NTok t
    | None =>
      match (if next_plus then license_lookup T (w ++ k_orlater) else None) with
      | Some t => NEatPlus t
      | None =>
        match (match strip_suffix k_orlater w with Some adj => license_lookup T adj | None => None end) with
        | Some t => NThenPlus t
        | None => match deprecated_lookup T w with Some t => NTok t | None => NUnknown end
        end
      end
    end
  end.
Definition next_is_plus (r : str) : bool := match r with c :: _ => Ascii.eqb c "+" | [] => false end.
