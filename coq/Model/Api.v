(* Model of the exported functions: spdxexp/satisfies.go (ValidateLicenses, Satisfies, stringsToNodes,
   isCompatible, satisfiedBy, sortAndDedup), extracts.go (ExtractLicenses, leaves), helpers.go
   (removeDuplicateStrings), node.go (sortLicenses). *)
From Spdx Require Export Model.Match.
Local Open Scope list_scope.

(* ValidateLicenses: (valid, invalidLicenses) *)
Fixpoint validate_licenses (T : tables) (l : list str) : res (bool * list str) :=
  match l with
  | [] => Ok (true, [])
  | s :: l' =>
      match parse T s with
      | Panic => Panic
      | Fuel => Fuel
      | r => match validate_licenses T l' with
             | Ok (v, bad) => match r with Ok _ => Ok (v, bad) | _ => Ok (false, s :: bad) end
             | e => e
             end
      end
  end.

(* stringsToNodes *)
Fixpoint strings_to_nodes (T : tables) (l : list str) : res (list node) :=
  match l with
  | [] => Ok []
  | s :: l' =>
      match parse T s with
      | Ok n => if is_leaf n then
                  match strings_to_nodes T l' with Ok ns => Ok (n :: ns) | e => e end
                else Err ECompoundAllowed
      | Err e => Err e | Panic => Panic | Fuel => Fuel
      end
  end.

(* sortLicenses on nodes paired with their reconstructedLicenseString: sort.Slice with
   less(i,j) = key i < key j.  (sort.Slice is not stable; Proofs/Canon.v shows equal keys are equal
   nodes on parser output, so the sorted value list is determined.) *)
Fixpoint insert_keyed (x : str * node) (l : list (str * node)) : list (str * node) :=
  match l with
  | [] => [x]
  | y :: l' => if str_ltb (fst y) (fst x) then y :: insert_keyed x l' else x :: l
  end.
Fixpoint sort_keyed (l : list (str * node)) : list (str * node) :=
  match l with [] => [] | x :: l' => insert_keyed x (sort_keyed l') end.

(* the compaction loop of sortAndDedup, which overwrites nodes[prev] in place:
     positions < prev hold the first node of every run of equal keys,
     positions >= prev keep what the sort left there. *)
Fixpoint dedup_adj (prev : str) (l : list (str * node)) : list (str * node) :=
  match l with
  | [] => []
  | x :: l' => if str_eqb prev (fst x) then dedup_adj (fst x) l' else x :: dedup_adj (fst x) l'
  end.
Definition compact (s : list (str * node)) : list (str * node) :=
  match s with
  | [] => []
  | x :: s' => let d := x :: dedup_adj (fst x) s' in d ++ skipn (length d) s
  end.
Fixpoint keyed (l : list node) : option (list (str * node)) :=
  match l with
  | [] => Some []
  | n :: l' => match canon n, keyed l' with
               | Some k, Some r => Some ((k, n) :: r)
               | _, _ => None
               end
  end.
(* the state of the allowedNodes slice after sortAndDedup(allowedNodes) (its return value is discarded) *)
Definition sort_and_dedup (l : list node) : res (list node) :=
  match l with
  | [] | [_] => Ok l
  | _ => match keyed l with
         | Some kl => Ok (map snd (compact (sort_keyed kl)))
         | None => Panic       (* *nodes[i].reconstructedLicenseString() on an expression node *)
         end
  end.

(* node.satisfiedBy(allowed); the leaf case is isCompatible([]*node{n}, allowed) *)
Fixpoint satisfied_by (T : tables) (n : node) (A : list node) : bool :=
  match n with
  | NOr a b => if satisfied_by T a A then true else satisfied_by T b A
  | NAnd a b => if satisfied_by T a A then satisfied_by T b A else false
  | _ => existsb (compatible T n) A
  end.

(* Satisfies *)
Definition satisfies (T : tables) (e : str) (A : list str) : res bool :=
  match parse T e with
  | Ok t =>
      match A with
      | [] => Err EEmptyAllowed
      | _ => match strings_to_nodes T A with
             | Ok N => match sort_and_dedup N with
                       | Ok N' => Ok (satisfied_by T t N')
                       | Err e => Err e | Panic => Panic | Fuel => Fuel
                       end
             | Err e => Err e | Panic => Panic | Fuel => Fuel
             end
      end
  | Err e => Err e | Panic => Panic | Fuel => Fuel
  end.

(* node.leaves(result) *)
Fixpoint leaves (n : node) (acc : list node) : list node :=
  match n with
  | NAnd a b | NOr a b => leaves b (leaves a acc)
  | _ => acc ++ [n]
  end.
(* removeDuplicateStrings: keeps first occurrences, in order *)
Fixpoint remove_dups (seen : list str) (l : list str) : list str :=
  match l with
  | [] => []
  | x :: l' => if existsb (str_eqb x) seen then remove_dups seen l' else x :: remove_dups (x :: seen) l'
  end.
Fixpoint canon_all (l : list node) : option (list str) :=
  match l with
  | [] => Some []
  | n :: l' => match canon n, canon_all l' with Some k, Some r => Some (k :: r) | _, _ => None end
  end.
(* ExtractLicenses *)
Definition extract_licenses (T : tables) (e : str) : res (list str) :=
  match parse T e with
  | Ok t => match canon_all (leaves t []) with
            | Some ks => Ok (remove_dups [] ks)
            | None => Panic
            end
  | Err e => Err e | Panic => Panic | Fuel => Fuel
  end.
