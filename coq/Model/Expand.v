(* Model of node.expand / expandOr / expandOrTerm / expandAnd / expandAndTerm / appendTerms / mergeTerms
   (spdxexp/satisfies.go).  These functions are no longer reachable from the exported API (Satisfies evaluates the
   tree, ExtractLicenses walks it) but stay in the package with their unit tests; they are tied through the guarded
   hook spdxexp/verif_hooks.go (build tag verif).  Value semantics: after the repair of appendTerms no slice is shared
   between alternatives.  deepSort only permutes; the tie compares alternatives as sorted lists of sorted lists. *)
From Spdx Require Export Model.Api.
Local Open Scope list_scope.

(* expandAndTerm / expandOrTerm applied to a child are, in each of their three cases, the expansion of the child *)
Fixpoint expand (t : node) : list (list node) :=
  match t with
  | NOr a b => expand a ++ expand b                                       (* expandOr *)
  | NAnd a b =>                                                           (* expandAnd *)
      (* appendTerms: for r in right { for l in left { l ++ r } } ; mergeTerms is the case of singletons *)
      flat_map (fun r => map (fun l => l ++ r) (expand a)) (expand b)
  | leaf => [[leaf]]
  end.
