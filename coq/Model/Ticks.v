(* Cost model of the evaluator (the part of Satisfies / ExtractLicenses whose cost depended on the shape of
   the expression): the same definitions as Model/Api.v, returning in addition the number of calls to the
   single-term matcher / the number of nodes visited. *)
From Coq Require Import NArith.
From Spdx Require Export Model.Api.
Local Open Scope list_scope.

(* existsb (compatible T n) A, counting matcher calls (isCompatible stops at the first match) *)
Fixpoint exists_compat_t (T : tables) (n : node) (A : list node) : bool * nat :=
  match A with
  | [] => (false, 0)
  | a :: A' => if compatible T n a then (true, 1) else let (b, k) := exists_compat_t T n A' in (b, S k)
  end.
Fixpoint satisfied_by_t (T : tables) (n : node) (A : list node) : bool * nat :=
  match n with
  | NOr a b => let (x, k) := satisfied_by_t T a A in
               if x then (true, S k) else let (y, k') := satisfied_by_t T b A in (y, S (k + k'))
  | NAnd a b => let (x, k) := satisfied_by_t T a A in
                if x then let (y, k') := satisfied_by_t T b A in (y, S (k + k')) else (false, S k)
  | _ => exists_compat_t T n A
  end.
(* leaves, counting appends *)
Fixpoint leaves_t (n : node) (acc : list node) : list node * nat :=
  match n with
  | NAnd a b | NOr a b => let (l1, k1) := leaves_t a acc in let (l2, k2) := leaves_t b l1 in (l2, S (k1 + k2))
  | _ => (acc ++ [n], 1)
  end.
Fixpoint tree_size (n : node) : nat :=
  match n with NAnd a b | NOr a b => S (tree_size a + tree_size b) | _ => 1 end.
Fixpoint leaf_count (n : node) : nat :=
  match n with NAnd a b | NOr a b => leaf_count a + leaf_count b | _ => 1 end.

(* ---- the recursive-descent parser, counting calls (one tick per call of parseExpression / parseAnd / parseAtom) ---- *)
Fixpoint p_expr_t (f : nat) (ts : list tok) {struct f} : res (node * list tok) * nat :=
  match f with
  | 0 => (Fuel, 0)
  | S f' =>
      match p_and_t f' ts with
      | (Ok (lft, r), k) =>
          match p_op OOr r with
          | None => (Ok (lft, r), S k)
          | Some r' =>
              match r' with
              | [] => (Err ESyntax, S k)
              | _ => match p_expr_t f' r' with
                     | (Ok (rgt, r''), k') => (Ok (NOr lft rgt, r''), S (k + k'))
                     | (e, k') => (e, S (k + k'))
                     end
              end
          end
      | (e, k) => (e, S k)
      end
  end
with p_and_t (f : nat) (ts : list tok) {struct f} : res (node * list tok) * nat :=
  match f with
  | 0 => (Fuel, 0)
  | S f' =>
      match p_atom_t f' ts with
      | (Ok (lft, r), k) =>
          match p_op OAnd r with
          | None => (Ok (lft, r), S k)
          | Some r' =>
              match r' with
              | [] => (Err ESyntax, S k)
              | _ => match p_and_t f' r' with
                     | (Ok (rgt, r''), k') => (Ok (NAnd lft rgt, r''), S (k + k'))
                     | (e, k') => (e, S (k + k'))
                     end
              end
          end
      | (e, k) => (e, S k)
      end
  end
with p_atom_t (f : nat) (ts : list tok) {struct f} : res (node * list tok) * nat :=
  match f with
  | 0 => (Fuel, 0)
  | S f' =>
      match p_op OLp ts with
      | Some r =>
          match p_expr_t f' r with
          | (Ok (e, r'), k) => (match p_op ORp r' with Some r'' => Ok (e, r'') | None => Err ESyntax end, S k)
          | (e, k) => (e, S k)
          end
      | None =>
          (match p_ref ts with
           | Ok (Some x) => Ok x
           | Ok None =>
               match p_lic ts with
               | Ok (Some x) => Ok x
               | Ok None => Err ESyntax
               | Err e => Err e | Panic => Panic | Fuel => Fuel
               end
           | Err e => Err e | Panic => Panic | Fuel => Fuel
           end, 1)
      end
  end.
