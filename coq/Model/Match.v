(* Model of spdxexp/node.go (comparators), compare.go and license.go:getLicenseRange. *)
From Spdx Require Export Model.Parse.
Local Open Scope list_scope.

Definition is_leaf (n : node) : bool := match n with NLic _ _ _ | NRef _ _ => true | _ => false end.

(* reconstructedLicenseString: nil (None) for an expression node *)
Definition canon (n : node) : option str :=
  match n with
  | NLic l plus exc =>
      Some (l ++ (if plus then ["+"%char] else []) ++ (match exc with Some e => k_with ++ e | None => [] end))
  | NRef doc ref =>
      Some ((match doc with Some d => k_docref ++ d ++ [":"%char] | None => [] end) ++ k_licref ++ ref)
  | _ => None
  end.

(* simplifyLicense *)
Definition simplify (id : str) : str :=
  match strip_suffix k_orlater id with Some b => b | None => id end.

(* getLicenseRange: (licenseGroup, versionGroup) of the FIRST position whose entry == simplified id *)
Fixpoint find_group (x : str) (row : list (list str)) (j : nat) : option nat :=
  match row with
  | [] => None
  | g :: row' => if existsb (str_eqb x) g then Some j else find_group x row' (S j)
  end.
Fixpoint find_row (x : str) (rows : list (list (list str))) (i : nat) : option (nat * nat) :=
  match rows with
  | [] => None
  | row :: rows' => match find_group x row 0 with
                    | Some j => Some (i, j)
                    | None => find_row x rows' (S i)
                    end
  end.
Definition license_range (T : tables) (id : str) : option (nat * nat) := find_row (simplify id) (rngs T) 0.

(* sameLicenseGroup *)
Definition same_group (a b : option (nat * nat)) : bool :=
  match a, b with Some (i, _), Some (i', _) => Nat.eqb i i' | _, _ => false end.
(* compareGT / compareEQ on license ids *)
Definition compare_gt (T : tables) (l1 l2 : str) : bool :=
  match license_range T l1, license_range T l2 with
  | Some (i, j), Some (i', j') => if Nat.eqb i i' then Nat.ltb j' j else false
  | _, _ => false
  end.
Definition compare_eq (T : tables) (l1 l2 : str) : bool :=
  if str_eqb l1 l2 then true else
  match license_range T l1, license_range T l2 with
  | Some (i, j), Some (i', j') => if Nat.eqb i i' then Nat.eqb j j' else false
  | _, _ => false
  end.
(* identifierInRange(simple, plus) *)
Definition in_range (T : tables) (simple plus : str) : bool :=
  if compare_gt T simple plus then true else compare_eq T simple plus.

Definition opt_str_eqb (a b : option str) : bool :=
  match a, b with
  | None, None => true
  | Some x, Some y => str_eqb x y
  | _, _ => false
  end.
Definition canon_str (n : node) : str := match canon n with Some s => s | None => [] end.

(* licensesAreCompatible *)
Definition licenses_compatible (T : tables) (a b : node) : bool :=
  match a, b with
  | NLic l1 p1 e1, NLic l2 p2 e2 =>
      if negb (opt_str_eqb e1 e2) then false                     (* exceptionsAreCompatible *)
      else if fold_eqb (canon_str a) (canon_str b) then true       (* licensesExactlyEqual *)
      else if p2 then
             if p1 then same_group (license_range T l1) (license_range T l2)   (* rangesAreCompatible *)
             else in_range T l1 l2
           else if p1 then in_range T l2 l1
                else compare_eq T l1 l2                            (* rangesEqual *)
  | _, _ => false
  end.
(* licenseRefsAreCompatible *)
Definition refs_compatible (a b : node) : bool :=
  match a, b with
  | NRef d1 r1, NRef d2 r2 => if str_eqb r1 r2 then opt_str_eqb d1 d2 else false
  | _, _ => false
  end.
Definition compatible (T : tables) (a b : node) : bool :=
  if licenses_compatible T a b then true else refs_compatible a b.
