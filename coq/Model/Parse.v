(* Model of spdxexp/parse.go as a function from token lists to trees / errors, written as a recursive descent over the
   token list.  (Since the repair of D-k - fatal stack overflow on ~2 million nested parentheses - parse.go keeps the
   parenthesis levels on an explicit stack instead of recursing.  That loop is transcribed in Model/ParseStack.v and
   proved to compute exactly the function below, for token lists of any length and nesting (Proofs/ParseStack.v:
   stack_equals_recursive); the recursive form is kept here because every downstream lemma unfolds it.  The fuel
   3*|tokens|+3 is proved sufficient, so nesting depth is not a parameter of the model at all.)
   tokenStream{tokens,index} is the list of remaining tokens; peek() = head; a nil result of peek()
   is the [] case of each match (the Go code tests token == nil before reading token.role).
   parseExpression / parseAnd / parseAtom are mutually recursive on fuel; 3*|tokens|+3 is sufficient
   (Proofs/ParseGrammar.v). *)
From Spdx Require Export Model.Scan.
Local Open Scope list_scope.

(* node: licenseNode{license,hasPlus,hasException,exception} / licenseRefNode{hasDocumentRef,documentRef,licenseRef}
   / expressionNode{left,conjunction,right} with conjunction "and" / "or" *)
Inductive node :=
| NLic (l : str) (plus : bool) (exc : option str)
| NRef (doc : option str) (ref : str)
| NAnd (a b : node)
| NOr (a b : node).

(* strings.HasSuffix(token.value, "-or-later") *)
Definition ends_orlater (l : str) : bool :=
  match strip_suffix k_orlater l with Some _ => true | None => false end.

(* parseOperator(o): Some rest when the next token is that operator *)
Definition p_op (o : op) (ts : list tok) : option (list tok) :=
  match ts with
  | TOp o' :: r => if op_eqb o o' then Some r else None
  | _ => None
  end.

(* parseLicenseRef.  Ok None = not a reference (not an error) *)
Definition p_ref (ts : list tok) : res (option (node * list tok)) :=
  match ts with
  | TDoc d :: r =>
      match p_op OColon r with
      | None => Err ESyntax                       (* expected ':' after 'DocumentRef-...' *)
      | Some r' => match r' with
                   | TRef x :: r'' => Ok (Some (NRef (Some d) x, r''))
                   | _ => Err ESyntax             (* expected 'LicenseRef-...' after 'DocumentRef-...' *)
                   end
      end
  | TRef x :: r => Ok (Some (NRef None x, r))
  | _ => Ok None
  end.

(* parseLicense (+ parseWith) *)
Definition p_lic (ts : list tok) : res (option (node * list tok)) :=
  match ts with
  | TLic l :: r =>
      let (plus, r1) := match p_op OPlus r with Some r1 => (true, r1) | None => (ends_orlater l, r) end in
      match p_op OWith r1 with
      | None => Ok (Some (NLic l plus None, r1))
      | Some r2 => match r2 with
                   | TExc e :: r3 => Ok (Some (NLic l plus (Some e), r3))
                   | _ => Err ESyntax             (* expected exception after 'WITH' *)
                   end
      end
  | _ => Ok None
  end.

Fixpoint p_expr (f : nat) (ts : list tok) {struct f} : res (node * list tok) :=
  match f with
  | 0 => Fuel
  | S f' =>
      match p_and f' ts with
      | Ok (lft, r) =>
          match p_op OOr r with
          | None => Ok (lft, r)
          | Some r' =>
              match r' with
              | [] => Err ESyntax                 (* expected expression following OR *)
              | _ => match p_expr f' r' with
                     | Ok (rgt, r'') => Ok (NOr lft rgt, r'')
                     | e => e
                     end
              end
          end
      | e => e
      end
  end
with p_and (f : nat) (ts : list tok) {struct f} : res (node * list tok) :=
  match f with
  | 0 => Fuel
  | S f' =>
      match p_atom f' ts with
      | Ok (lft, r) =>
          match p_op OAnd r with
          | None => Ok (lft, r)
          | Some r' =>
              match r' with
              | [] => Err ESyntax                 (* expected expression following AND *)
              | _ => match p_and f' r' with
                     | Ok (rgt, r'') => Ok (NAnd lft rgt, r'')
                     | e => e
                     end
              end
          end
      | e => e
      end
  end
with p_atom (f : nat) (ts : list tok) {struct f} : res (node * list tok) :=
  match f with
  | 0 => Fuel
  | S f' =>
      match p_op OLp ts with
      | Some r =>
          match p_expr f' r with
          | Ok (e, r') => match p_op ORp r' with Some r'' => Ok (e, r'') | None => Err ESyntax end
          | e => e
          end
      | None =>
          match p_ref ts with
          | Ok (Some x) => Ok x
          | Ok None =>
              match p_lic ts with
              | Ok (Some x) => Ok x
              | Ok None => Err ESyntax            (* no atom found *)
              | Err e => Err e | Panic => Panic | Fuel => Fuel
              end
          | Err e => Err e | Panic => Panic | Fuel => Fuel
          end
      end
  end.

(* parseTokens *)
Definition p_tokens (ts : list tok) : res node :=
  match ts with
  | [] => Err ESyntax                             (* no tokens to parse *)
  | _ => match p_expr (3 * length ts + 3) ts with
         | Ok (n, []) => Ok n
         | Ok (_, _ :: _) => Err ESyntax          (* trailing tokens *)
         | Err e => Err e | Panic => Panic | Fuel => Fuel
         end
  end.

(* parse(source) *)
Definition parse (T : tables) (s : str) : res node :=
  match s with
  | [] => Err EEmptyString
  | _ => match scan T s with
         | Ok ts => p_tokens ts
         | Err e => Err e | Panic => Panic | Fuel => Fuel
         end
  end.
