(* The four tables of spdxexp/spdxlicenses, as a value.  The concrete value shipped by /repo is
   regenerated into Gen/Tables.v by the translator on every run. *)
From Spdx Require Export Model.Bytes.

Record tables := {
  active : list str;               (* GetLicenses()   *)
  deprec : list str;               (* GetDeprecated() *)
  excs   : list str;               (* GetExceptions() *)
  rngs   : list (list (list str))  (* LicenseRanges(): families > version groups > ids *)
}.

Definition mk_tables (a d e : list string) (r : list (list (list string))) : tables :=
  {| active := map s2l a; deprec := map s2l d; excs := map s2l e; rngs := map (map (map s2l)) r |}.
