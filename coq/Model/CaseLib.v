(* Comparison functions for the kernel re-evaluation of a sample of the tie (bin/check writes a Cases.v that applies
   them to the inputs the extracted model was run on and to the answers it gave; Coq evaluates them with vm_compute).
   This cross-checks extraction and the OCaml driver, which are otherwise trusted.  Definitions only. *)
From Spdx Require Export Model.Api.
Local Open Scope list_scope.

Definition B (l : list nat) : str := map ascii_of_nat l.
Fixpoint strs_eqb (a b : list str) : bool :=
  match a, b with
  | [], [] => true
  | x :: a', y :: b' => if str_eqb x y then strs_eqb a' b' else false
  | _, _ => false
  end.

(* expected answers, as the driver prints them *)
Inductive xv := XV1 | XV0.                                   (* V: valid / invalid *)
Inductive xs := XST | XSF | XSE.                             (* S: true / false / error *)
Inductive xo := XOk (l : list str) | XOE.                    (* O: list in order / error *)
Inductive xl := XL (v : bool) (bad : list str).              (* L *)
Inductive xr := XRok | XRunk (off : nat) (w : str) | XReid (off : nat) | XRother.   (* R, Q *)

Definition chk_v (T : tables) (e : str) (x : xv) : bool :=
  match parse T e, x with Ok _, XV1 => true | Err _, XV0 => true | _, _ => false end.
Definition chk_s (T : tables) (e : str) (A : list str) (x : xs) : bool :=
  match satisfies T e A, x with Ok true, XST => true | Ok false, XSF => true | Err _, XSE => true | _, _ => false end.
Definition chk_o (T : tables) (e : str) (x : xo) : bool :=
  match extract_licenses T e, x with Ok l, XOk l' => strs_eqb l l' | Err _, XOE => true | _, _ => false end.
Definition chk_l (T : tables) (l : list str) (x : xl) : bool :=
  match validate_licenses T l, x with Ok (v, bad), XL v' bad' => if Bool.eqb v v' then strs_eqb bad bad' else false | _, _ => false end.
Definition err_is (e : err) (x : xr) : bool :=
  match e, x with
  | EUnknownLicense w o, XRunk o' w' => if Nat.eqb o o' then str_eqb w w' else false
  | EExpectedId o, XReid o' => Nat.eqb o o'
  | EUnknownLicense _ _, _ | EExpectedId _, _ => false
  | _, XRother => true
  | _, _ => false
  end.
Definition chk_r (T : tables) (e : str) (x : xr) : bool :=
  match parse T e, x with Ok _, XRok => true | Err er, _ => err_is er x | _, _ => false end.
Definition chk_q (T : tables) (e : str) (A : list str) (x : xr) : bool :=
  match satisfies T e A, x with Ok _, XRok => true | Err er, _ => err_is er x | _, _ => false end.

(* indices of the cases that do not evaluate to true *)
Fixpoint failing (i : nat) (l : list bool) : list nat :=
  match l with [] => [] | b :: r => if b then failing (S i) r else i :: failing (S i) r end.
