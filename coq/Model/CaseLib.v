(* Comparison functions for the kernel re-evaluation of a sample of the tie (bin/check writes a Cases.v that applies
   them to the inputs the extracted model was run on and to the answers it gave; Coq evaluates them with vm_compute).
   This cross-checks extraction and the OCaml driver, which are otherwise trusted.  Definitions only. *)
From Spdx Require Export Model.Api Model.ParseStack.
Local Open Scope list_scope.

Definition B (l : list nat) : str := map ascii_of_nat l.
Fixpoint strs_eqb (a b : list str) : bool :=
  match a, b with
  | [], [] => true
  | x :: a', y :: b' => if str_eqb x y then strs_eqb a' b' else false
  | _, _ => false
  end.

(* expected answers, as the driver prints them *)
Inductive xv := XV1 | XV0.                                   (* V: valid / invalid *)
Inductive xs := XST | XSF | XSE.                             (* S: true / false / error *)
Inductive xo := XOk (l : list str) | XOE.                    (* O: list in order / error *)
Inductive xl := XL (v : bool) (bad : list str).              (* L *)
Inductive xr := XRok | XRunk (off : nat) (w : str) | XReid (off : nat) | XRother.   (* R, Q *)

Definition chk_v (T : tables) (e : str) (x : xv) : bool :=
  match parse T e, x with Ok _, XV1 => true | Err _, XV0 => true | _, _ => false end.
Definition chk_s (T : tables) (e : str) (A : list str) (x : xs) : bool :=
  match satisfies T e A, x with Ok true, XST => true | Ok false, XSF => true | Err _, XSE => true | _, _ => false end.
Definition chk_o (T : tables) (e : str) (x : xo) : bool :=
  match extract_licenses T e, x with Ok l, XOk l' => strs_eqb l l' | Err _, XOE => true | _, _ => false end.
Definition chk_l (T : tables) (l : list str) (x : xl) : bool :=
  match validate_licenses T l, x with Ok (v, bad), XL v' bad' => if Bool.eqb v v' then strs_eqb bad bad' else false | _, _ => false end.
Definition err_is (e : err) (x : xr) : bool :=
  match e, x with
  | EUnknownLicense w o, XRunk o' w' => if Nat.eqb o o' then str_eqb w w' else false
  | EExpectedId o, XReid o' => Nat.eqb o o'
  | EUnknownLicense _ _, _ | EExpectedId _, _ => false
  | _, XRother => true
  | _, _ => false
  end.
Definition chk_r (T : tables) (e : str) (x : xr) : bool :=
  match parse T e, x with Ok _, XRok => true | Err er, _ => err_is er x | _, _ => false end.
Definition chk_q (T : tables) (e : str) (A : list str) (x : xr) : bool :=
  match satisfies T e A, x with Ok _, XRok => true | Err er, _ => err_is er x | _, _ => false end.

(* P (auxiliary stage line): the tree in the notation of node.string(), as the driver prints it; None = error.  The
   answer must be that of the parser as written (Model/ParseStack.v) AND of the recursive model *)
Fixpoint show_node (t : node) : str :=
  match t with
  | NAnd a b => s2l "{ LEFT: " ++ show_node a ++ s2l " and RIGHT: " ++ show_node b ++ s2l " }"
  | NOr a b => s2l "{ LEFT: " ++ show_node a ++ s2l " or RIGHT: " ++ show_node b ++ s2l " }"
  | NLic l p x => l ++ (if p then s2l "+" else []) ++ (match x with Some y => s2l " with " ++ y | None => [] end)
  | NRef d r => (match d with Some y => s2l "DocumentRef-" ++ y ++ s2l ":" | None => [] end) ++ s2l "LicenseRef-" ++ r
  end.
Definition chk_p (T : tables) (e : str) (x : option str) : bool :=
  let as_written :=
    match e with
    | [] => None
    | _ => match scan T e with
           | Ok ts => match ps_tokens ts with Ok t => Some (show_node t) | _ => None end
           | _ => None
           end
    end in
  let recursive := match parse T e with Ok t => Some (show_node t) | _ => None end in
  match as_written, recursive, x with
  | Some a, Some b, Some c => if str_eqb a b then str_eqb a c else false
  | None, None, None => true
  | _, _, _ => false
  end.

(* T (auxiliary stage line): the tokens of scan() as the driver prints them - role letter and value; None = error *)
Inductive role := RO | RD | RR | RL | RE.
Definition role_eqb (a b : role) : bool :=
  match a, b with RO, RO | RD, RD | RR, RR | RL, RL | RE, RE => true | _, _ => false end.
Definition op_text (o : op) : str :=
  match o with
  | OWith => s2l "WITH" | OAnd => s2l "AND" | OOr => s2l "OR" | OLp => s2l "(" | ORp => s2l ")" | OColon => s2l ":" | OPlus => s2l "+"
  end.
Definition tok_view (t : tok) : role * str :=
  match t with TOp o => (RO, op_text o) | TDoc x => (RD, x) | TRef x => (RR, x) | TLic x => (RL, x) | TExc x => (RE, x) end.
Fixpoint views_eqb (a b : list (role * str)) : bool :=
  match a, b with
  | [], [] => true
  | (r, x) :: a', (r', y) :: b' => if role_eqb r r' then if str_eqb x y then views_eqb a' b' else false else false
  | _, _ => false
  end.
Definition chk_t (T : tables) (e : str) (x : option (list (role * str))) : bool :=
  match scan T e, x with
  | Ok ts, Some v => views_eqb (map tok_view ts) v
  | Err _, None => true
  | _, _ => false
  end.

(* indices of the cases that do not evaluate to true *)
Fixpoint failing (i : nat) (l : list bool) : list nat :=
  match l with [] => [] | b :: r => if b then failing (S i) r else i :: failing (S i) r end.
