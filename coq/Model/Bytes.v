(* Byte strings and the byte-level operations the Go package applies to them.
   Go strings are byte strings; every operation of spdxexp on them is byte-wise.
   Definitions only (no proofs in Model/). *)
From Coq Require Export String Ascii List Bool Arith.
Export ListNotations.
Local Open Scope list_scope.

Definition str := list ascii.
Definition s2l (s : string) : str := list_ascii_of_string s.
Definition l2s (s : str) : string := string_of_list_ascii s.

(* 'A'..'Z' = 0x41..0x5A : bits 7..5 = 010, low five bits 1..26 *)
Definition low5 (b0 b1 b2 b3 b4 : bool) : nat :=
  (if b0 then 1 else 0) + (if b1 then 2 else 0) + (if b2 then 4 else 0)
  + (if b3 then 8 else 0) + (if b4 then 16 else 0).
Definition is_upper (a : ascii) : bool :=
  match a with
  | Ascii b0 b1 b2 b3 b4 false true false =>
      let n := low5 b0 b1 b2 b3 b4 in if Nat.leb 1 n then Nat.leb n 26 else false
  | _ => false
  end.
Definition is_lower (a : ascii) : bool :=
  match a with
  | Ascii b0 b1 b2 b3 b4 true true false =>
      let n := low5 b0 b1 b2 b3 b4 in if Nat.leb 1 n then Nat.leb n 26 else false
  | _ => false
  end.
(* '0'..'9' = 0x30..0x39 *)
Definition is_digit (a : ascii) : bool :=
  match a with
  | Ascii b0 b1 b2 b3 true true false false => Nat.leb (low5 b0 b1 b2 b3 false) 9
  | _ => false
  end.
(* ASCII case folding, as strings.EqualFold does on ASCII letters *)
Definition lower (a : ascii) : ascii :=
  if is_upper a then match a with Ascii b0 b1 b2 b3 b4 _ b6 b7 => Ascii b0 b1 b2 b3 b4 true b6 b7 end else a.
Definition upper (a : ascii) : ascii :=
  if is_lower a then match a with Ascii b0 b1 b2 b3 b4 _ b6 b7 => Ascii b0 b1 b2 b3 b4 false b6 b7 end else a.
(* the class [A-Za-z0-9-.] of readID *)
Definition is_idchar (a : ascii) : bool :=
  if is_upper a then true else if is_lower a then true else if is_digit a then true
  else if Ascii.eqb a "-" then true else Ascii.eqb a ".".
(* the class [ ] of skipWhitespace *)
Definition is_space (a : ascii) : bool := Ascii.eqb a " ".
(* 7-bit *)
Definition is_ascii7 (a : ascii) : bool := match a with Ascii _ _ _ _ _ _ _ b7 => negb b7 end.

(* == on strings *)
Fixpoint str_eqb (a b : str) : bool :=
  match a, b with
  | [], [] => true
  | x :: a', y :: b' => if Ascii.eqb x y then str_eqb a' b' else false
  | _, _ => false
  end.
(* strings.EqualFold, restricted to what it does on ASCII text *)
Fixpoint fold_eqb (a b : str) : bool :=
  match a, b with
  | [], [] => true
  | x :: a', y :: b' => if Ascii.eqb (lower x) (lower y) then fold_eqb a' b' else false
  | _, _ => false
  end.
(* a < b on strings (bytewise lexicographic, as Go's string <) *)
Definition byte_ltb (x y : ascii) : bool := Nat.ltb (nat_of_ascii x) (nat_of_ascii y).
Fixpoint str_ltb (a b : str) : bool :=
  match a, b with
  | [], [] => false
  | [], _ :: _ => true
  | _ :: _, [] => false
  | x :: a', y :: b' => if Ascii.eqb x y then str_ltb a' b' else byte_ltb x y
  end.
(* strings.HasPrefix: Some rest when p is a prefix *)
Fixpoint strip_prefix (p s : str) : option str :=
  match p, s with
  | [], _ => Some s
  | x :: p', y :: s' => if Ascii.eqb x y then strip_prefix p' s' else None
  | _ :: _, [] => None
  end.
(* list reversal in linear time (List.rev is quadratic when run); Proofs/BytesFacts.v: frev l = rev l *)
Definition frev {A : Type} (l : list A) : list A := rev_append l [].
(* strings.HasSuffix + the slice that removes it *)
Definition strip_suffix (sfx s : str) : option str :=
  match strip_prefix (frev sfx) (frev s) with Some r => Some (frev r) | None => None end.
(* longest prefix in a character class (regexp "[class]*" anchored at 0) *)
Fixpoint span (p : ascii -> bool) (s : str) : str * str :=
  match s with
  | [] => ([], [])
  | x :: s' => if p x then let (a, b) := span p s' in (x :: a, b) else ([], s)
  end.

Definition k_only := s2l "-only".
Definition k_orlater := s2l "-or-later".
Definition k_docref := s2l "DocumentRef-".
Definition k_licref := s2l "LicenseRef-".
Definition k_with := s2l " WITH ".
