(* Model of spdxexp/scan.go.
   expressionStream{expression,index,removed} is a zipper:
     expression = rev zb ++ zr,  index = length zb,  removed = zshift.
   Every Go slice/index expression that can fail at run time is a partial operation whose failing
   branch is [Panic]. *)
From Spdx Require Export Model.Tokens.
Local Open Scope list_scope.

Record zs := { zb : str (* bytes before the cursor, reversed *); zr : str (* from the cursor on *); zshift : nat }.
(* the offset reported in messages: exp.index + exp.removed *)
Definition zoff (z : zs) : nat := length (zb z) + zshift z.

(* exp.read(next) *)
Definition zread (next : str) (z : zs) : option zs :=
  match strip_prefix next (zr z) with
  | Some r => Some {| zb := rev_append next (zb z); zr := r; zshift := zshift z |}
  | None => None
  end.
(* exp.readRegex("[class]*" / "[class]+"): matched text (possibly empty) *)
Definition zclass (p : ascii -> bool) (z : zs) : str * zs :=
  let (m, r) := span p (zr z) in (m, {| zb := rev_append m (zb z); zr := r; zshift := zshift z |}).

Fixpoint zread_first (l : list (str * op)) (z : zs) : option (op * zs) :=
  match l with
  | [] => None
  | (p, o) :: l' => match zread p z with Some z' => Some (o, z') | None => zread_first l' z end
  end.
(* readOperator.  None: no operator here.  The look-behind
     op == "+" && exp.index > 1 && exp.expression[exp.index-2:exp.index-1] == " "
   reads the byte before the '+' just consumed. *)
Definition zoperator (z : zs) : option (err + (tok * zs)) :=
  match zread_first ops z with
  | None => None
  | Some (o, z') =>
      match o with
      | OPlus => match zb z' with
                 | _ :: c :: _ => if is_space c then Some (inl ESpaceBeforePlus) else Some (inr (TOp o, z'))
                 | _ => Some (inr (TOp o, z'))
                 end
      | _ => Some (inr (TOp o, z'))
      end
  end.
(* readID *)
Definition zid (z : zs) : err + (str * zs) :=
  let (id, z') := zclass is_idchar z in
  match id with [] => inl (EExpectedId (zoff z)) | _ => inr (id, z') end.

(* normalizeLicense: z is the stream after the id word w was read *)
Definition znormalize (T : tables) (w : str) (z : zs) : res (option (tok * zs)) :=
  match classify T w (next_is_plus (zr z)) with
  | NTok t => Ok (Some (t, z))
  | NEatPlus t =>
      (* exp.index++ *)
      match zr z with
      | c :: r => Ok (Some (t, {| zb := c :: zb z; zr := r; zshift := zshift z |}))
      | [] => Panic
      end
  | NThenPlus t =>
      (* newExpression := expression[0:index-9] + "+" (+ expression[index:]); index -= 9; removed += 8 *)
      if Nat.ltb (length (zb z)) 9 then Panic
      else Ok (Some (t, {| zb := skipn 9 (zb z); zr := "+"%char :: zr z; zshift := zshift z + 8 |}))
  | NUnknown => Ok None
  end.

(* parseToken: operator, DocumentRef-, LicenseRef-, license/exception id *)
Definition ztoken (T : tables) (z : zs) : res (tok * zs) :=
  match zoperator z with
  | Some (inl e) => Err e
  | Some (inr tz) => Ok tz
  | None =>
    match zread k_docref z with
    | Some z1 => match zid z1 with inl e => Err e | inr (id, z2) => Ok (TDoc id, z2) end
    | None =>
      match zread k_licref z with
      | Some z1 => match zid z1 with inl e => Err e | inr (id, z2) => Ok (TRef id, z2) end
      | None =>
        match zid z with
        | inl e => Err e
        | inr (id, z1) =>
            match znormalize T id z1 with
            | Ok (Some tz) => Ok tz
            | Ok None => Err (EUnknownLicense id (zoff z))
            | Err e => Err e | Panic => Panic | Fuel => Fuel
            end
        end
      end
    end
  end.

(* the loop of scan(); one unit of fuel per iteration *)
Fixpoint zscan (T : tables) (fuel : nat) (z : zs) (acc : list tok) : res (list tok) :=
  match fuel with
  | 0 => Fuel
  | S f =>
      match zr z with
      | [] => Ok (frev acc)
      | _ =>
        let (_, z1) := zclass is_space z in
        match zr z1 with
        | [] => Ok (frev acc)
        | _ => match ztoken T z1 with
               | Ok (t, z2) => zscan T f z2 (t :: acc)
               | Err e => Err e | Panic => Panic | Fuel => Fuel
               end
        end
      end
  end.
Definition scan (T : tables) (s : str) : res (list tok) :=
  zscan T (S (length s)) {| zb := []; zr := s; zshift := 0 |} [].
