(* Cost twin of Model/ParseStack.v (the parser as written): the same machine, returning also a count of the work done -
   one tick per phase step (one iteration of the inner loops of parseExpression), one per append to a group, and, for
   joinOperands, one per operand of the chain being joined (its loop) - closeTerms costs |terms| + 1 (join + append),
   node() costs closeTerms + |alternatives| + 1.  Proofs/ParseStackCost.v: erasure, and ticks <= 5 * |tokens| + 3. *)
From Spdx Require Export Model.ParseStack.
Local Open Scope list_scope.

Notation RT := (res (node * list tok) * nat)%type.
Definition close_cost (g : group) : nat := length (terms g) + 1.
Definition node_cost (g : group) : nat := close_cost g + (length (alts g) + 1).
Definition tick (n : nat) (x : RT) : RT := (fst x, n + snd x).

Definition A_body_t (rA rB : list group -> group -> list tok -> RT) (enc : list group) (cur : group) (ts : list tok) : RT :=
  match p_op OLp ts with
  | Some r => tick 1 (rA (cur :: enc) g0 r)
  | None =>
      match ps_atom ts with
      | Ok (a, r) => tick 2 (rB enc (add_term cur a) r)
      | Err e => (Err e, 1) | Panic => (Panic, 1) | Fuel => (Fuel, 1)
      end
  end.
Definition B_body_t (rA rB : list group -> group -> list tok -> RT) (enc : list group) (cur : group) (ts : list tok) : RT :=
  match ts with
  | [] =>
      match enc with
      | _ :: _ => (Err ESyntax, 1)
      | [] => (match group_node cur with
               | Ok n => Ok (n, [])
               | Err e => Err e | Panic => Panic | Fuel => Fuel
               end, 1 + node_cost cur)
      end
  | _ =>
      match p_op OAnd ts with
      | Some r => match r with
                  | [] => (Err ESyntax, 1)
                  | _ => tick 1 (rA enc cur r)
                  end
      | None =>
          match p_op OOr ts with
          | Some r =>
              match close_terms cur with
              | Ok cur' => match r with
                           | [] => (Err ESyntax, 1 + close_cost cur)
                           | _ => tick (1 + close_cost cur) (rA enc cur' r)
                           end
              | Err e => (Err e, 1 + close_cost cur) | Panic => (Panic, 1 + close_cost cur) | Fuel => (Fuel, 1 + close_cost cur)
              end
          | None =>
              match enc with
              | [] => (match group_node cur with
                       | Ok n => Ok (n, ts)
                       | Err e => Err e | Panic => Panic | Fuel => Fuel
                       end, 1 + node_cost cur)
              | top :: enc' =>
                  match p_op ORp ts with
                  | Some r =>
                      match group_node cur with
                      | Ok inner => tick (1 + node_cost cur + 1) (rB enc' (add_term top inner) r)
                      | Err e => (Err e, 1 + node_cost cur) | Panic => (Panic, 1 + node_cost cur) | Fuel => (Fuel, 1 + node_cost cur)
                      end
                  | None => (Err ESyntax, 1)
                  end
              end
          end
      end
  end.

Fixpoint runA_t (f : nat) (enc : list group) (cur : group) (ts : list tok) {struct f} : RT :=
  match f with
  | 0 => (Fuel, 0)
  | S f' => A_body_t (runA_t f') (runB_t f') enc cur ts
  end
with runB_t (f : nat) (enc : list group) (cur : group) (ts : list tok) {struct f} : RT :=
  match f with
  | 0 => (Fuel, 0)
  | S f' => B_body_t (runA_t f') (runB_t f') enc cur ts
  end.
