(* Model of the generator cmd/license.go + cmd/exceptions.go: from the (id, isDeprecated) pairs of the two
   SPDX JSON files (decoded by encoding/json, outside the model) to the id partition and to the bytes of
   get_licenses.go / get_deprecated.go / get_exceptions.go. *)
From Spdx Require Export Model.Bytes.
Local Open Scope list_scope.
Local Open Scope string_scope.

Definition nl : string := String (ascii_of_nat 10) EmptyString.
Definition tab : string := String (ascii_of_nat 9) EmptyString.
Definition dq : string := String (ascii_of_nat 34) EmptyString.

(* activeLicenseIDs / deprecatedLicenseIDs / exceptionLicenseIDs *)
Definition gen_active (j : list (string * bool)) : list string := map fst (filter (fun p => negb (snd p)) j).
Definition gen_deprecated (j : list (string * bool)) : list string := map fst (filter (fun p => snd p) j).
Definition gen_exceptions (j : list (string * bool)) : list string := map fst (filter (fun p => negb (snd p)) j).

(* file layout: header ++ (pre ++ id ++ post for each id) ++ footer.  The four strings are observed by the
   translator (it runs cmd/ on 0, 1 and 2 ids) and regenerated into Gen/Template.v *)
Definition template := (string * string * string * string)%type.
Definition gen_file (tpl : template) (ids : list string) : string :=
  let '(h, pre, post, f) := tpl in
  h ++ String.concat "" (map (fun id => pre ++ id ++ post) ids) ++ f.

Definition gen_licenses_file (tpl : template) (j : list (string * bool)) : string := gen_file tpl (gen_active j).
Definition gen_deprecated_file (tpl : template) (j : list (string * bool)) : string := gen_file tpl (gen_deprecated j).
Definition gen_exceptions_file (tpl : template) (j : list (string * bool)) : string := gen_file tpl (gen_exceptions j).
