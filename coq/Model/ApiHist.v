(* Histories of API calls.  run gives, for one call, its result and the argument values as the call leaves
   them; exec runs a history.  The model functions read their arguments and build fresh values (the node slice
   that sortAndDedup permutes is the one stringsToNodes allocated), so this file has no state to thread. *)
From Spdx Require Export Model.Api.
Local Open Scope list_scope.

Inductive call :=
| CValidate (l : list str)
| CSatisfies (e : str) (A : list str)
| CExtract (e : str).
Inductive result :=
| RValidate (r : res (bool * list str))
| RSatisfies (r : res bool)
| RExtract (r : res (list str)).

Definition run (T : tables) (c : call) : result * call :=
  match c with
  | CValidate l => (RValidate (validate_licenses T l), CValidate l)
  | CSatisfies e A => (RSatisfies (satisfies T e A), CSatisfies e A)
  | CExtract e => (RExtract (extract_licenses T e), CExtract e)
  end.
Definition exec (T : tables) (h : list call) : list (result * call) := map (run T) h.
