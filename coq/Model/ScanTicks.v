(* Cost of the one super-linear step of scan.go: when an id X-or-later is rewritten to X+, normalizeLicense builds a
   NEW expression string (newExpression := expression[0:index-9] + "+" + expression[index:]), i.e. copies the whole
   buffer.  rebuild_cost follows the control path of ztoken / znormalize (Model/Scan.v) and returns the number of bytes
   of the rebuilt buffer (0 when no rewrite happens); zscan_ticks adds 1 per loop iteration.  Every other step of one
   iteration reads the bytes of one lexeme once and scans the id tables a bounded number of times (five lookups), which is
   linear in the text for fixed tables and is measured, not modelled.  Proofs/ScanCost.v: the buffer never grows, and
   zscan_ticks <= (|text|+1)^2. *)
From Spdx Require Export Model.Scan.
Local Open Scope list_scope.

Definition blen (z : zs) : nat := length (zb z) + length (zr z).

Definition znorm_cost (T : tables) (w : str) (z : zs) : nat :=
  match classify T w (next_is_plus (zr z)) with
  | NThenPlus _ => if Nat.ltb (length (zb z)) 9 then 0 else S (length (skipn 9 (zb z)) + length (zr z))
  | _ => 0
  end.
Definition rebuild_cost (T : tables) (z : zs) : nat :=
  match zoperator z with
  | Some _ => 0
  | None =>
    match zread k_docref z with
    | Some _ => 0
    | None =>
      match zread k_licref z with
      | Some _ => 0
      | None => match zid z with inl _ => 0 | inr (id, z1) => znorm_cost T id z1 end
      end
    end
  end.

Fixpoint zscan_ticks (T : tables) (fuel : nat) (z : zs) : nat :=
  match fuel with
  | 0 => 0
  | S f =>
      match zr z with
      | [] => 1
      | _ =>
        let (_, z1) := zclass is_space z in
        match zr z1 with
        | [] => 1
        | _ => match ztoken T z1 with
               | Ok (_, z2) => 1 + rebuild_cost T z1 + zscan_ticks T f z2
               | _ => 1 + rebuild_cost T z1
               end
        end
      end
  end.
