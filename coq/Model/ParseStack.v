(* Model of parseExpression of spdxexp/parse.go AS IT IS WRITTEN since the repair of D-k: no recursion per parenthesis
   level; the levels are kept on an explicit stack of operand groups.

     type operandGroup struct { alternatives []*node; terms []*node }
     closeTerms():  alternatives = append(alternatives, joinOperands("and", terms)); terms = terms[:0]
     node():        closeTerms(); return joinOperands("or", alternatives)
     joinOperands:  joined := operands[len(operands)-1]      <- index expression: run-time panic on an empty slice
                    for i := len-2 .. 0 { joined = {left: operands[i], right: joined} }

   The loop of parseExpression alternates between two phases:
     A  an operand is expected:   any number of "(" (push the current group, start an empty one), then parseAtom
     B  an operator is expected:  end of tokens / AND / OR (closeTerms) / ")" (pop: the group's node becomes a term of
                                  the enclosing group) / at depth 0 anything else is left to the caller
   Every partial Go operation is a Panic branch here (join_ops on an empty list; the pop is guarded by len(enclosing)
   in the code and by the match on enc here).  parseAtom = parseLicenseRef, then parseLicense: p_ref / p_lic of
   Model/Parse.v are used unchanged.  Proofs/ParseStack.v shows that this machine never reaches Panic, never runs out of
   its fuel (|tokens|+1 phase steps) and computes exactly p_tokens of Model/Parse.v, i.e. the grammar. *)
From Spdx Require Export Model.Parse.
Local Open Scope list_scope.

(* joinOperands once len(operands) > 0: right-leaning chain *)
Fixpoint join_right (mk : node -> node -> node) (x : node) (xs : list node) : node :=
  match xs with
  | [] => x
  | y :: ys => mk x (join_right mk y ys)
  end.
Definition join_ops (mk : node -> node -> node) (l : list node) : res node :=
  match l with
  | [] => Panic                                   (* operands[len(operands)-1] with len(operands) = 0 *)
  | x :: xs => Ok (join_right mk x xs)
  end.

Record group := G { alts : list node; terms : list node }.
Definition g0 : group := G [] [].
Definition add_term (g : group) (n : node) : group := G (alts g) (terms g ++ [n]).
Definition close_terms (g : group) : res group :=
  match join_ops NAnd (terms g) with
  | Ok n => Ok (G (alts g ++ [n]) [])
  | Err e => Err e | Panic => Panic | Fuel => Fuel
  end.
Definition group_node (g : group) : res node :=
  match close_terms g with
  | Ok g' => join_ops NOr (alts g')
  | Err e => Err e | Panic => Panic | Fuel => Fuel
  end.

(* parseAtom *)
Definition ps_atom (ts : list tok) : res (node * list tok) :=
  match p_ref ts with
  | Ok (Some x) => Ok x
  | Ok None =>
      match p_lic ts with
      | Ok (Some x) => Ok x
      | Ok None => Err ESyntax                    (* no atom found *)
      | Err e => Err e | Panic => Panic | Fuel => Fuel
      end
  | Err e => Err e | Panic => Panic | Fuel => Fuel
  end.

Fixpoint runA (f : nat) (enc : list group) (cur : group) (ts : list tok) {struct f} : res (node * list tok) :=
  match f with
  | 0 => Fuel
  | S f' =>
      match p_op OLp ts with
      | Some r => runA f' (cur :: enc) g0 r        (* enclosing = append(enclosing, current); current = operandGroup{} *)
      | None =>
          match ps_atom ts with
          | Ok (a, r) => runB f' enc (add_term cur a) r
          | Err e => Err e | Panic => Panic | Fuel => Fuel
          end
      end
  end
with runB (f : nat) (enc : list group) (cur : group) (ts : list tok) {struct f} : res (node * list tok) :=
  match f with
  | 0 => Fuel
  | S f' =>
      match ts with
      | [] =>                                      (* !t.hasMore() *)
          match enc with
          | _ :: _ => Err ESyntax                  (* open parenthesis does not have a matching close parenthesis *)
          | [] => match group_node cur with
                  | Ok n => Ok (n, [])
                  | Err e => Err e | Panic => Panic | Fuel => Fuel
                  end
          end
      | _ =>
          match p_op OAnd ts with
          | Some r => match r with
                      | [] => Err ESyntax          (* expected expression following AND *)
                      | _ => runA f' enc cur r
                      end
          | None =>
              match p_op OOr ts with
              | Some r =>
                  match close_terms cur with
                  | Ok cur' => match r with
                               | [] => Err ESyntax (* expected expression following OR *)
                               | _ => runA f' enc cur' r
                               end
                  | Err e => Err e | Panic => Panic | Fuel => Fuel
                  end
              | None =>
                  match enc with
                  | [] => match group_node cur with (* leave what follows to the caller *)
                          | Ok n => Ok (n, ts)
                          | Err e => Err e | Panic => Panic | Fuel => Fuel
                          end
                  | top :: enc' =>
                      match p_op ORp ts with
                      | Some r =>
                          match group_node cur with
                          | Ok inner => runB f' enc' (add_term top inner) r
                          | Err e => Err e | Panic => Panic | Fuel => Fuel
                          end
                      | None => Err ESyntax        (* open parenthesis does not have a matching close parenthesis *)
                      end
                  end
              end
          end
      end
  end.

(* parseTokens over the stack machine *)
Definition ps_tokens (ts : list tok) : res node :=
  match ts with
  | [] => Err ESyntax
  | _ => match runA (S (length ts)) [] g0 ts with
         | Ok (n, []) => Ok n
         | Ok (_, _ :: _) => Err ESyntax
         | Err e => Err e | Panic => Panic | Fuel => Fuel
         end
  end.
