(* Boolean well-formedness checkers on the tables.  Each general theorem names the checkers it needs as
   hypotheses [chk T = true]; WF/*.v discharges them for the regenerated shipped tables by vm_compute. *)
From Spdx Require Export Model.Api.
Local Open Scope list_scope.

Definition all_ids (T : tables) : list str := active T ++ deprec T ++ excs T.
Definition lic_ids (T : tables) : list str := active T ++ deprec T.

(* every active / exception id is a non-empty word over [A-Za-z0-9-.]; a deprecated id may in addition
   end in '+' (GPL-2.0+): such an id is never returned by a lookup, because id words contain no '+' *)
Definition is_word (w : str) : bool := match w with [] => false | _ => forallb is_idchar w end.
Definition is_word_plus (w : str) : bool :=
  if is_word w then true else match strip_suffix ["+"%char] w with Some b => is_word b | None => false end.
Definition chk_words (T : tables) : bool :=
  if forallb is_word (active T) then if forallb is_word (excs T) then forallb is_word_plus (deprec T) else false else false.

(* fold_prefix kw id: id starts with something EqualFold to kw *)
Fixpoint fold_prefix (p s : str) : bool :=
  match p, s with
  | [], _ => true
  | x :: p', y :: s' => if Ascii.eqb (lower x) (lower y) then fold_prefix p' s' else false
  | _ :: _, [] => false
  end.
Definition keywords : list str := [s2l "AND"; s2l "OR"; s2l "WITH"; k_licref; k_docref].
(* no listed id starts with (a case variant of) an operator keyword or a Ref prefix: the operator-first
   tokeniser would split it *)
Definition chk_no_keyword_prefix (T : tables) : bool :=
  forallb (fun id => forallb (fun kw => negb (fold_prefix kw id)) keywords) (all_ids T).

(* pairwise disjoint, no two ids equal up to letter case *)
Fixpoint fold_nodup (l : list str) : bool :=
  match l with
  | [] => true
  | x :: l' => if existsb (fold_eqb x) l' then false else fold_nodup l'
  end.
Definition chk_fold_unique (T : tables) : bool := fold_nodup (all_ids T).
