(* Finite checkers for the lexical units of C08 / C09 on the shipped lists. *)
From Spdx Require Export Model.Api Spec.Lex Spec.WF Spec.Spellings.
Local Open Scope list_scope.

Definition tok_eqb (a b : tok) : bool :=
  match a, b with
  | TOp x, TOp y => op_eqb x y
  | TDoc x, TDoc y | TRef x, TRef y | TLic x, TLic y | TExc x, TExc y => str_eqb x y
  | _, _ => false
  end.
Fixpoint toks_eqb (a b : list tok) : bool :=
  match a, b with
  | [], [] => true
  | x :: a', y :: b' => if tok_eqb x y then toks_eqb a' b' else false
  | _, _ => false
  end.
Definition lex_of (T : tables) (s : str) : option (list tok) := match ref_tokens T s with Ok ts => Some ts | _ => None end.
Definition olex_eqb (a b : option (list tok)) : bool :=
  match a, b with Some x, Some y => toks_eqb x y | None, None => true | _, _ => false end.
Definition valid_b (T : tables) (s : str) : bool := match parse T s with Ok _ => true | _ => false end.

(* for every listed license id X: whenever X+ and X-or-later are both valid they are the same token sequence;
   whenever X and X-only are both valid and X-only is not itself listed, likewise *)
Definition chk_unit_tokens (T : tables) : bool :=
  forallb (fun x =>
    if is_word x then
      (if valid_b T (x ++ plus) then if valid_b T (x ++ k_orlater) then olex_eqb (lex_of T (x ++ plus)) (lex_of T (x ++ k_orlater)) else true else true)
      && (if valid_b T x then if valid_b T (x ++ k_only) then
            if existsb (fold_eqb (x ++ k_only)) (lic_ids T) then true else olex_eqb (lex_of T x) (lex_of T (x ++ k_only)) else true else true)
    else true) (lic_ids T).

(* ---- C09: what the tables must satisfy for letter case to be immaterial in every context ---- *)
Definition fold_strip_suffix (S X : str) : option str :=
  let n := length S in let m := length X in
  if Nat.leb n m then if fold_eqb (skipn (m - n) X) S then Some (firstn (m - n) X) else None else None.
Definition is_none {A} (o : option A) : bool := match o with None => true | Some _ => false end.
Definition chk_case_safe (T : tables) : bool :=
  forallb (fun X =>
    if fold_eqb X (s2l "LicenseRef") then false else if fold_eqb X (s2l "DocumentRef") then false else
    if is_none (license_lookup T X) then
      forallb (fun S => match fold_strip_suffix S X with Some Y => is_none (license_lookup T Y) | None => true end) [k_only; k_orlater]
    else true) (all_ids T).

(* ---- C08 for listed -only ids: X and X-only are different ids at the same table position ---- *)
Definition pos_eqb (a b : option (nat * nat)) : bool :=
  match a, b with Some (i, j), Some (i', j') => if Nat.eqb i i' then Nat.eqb j j' else false | _, _ => false end.
Definition chk_only_pairs (T : tables) : bool :=
  forallb (fun x =>
    if is_word x then
      if existsb (str_eqb (x ++ k_only)) (lic_ids T) then
        if ends_orlater x then false else
        if pos_eqb (find_row x (rngs T) 0) (find_row (x ++ k_only) (rngs T) 0) then
          if olex_eqb (lex_of T x) (Some [TLic x]) then olex_eqb (lex_of T (x ++ k_only)) (Some [TLic (x ++ k_only)]) else false
        else false
      else true
    else true) (lic_ids T).

(* C06 round trip: no deprecated id ends in "-or-later" (so a deprecated node gets its '+' only from a '+' token) *)
Definition chk_deprec_no_orlater (T : tables) : bool := forallb (fun d => negb (ends_orlater d)) (deprec T).
