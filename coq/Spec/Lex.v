(* Reference tokeniser: what the text of an SPDX expression means as a token sequence.
   No buffer, no rewriting, no look-behind: it walks the caller's string once, left to right, and its
   position counter is by construction the number of bytes of that string consumed so far.
     - spaces separate items (space is the only white space);
     - operator keywords first: WITH AND OR ( ) : +   (a '+' right after skipped spaces is an error);
     - DocumentRef-<id word>, LicenseRef-<id word>;
     - otherwise a maximal id word [A-Za-z0-9-.]+ normalised by the documented rules (classify):
         listed id -> itself;  X-only (X listed) -> X;  X+ with X-or-later listed -> X-or-later;
         X-or-later (X listed, X-or-later not) -> X then '+';  deprecated id -> itself.
   It shares with the model of scan.go only the table lookups / classify of Model/Tokens.v. *)
From Spdx Require Export Model.Tokens.
Local Open Scope list_scope.

Fixpoint first_op (l : list (str * op)) (r : str) : option (op * str * nat) :=
  match l with
  | [] => None
  | (p, o) :: l' => match strip_prefix p r with Some r' => Some (o, r', length p) | None => first_op l' r end
  end.

(* one lexical item starting at r (no leading space) at offset pos; spaced = a space precedes it.
   Result: tokens, remaining text, offset after the item. *)
Definition ref_item (T : tables) (spaced : bool) (r : str) (pos : nat) : res (list tok * str * nat) :=
  match first_op ops r with
  | Some (o, r', n) =>
      match o with
      | OPlus => if spaced then Err ESpaceBeforePlus else Ok ([TOp o], r', pos + n)
      | _ => Ok ([TOp o], r', pos + n)
      end
  | None =>
    match strip_prefix k_docref r with
    | Some r1 => let (id, r2) := span is_idchar r1 in
                 match id with [] => Err (EExpectedId (pos + length k_docref))
                             | _ => Ok ([TDoc id], r2, pos + length k_docref + length id) end
    | None =>
      match strip_prefix k_licref r with
      | Some r1 => let (id, r2) := span is_idchar r1 in
                   match id with [] => Err (EExpectedId (pos + length k_licref))
                               | _ => Ok ([TRef id], r2, pos + length k_licref + length id) end
      | None =>
        let (w, r1) := span is_idchar r in
        match w with
        | [] => Err (EExpectedId pos)
        | _ =>
          match classify T w (next_is_plus r1) with
          | NTok t => Ok ([t], r1, pos + length w)
          | NEatPlus t => Ok ([t], tl r1, pos + length w + 1)
          | NThenPlus t => Ok ([t; TOp OPlus], r1, pos + length w)
          | NUnknown => Err (EUnknownLicense w pos)
          end
        end
      end
    end
  end.

Fixpoint ref_scan (T : tables) (fuel : nat) (r : str) (pos : nat) (acc : list tok) : res (list tok) :=
  match fuel with
  | 0 => Fuel
  | S f =>
      match r with
      | [] => Ok (rev acc)
      | _ =>
        let (sp, r1) := span is_space r in
        match r1 with
        | [] => Ok (rev acc)
        | _ => match ref_item T (match sp with [] => false | _ => true end) r1 (pos + length sp) with
               | Ok (ts, r2, pos2) => ref_scan T f r2 pos2 (rev ts ++ acc)
               | Err e => Err e | Panic => Panic | Fuel => Fuel
               end
        end
      end
  end.
(* every item consumes at least one byte, so |s|+1 steps always suffice (Proofs/ScanRef.v: ref_tokens_total) *)
Definition ref_tokens (T : tables) (s : str) : res (list tok) := ref_scan T (S (length s)) s 0 [].
