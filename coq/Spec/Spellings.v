(* C08 / C09 over the shipped lists, as finite checkers (the lists are finite: a vm_compute over all ids is a proof
   for the shipped tables; the unbounded parts - arbitrary contexts - are in Proofs/). *)
From Spdx Require Export Model.Api Spec.WF.
Local Open Scope list_scope.

Definition node_eqb_opt (a b : res node) : bool :=
  match a, b with
  | Ok (NLic l1 p1 e1), Ok (NLic l2 p2 e2) => if str_eqb l1 l2 then if Bool.eqb p1 p2 then opt_str_eqb e1 e2 else false else false
  | _, _ => false
  end.
Definition plus := ["+"%char].

(* for every id X on the active list: X, X-only, X+, X-or-later are all valid; X+ and X-or-later denote the same
   node; X and X-only denote nodes the matcher cannot tell apart (checked against every table entry and itself) *)
Definition same_matches (T : tables) (a b : node) : bool :=
  forallb (fun y => let c := NLic y false None in let d := NLic y true None in
                    if Bool.eqb (compatible T a c) (compatible T b c) then
                      if Bool.eqb (compatible T c a) (compatible T c b) then
                        if Bool.eqb (compatible T a d) (compatible T b d) then Bool.eqb (compatible T d a) (compatible T d b) else false
                      else false
                    else false)
          (concat (concat (rngs T))).
Definition chk_active_spellings (T : tables) : bool :=
  forallb (fun x =>
    match parse T x, parse T (x ++ k_only), parse T (x ++ plus), parse T (x ++ k_orlater) with
    | Ok n, Ok n_only, Ok n_plus, Ok n_orlater =>
        if node_eqb_opt (Ok n_plus) (Ok n_orlater) then
          if node_eqb_opt (Ok n) (Ok n_only) then true else same_matches T n n_only
        else false
    | _, _, _, _ => false
    end) (active T).

(* deprecated ids: whenever both spellings of a pair are valid they behave alike *)
Definition chk_deprecated_spellings (T : tables) : bool :=
  forallb (fun x =>
    if is_word x then
      (match parse T (x ++ plus), parse T (x ++ k_orlater) with
       | Ok a, Ok b => node_eqb_opt (Ok a) (Ok b)
       | _, _ => true end) &&
      (match parse T x, parse T (x ++ k_only) with
       | Ok a, Ok b => if node_eqb_opt (Ok a) (Ok b) then true else same_matches T a b
       | _, _ => true end)
    else true) (deprec T).

(* C09 over the lists: lower / upper casing of every listed id parses to the node of the list-cased id;
   exceptions after WITH likewise *)
Definition lower_str (s : str) := map lower s.
Definition upper_str (s : str) := map upper s.
Definition res_node_eqb (a b : res node) : bool :=
  match a, b with
  | Ok x, Ok y => (fix eq (x y : node) : bool :=
                     match x, y with
                     | NLic l1 p1 e1, NLic l2 p2 e2 => if str_eqb l1 l2 then if Bool.eqb p1 p2 then opt_str_eqb e1 e2 else false else false
                     | NRef d1 r1, NRef d2 r2 => if str_eqb r1 r2 then opt_str_eqb d1 d2 else false
                     | NAnd a1 b1, NAnd a2 b2 | NOr a1 b1, NOr a2 b2 => if eq a1 a2 then eq b1 b2 else false
                     | _, _ => false
                     end) x y
  | Err _, Err _ => true
  | _, _ => false
  end.
Definition chk_case_ids (T : tables) : bool :=
  forallb (fun x => if is_word x then
                      if res_node_eqb (parse T (lower_str x)) (parse T x) then res_node_eqb (parse T (upper_str x)) (parse T x) else false
                    else true) (active T ++ deprec T)
  && forallb (fun e => let p := s2l "MIT WITH " in
                       if res_node_eqb (parse T (p ++ lower_str e)) (parse T (p ++ e)) then res_node_eqb (parse T (p ++ upper_str e)) (parse T (p ++ e)) else false)
             (excs T).
