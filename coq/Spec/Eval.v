(* Boolean meaning of an expression tree: AND needs both operands, OR needs either; a leaf is true
   iff the assignment says so.  dnf gives the alternatives (OR of ANDs) of the same function. *)
From Spdx Require Export Model.Parse.
Local Open Scope list_scope.

Fixpoint eval (v : node -> bool) (t : node) : bool :=
  match t with
  | NAnd a b => eval v a && eval v b
  | NOr a b => eval v a || eval v b
  | leaf => v leaf
  end.

(* every alternative is a list of required terms *)
Fixpoint dnf (t : node) : list (list node) :=
  match t with
  | NAnd a b => flat_map (fun x => map (fun y => x ++ y) (dnf b)) (dnf a)
  | NOr a b => dnf a ++ dnf b
  | leaf => [[leaf]]
  end.

Fixpoint tree_leaves (t : node) : list node :=
  match t with
  | NAnd a b | NOr a b => tree_leaves a ++ tree_leaves b
  | leaf => [leaf]
  end.
