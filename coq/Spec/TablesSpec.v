(* What C12 asks of the shipped tables, as boolean checkers over
     the lists the code returns (Gen.Tables), the JSON id lists (Gen.SpdxJson), the committed files (Gen.Files). *)
From Spdx Require Export Model.GenFiles Model.Api Spec.WF.
Local Open Scope list_scope.

Fixpoint list_string_eqb (a b : list string) : bool :=
  match a, b with
  | [], [] => true
  | x :: a', y :: b' => if String.eqb x y then list_string_eqb a' b' else false
  | _, _ => false
  end.

(* the id lists are exactly the partition of the JSON, in file order *)
Definition chk_json_partition (lic dep exc : list string) (jl je : list (string * bool)) : bool :=
  if list_string_eqb lic (gen_active jl) then
    if list_string_eqb dep (gen_deprecated jl) then list_string_eqb exc (gen_exceptions je) else false
  else false.
(* re-running the generator reproduces the committed files byte for byte *)
Definition chk_files_regenerate (tl td te : template) (f_lic f_dep f_exc : string) (jl je : list (string * bool)) : bool :=
  if String.eqb (gen_licenses_file tl jl) f_lic then
    if String.eqb (gen_deprecated_file td jl) f_dep then String.eqb (gen_exceptions_file te je) f_exc else false
  else false.

(* every listed license id is accepted as a one-term expression (and denotes a license node);
   every exception id is accepted after WITH and not on its own *)
Definition is_lic_node (r : res node) : bool := match r with Ok (NLic _ _ _) => true | _ => false end.
Definition is_ok {A} (r : res A) : bool := match r with Ok _ => true | _ => false end.
Definition chk_ids_parse (T : tables) : bool :=
  if forallb (fun id => is_lic_node (parse T id)) (active T ++ deprec T) then
    forallb (fun e => if is_ok (parse T (s2l "MIT WITH " ++ e)) then negb (is_ok (parse T e)) else false) (excs T)
  else false.
