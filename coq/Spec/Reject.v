(* The named rejection classes of the property text, as a decidable shape test on token sequences:
     - the first token starts a term, the last token ends one          (dangling operators)
     - every adjacent pair is one the grammar can produce                (doubled operators, adjacent terms, "()",
                                                                           WITH without exception, exception without WITH,
                                                                           + or WITH on a LicenseRef, DocumentRef without ":LicenseRef-")
     - parentheses are balanced and never close below the start         (unbalanced parentheses)
   Nothing here refers to the parser; Proofs/RejectProof.v shows that the test is EXACTLY derivability in Spec/Grammar.v. *)
From Spdx Require Export Spec.Grammar.
Local Open Scope list_scope.

Definition starts_term (t : tok) : bool := match t with TOp OLp | TDoc _ | TRef _ | TLic _ => true | _ => false end.
Definition ends_term (t : tok) : bool := match t with TOp ORp | TOp OPlus | TRef _ | TLic _ | TExc _ => true | _ => false end.
(* what may follow a complete term *)
Definition closes (t : tok) : bool := match t with TOp ORp | TOp OAnd | TOp OOr => true | _ => false end.

Definition adj_ok (a b : tok) : bool :=
  match a with
  | TOp OLp | TOp OAnd | TOp OOr => starts_term b
  | TDoc _ => match b with TOp OColon => true | _ => false end
  | TOp OColon => match b with TRef _ => true | _ => false end
  | TOp OWith => match b with TExc _ => true | _ => false end
  | TLic _ => match b with TOp OPlus | TOp OWith => true | _ => closes b end
  | TOp OPlus => match b with TOp OWith => true | _ => closes b end
  | TRef _ | TExc _ | TOp ORp => closes b
  end.

Definition dflt : tok := TOp OAnd.
Definition hdt (ts : list tok) : tok := hd dflt ts.
Definition lastt (ts : list tok) : tok := last ts dflt.

Fixpoint pairs_ok (ts : list tok) : bool :=
  match ts with a :: (b :: _) as r => if adj_ok a b then pairs_ok r else false | _ => true end.

(* depth after reading ts from depth d; None when a ")" closes below 0 *)
Fixpoint bal (d : nat) (ts : list tok) : option nat :=
  match ts with
  | [] => Some d
  | TOp OLp :: r => bal (S d) r
  | TOp ORp :: r => match d with 0 => None | S d' => bal d' r end
  | _ :: r => bal d r
  end.
Definition balanced (ts : list tok) : bool := match bal 0 ts with Some 0 => true | _ => false end.

Definition shape_ok (ts : list tok) : bool :=
  match ts with
  | [] => false
  | _ => if starts_term (hdt ts) then if ends_term (lastt ts) then if pairs_ok ts then balanced ts else false else false else false
  end.
