(* The single-term matching rule, transcribed from the property text:
     both LicenseRefs: identical LicenseRef id and identical (or both absent) DocumentRef;
     both licenses: identical WITH exception (or none) and
        either the same id ('-or-later' counts as '+', so the id is taken without that suffix),
        or ids of the same version family where
           neither has '+' and the versions are equal,
           exactly one has '+' and the other's version is equal or later,
           or both have '+';
     a license never matches a LicenseRef.
   "Family" and "version" are positions in the family table the tree ships (rngs T). *)
From Spdx Require Export Model.Match.
Local Open Scope list_scope.

Definition base_id (l : str) : str := match strip_suffix k_orlater l with Some b => b | None => l end.
(* position (family, version step) of an id in the shipped table *)
Definition position (T : tables) (l : str) : option (nat * nat) := find_row (base_id l) (rngs T) 0.

Definition version_rule (p1 p2 : bool) (i j : nat) : Prop :=
  (p1 = false /\ p2 = false /\ i = j) \/
  (p1 = true /\ p2 = false /\ i <= j) \/
  (p1 = false /\ p2 = true /\ j <= i) \/
  (p1 = true /\ p2 = true).

Definition term_matches (T : tables) (a b : node) : Prop :=
  match a, b with
  | NRef d1 r1, NRef d2 r2 => r1 = r2 /\ d1 = d2
  | NLic l1 p1 e1, NLic l2 p2 e2 =>
      e1 = e2 /\
      (base_id l1 = base_id l2 \/
       exists f i j, position T l1 = Some (f, i) /\ position T l2 = Some (f, j) /\ version_rule p1 p2 i j)
  | _, _ => False
  end.

(* table obligation used by the proof: a listed X-or-later whose base X is listed too has X in the table *)
Definition chk_orlater_base_ranged (T : tables) : bool :=
  forallb (fun y => match strip_suffix k_orlater y with
                    | Some x => if existsb (str_eqb x) (active T ++ deprec T)
                                then match find_row x (rngs T) 0 with Some _ => true | None => false end
                                else true
                    | None => true
                    end) (active T ++ deprec T).
