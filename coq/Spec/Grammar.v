(* The documented SPDX expression grammar, over tokens, as an inductive relation producing the tree:
     expr := and { OR and }          (right-nested: a OR (b OR c))
     and  := atom { AND atom }       (right-nested)
     atom := ( expr ) | [DocumentRef-d :] LicenseRef-x | license [+] [WITH exception]
   AND binds tighter than OR; parentheses group.  Nothing here refers to the parser. *)
From Spdx Require Export Model.Parse.
Local Open Scope list_scope.

Definition plus_toks (p : bool) : list tok := if p then [TOp OPlus] else [].
Definition with_toks (e : option str) : list tok := match e with Some x => [TOp OWith; TExc x] | None => [] end.

Inductive d_atom : list tok -> node -> Prop :=
| d_paren ts t : d_expr ts t -> d_atom (TOp OLp :: ts ++ [TOp ORp]) t
| d_ref x : d_atom [TRef x] (NRef None x)
| d_docref d x : d_atom [TDoc d; TOp OColon; TRef x] (NRef (Some d) x)
| d_lic l p e : d_atom (TLic l :: plus_toks p ++ with_toks e) (NLic l (if p then true else ends_orlater l) e)
with d_and : list tok -> node -> Prop :=
| d_and1 ts t : d_atom ts t -> d_and ts t
| d_andS ts1 t1 ts2 t2 : d_atom ts1 t1 -> d_and ts2 t2 -> d_and (ts1 ++ TOp OAnd :: ts2) (NAnd t1 t2)
with d_expr : list tok -> node -> Prop :=
| d_expr1 ts t : d_and ts t -> d_expr ts t
| d_exprS ts1 t1 ts2 t2 : d_and ts1 t1 -> d_expr ts2 t2 -> d_expr (ts1 ++ TOp OOr :: ts2) (NOr t1 t2).

Scheme d_atom_ind' := Induction for d_atom Sort Prop
with d_and_ind' := Induction for d_and Sort Prop
with d_expr_ind' := Induction for d_expr Sort Prop.
Combined Scheme d_mutind from d_atom_ind', d_and_ind', d_expr_ind'.
