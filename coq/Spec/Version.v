(* The "natural ordering of the version numbers" that the family table does not state (DESIGN R5):
     decompose id = (family key, version)
       split the id at '-'; drop a trailing "-only" / "-or-later";
       the version is the first component, other than the first, that starts with a digit; it reads as
       dot-separated naturals with an optional trailing letter (1.3a, 2.0.1, 3.01, 1986);
       family key = (components before the version, components after it).
     order: lexicographic on the numerals, then the letter.
   Then the well-formedness of LicenseRanges() (R6) as boolean checkers. *)
From Coq Require Import NArith.
From Spdx Require Export Model.Match Spec.MatchSpec Spec.WF.
Local Open Scope list_scope.

Fixpoint split_on (sep : ascii) (s : str) (cur : str) : list str :=
  match s with
  | [] => [frev cur]
  | c :: s' => if Ascii.eqb c sep then frev cur :: split_on sep s' [] else split_on sep s' (c :: cur)
  end.
Definition split_dash (s : str) : list str := split_on "-"%char s [].
Definition split_dot (s : str) : list str := split_on "."%char s [].

Fixpoint join_dash (l : list str) : str :=
  match l with [] => [] | [x] => x | x :: l' => x ++ "-"%char :: join_dash l' end.

Definition digit_val (c : ascii) : option N :=
  if is_digit c then Some (N.of_nat (nat_of_ascii c) - 48)%N else None.
Fixpoint num_of (s : str) (acc : N) : option N :=
  match s with
  | [] => Some acc
  | c :: s' => match digit_val c with Some d => num_of s' (acc * 10 + d)%N | None => None end
  end.
Definition numeral (s : str) : option N := match s with [] => None | _ => num_of s 0%N end.

Definition is_letter (c : ascii) : bool := if is_upper c then true else is_lower c.
(* strip one optional trailing letter *)
Definition split_letter (s : str) : str * option ascii :=
  match frev s with
  | c :: r => if is_letter c then (frev r, Some c) else (s, None)
  | [] => (s, None)
  end.
Fixpoint all_some {A} (l : list (option A)) : option (list A) :=
  match l with
  | [] => Some []
  | Some x :: l' => match all_some l' with Some r => Some (x :: r) | None => None end
  | None :: _ => None
  end.
Definition version := (list N * option ascii)%type.
Definition parse_version (s : str) : option version :=
  let (body, letter) := split_letter s in
  match all_some (map numeral (split_dot body)) with
  | Some (n :: ns) => Some (n :: ns, letter)
  | _ => None
  end.

Definition starts_with_digit (s : str) : bool := match s with c :: _ => is_digit c | [] => false end.
Fixpoint find_version (before_rev : list str) (l : list str) : option (list str * str * list str) :=
  match l with
  | [] => None
  | x :: l' => if starts_with_digit x then Some (frev before_rev, x, l') else find_version (x :: before_rev) l'
  end.
(* drop trailing ["only"] or ["or"; "later"] *)
Definition drop_suffix_parts (parts : list str) : list str :=
  match frev parts with
  | l :: o :: r => if str_eqb l (s2l "later") then if str_eqb o (s2l "or") then frev r
                   else (if str_eqb l (s2l "only") then frev (o :: r) else parts)
                   else if str_eqb l (s2l "only") then frev (o :: r) else parts
  | _ => parts
  end.
Definition family_key := (str * str)%type.
Definition decompose (id : str) : option (family_key * version) :=
  match drop_suffix_parts (split_dash id) with
  | first :: rest =>
      match find_version [first] rest with
      | Some (before, v, after) =>
          match parse_version v with
          | Some ver => Some ((join_dash before, join_dash after), ver)
          | None => None
          end
      | None => None
      end
  | [] => None
  end.

(* ---- order on versions ---- *)
Fixpoint nums_cmp (a b : list N) : comparison :=
  match a, b with
  | [], [] => Eq
  | [], _ :: _ => Lt
  | _ :: _, [] => Gt
  | x :: a', y :: b' => match N.compare x y with Eq => nums_cmp a' b' | c => c end
  end.
Definition letter_cmp (a b : option ascii) : comparison :=
  match a, b with
  | None, None => Eq
  | None, Some _ => Lt
  | Some _, None => Gt
  | Some x, Some y => Nat.compare (nat_of_ascii x) (nat_of_ascii y)
  end.
Definition ver_cmp (a b : version) : comparison :=
  match nums_cmp (fst a) (fst b) with Eq => letter_cmp (snd a) (snd b) | c => c end.
Definition ver_leb (a b : version) : bool := match ver_cmp a b with Gt => false | _ => true end.
Definition ver_ltb (a b : version) : bool := match ver_cmp a b with Lt => true | _ => false end.
Definition ver_eqb (a b : version) : bool := match ver_cmp a b with Eq => true | _ => false end.
Definition key_eqb (a b : family_key) : bool := if str_eqb (fst a) (fst b) then str_eqb (snd a) (snd b) else false.

(* ---- well-formedness of the family table ---- *)
Definition entries (T : tables) : list str := concat (concat (rngs T)).
Fixpoint str_nodup (l : list str) : bool :=
  match l with [] => true | x :: l' => if existsb (str_eqb x) l' then false else str_nodup l' end.

(* every entry is a listed id *)
Definition chk_ranges_listed (T : tables) : bool :=
  forallb (fun x => existsb (str_eqb x) (lic_ids T)) (entries T).
(* ... at exactly one position *)
Definition chk_ranges_unique_pos (T : tables) : bool := str_nodup (entries T).

(* key and version of a group: those of its first entry; every entry of the group agrees *)
Definition group_kv (g : list str) : option (family_key * version) :=
  match g with
  | [] => None
  | x :: g' => match decompose x with
               | Some (k, v) =>
                   if forallb (fun y => match decompose y with
                                        | Some (k', v') => if key_eqb k k' then ver_eqb v v' else false
                                        | None => false end) g'
                   then Some (k, v) else None
               | None => None
               end
  end.
(* a row: one family key, strictly ascending versions, one version per step *)
Fixpoint row_ascending (k : family_key) (prev : option version) (row : list (list str)) : bool :=
  match row with
  | [] => true
  | g :: row' => match group_kv g with
                 | Some (k', v) =>
                     if key_eqb k k' then
                       if (match prev with Some p => ver_ltb p v | None => true end) then row_ascending k (Some v) row' else false
                     else false
                 | None => false
                 end
  end.
Definition row_key (row : list (list str)) : option family_key :=
  match row with g :: _ => match group_kv g with Some (k, _) => Some k | None => None end | [] => None end.
Definition chk_ranges_keyed_ascending (T : tables) : bool :=
  forallb (fun row => match row_key row with Some k => row_ascending k None row | None => false end) (rngs T).
(* different rows are different families *)
Fixpoint keys_nodup (l : list (option family_key)) : bool :=
  match l with
  | [] => true
  | Some k :: l' => if existsb (fun o => match o with Some k' => key_eqb k k' | None => false end) l' then false else keys_nodup l'
  | None :: _ => false
  end.
Definition chk_ranges_distinct_families (T : tables) : bool := keys_nodup (map row_key (rngs T)).
(* a family that is covered at all covers every listed version of it: every listed id (that the tokeniser can
   read) whose key is the key of some row is found by the lookup *)
Definition covered (T : tables) (k : family_key) : bool :=
  existsb (fun row => match row_key row with Some k' => key_eqb k k' | None => false end) (rngs T).
Definition chk_ranges_complete (T : tables) : bool :=
  forallb (fun id => if is_word id then
                       match decompose id with
                       | Some (k, _) => if covered T k then match position T id with Some _ => true | None => false end else true
                       | None => true
                       end
                     else true) (lic_ids T).

(* C11 through the API, over the shipped table (finite): for every two entries of one row, written as the ids
   themselves, Satisfies(b, [a+]) and Satisfies(a+, [b]) are exactly "b's natural version is the same or later" *)
Definition bool_res_eqb (r : res bool) (b : bool) : bool := match r with Ok x => Bool.eqb x b | _ => false end.
Definition chk_plus_api (T : tables) : bool :=
  forallb (fun row =>
    let ids := concat row in
    forallb (fun a => forallb (fun b =>
      match decompose a, decompose b with
      | Some (_, va), Some (_, vb) =>
          let want := ver_leb va vb in
          if bool_res_eqb (satisfies T b [a ++ ["+"%char]]) want then bool_res_eqb (satisfies T (a ++ ["+"%char]) [b]) want else false
      | _, _ => false
      end) ids) ids) (rngs T).
