(* Extraction of the executable model (and, later, of the spec functions used as oracles) to OCaml.
   Only ExtrOcamlBasic is used: bool/option/unit/list/prod/sumbool/sumor map to OCaml's own types,
   everything else (ascii, nat, string, tables) stays the extracted inductive type. *)
From Coq Require Import ExtrOcamlBasic.
From Spdx Require Import Model.Api Model.ParseStack Model.GenFiles Model.Ticks Model.Expand Spec.Lex Spec.MatchSpec Gen.Tables Gen.Template.
Extraction Language OCaml.
Extraction "model.ml" T0 parse scan satisfies validate_licenses extract_licenses canon
  gen_licenses_file gen_deprecated_file gen_exceptions_file tpl_licenses tpl_deprecated tpl_exceptions ref_tokens satisfied_by_t leaves_t expand
  license_range strings_to_nodes sort_and_dedup ps_tokens.
