(* Extraction of the executable model (and, later, of the spec functions used as oracles) to OCaml.
   Only ExtrOcamlBasic is used: bool/option/unit/list/prod/sumbool/sumor map to OCaml's own types,
   everything else (ascii, nat, string, tables) stays the extracted inductive type. *)
From Coq Require Import ExtrOcamlBasic.
From Spdx Require Import Model.Api Gen.Tables.
Extraction Language OCaml.
Extraction "model.ml" T0 parse scan satisfies validate_licenses extract_licenses canon.
