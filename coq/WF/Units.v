(* obligation over the regenerated lists: X+ / X-or-later (and X / unlisted X-only) are the same token sequence *)
From Spdx Require Import Spec.Units Gen.Tables.
Lemma chk_unit_tokens_shipped : chk_unit_tokens T0 = true. Proof. vm_compute. reflexivity. Qed.
Lemma chk_case_safe_shipped : chk_case_safe T0 = true. Proof. vm_compute. reflexivity. Qed.
Lemma chk_only_pairs_shipped : chk_only_pairs T0 = true. Proof. vm_compute. reflexivity. Qed.
Lemma chk_deprec_no_orlater_shipped : chk_deprec_no_orlater T0 = true. Proof. vm_compute. reflexivity. Qed.
