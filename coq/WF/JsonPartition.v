(* obligation: the shipped id lists are exactly the partition of cmd/licenses.json and cmd/exceptions.json *)
From Spdx Require Import Spec.TablesSpec Gen.Tables Gen.SpdxJson.
Lemma chk_json_partition_shipped : chk_json_partition licenses deprecated exceptions json_licenses json_exceptions = true.
Proof. vm_compute. reflexivity. Qed.
