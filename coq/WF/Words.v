(* obligation on the regenerated tables: every id is a word over [A-Za-z0-9-.] (deprecated ids may end in '+') *)
From Spdx Require Import Spec.WF Gen.Tables.
Lemma chk_words_shipped : chk_words T0 = true.
Proof. vm_compute. reflexivity. Qed.
