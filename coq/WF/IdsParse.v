(* obligation: every listed license id parses as a one-term license expression; every exception id is accepted
   after WITH and rejected on its own *)
From Spdx Require Import Spec.TablesSpec Gen.Tables.
Lemma chk_ids_parse_shipped : chk_ids_parse T0 = true.
Proof. vm_compute. reflexivity. Qed.
