(* obligation on the regenerated tables: no id starts with a case variant of AND / OR / WITH / LicenseRef- / DocumentRef- *)
From Spdx Require Import Spec.WF Gen.Tables.
Lemma chk_no_keyword_prefix_shipped : chk_no_keyword_prefix T0 = true.
Proof. vm_compute. reflexivity. Qed.
