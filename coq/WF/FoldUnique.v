(* obligation on the regenerated tables: the three lists are pairwise disjoint and no two ids are equal up to letter case *)
From Spdx Require Import Spec.WF Gen.Tables.
Lemma chk_fold_unique_shipped : chk_fold_unique T0 = true.
Proof. vm_compute. reflexivity. Qed.
