(* obligations on the regenerated LicenseRanges(): every entry is a listed id at exactly one position; every row
   is one natural family in strictly ascending version order, one version per step; rows are distinct families;
   a covered family covers every listed version of it *)
From Spdx Require Import Spec.Version Gen.Tables.
Lemma chk_ranges_listed_shipped : chk_ranges_listed T0 = true. Proof. vm_compute. reflexivity. Qed.
Lemma chk_ranges_unique_pos_shipped : chk_ranges_unique_pos T0 = true. Proof. vm_compute. reflexivity. Qed.
Lemma chk_ranges_keyed_ascending_shipped : chk_ranges_keyed_ascending T0 = true. Proof. vm_compute. reflexivity. Qed.
Lemma chk_ranges_distinct_families_shipped : chk_ranges_distinct_families T0 = true. Proof. vm_compute. reflexivity. Qed.
Lemma chk_ranges_complete_shipped : chk_ranges_complete T0 = true. Proof. vm_compute. reflexivity. Qed.
Lemma chk_plus_api_shipped : chk_plus_api T0 = true. Proof. vm_compute. reflexivity. Qed.
