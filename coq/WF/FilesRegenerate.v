(* obligation: the generator model reproduces the three committed generated files byte for byte *)
From Spdx Require Import Spec.TablesSpec Gen.SpdxJson Gen.Files Gen.Template.
Lemma chk_files_regenerate_shipped :
  chk_files_regenerate tpl_licenses tpl_deprecated tpl_exceptions file_get_licenses file_get_deprecated file_get_exceptions json_licenses json_exceptions = true.
Proof. vm_compute. reflexivity. Qed.
