(* obligations over the regenerated id lists: equivalent spellings (C08) and letter case (C09) of every listed id *)
From Spdx Require Import Spec.Spellings Gen.Tables.
Lemma chk_active_spellings_shipped : chk_active_spellings T0 = true. Proof. vm_compute. reflexivity. Qed.
Lemma chk_deprecated_spellings_shipped : chk_deprecated_spellings T0 = true. Proof. vm_compute. reflexivity. Qed.
Lemma chk_case_ids_shipped : chk_case_ids T0 = true. Proof. vm_compute. reflexivity. Qed.
