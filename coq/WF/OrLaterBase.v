(* obligation on the regenerated tables: a listed X-or-later whose base X is listed has X in LicenseRanges() *)
From Spdx Require Import Spec.MatchSpec Gen.Tables.
Lemma chk_orlater_base_ranged_shipped : chk_orlater_base_ranged T0 = true.
Proof. vm_compute. reflexivity. Qed.
