(* C10 - expressions denoting the same Boolean function get the same verdict. *)
From Spdx Require Import Props.Shipped Spec.Eval Spec.Grammar Proofs.Lexo Proofs.Laws Proofs.Respell Proofs.Split Proofs.SpacesAnywhere Proofs.Subst Proofs.SubstText.
Local Open Scope list_scope.

Theorem C10 e1 t1 e2 t2 A : parse T0 e1 = Ok t1 -> parse T0 e2 = Ok t2 -> (forall v, eval v t1 = eval v t2) ->
  satisfies T0 e1 A = satisfies T0 e2 A.
Proof. exact (sat_same_function T0 e1 t1 e2 t2 A). Qed.

(* the named laws hold of eval, so any two trees related by them fall under C10 *)
Theorem C10_laws v a b c :
  eval v (NAnd a b) = eval v (NAnd b a) /\ eval v (NOr a b) = eval v (NOr b a) /\
  eval v (NAnd (NAnd a b) c) = eval v (NAnd a (NAnd b c)) /\ eval v (NOr (NOr a b) c) = eval v (NOr a (NOr b c)) /\
  eval v (NAnd a a) = eval v a /\ eval v (NOr a a) = eval v a /\
  eval v (NAnd a (NOr a b)) = eval v a /\ eval v (NOr a (NAnd a b)) = eval v a /\
  eval v (NAnd a (NOr b c)) = eval v (NOr (NAnd a b) (NAnd a c)).
Proof.
  repeat split; [apply law_comm_and|apply law_comm_or|apply law_assoc_and|apply law_assoc_or|apply law_idem_and|apply law_idem_or
                |apply law_absorb_and|apply law_absorb_or|apply law_distr].
Qed.

(* Satisfies of a conjunction / disjunction is the conjunction / disjunction of the operands' values *)
Theorem C10_and_or e t a b A : parse T0 e = Ok t -> A <> [] -> Forall (entry_ok T0) A ->
  let v := fun x => existsb (compatible T0 x) (map (pn T0) A) in
  (t = NAnd a b -> satisfies T0 e A = Ok (eval v a && eval v b)) /\
  (t = NOr a b -> satisfies T0 e A = Ok (eval v a || eval v b)).
Proof. exact (sat_and_or T0 HT0 Hnr0 e t a b A). Qed.

(* rewrites that keep the set of terms keep the set ExtractLicenses returns *)
Theorem C10_extract e1 t1 e2 t2 l1 l2 : parse T0 e1 = Ok t1 -> parse T0 e2 = Ok t2 ->
  (forall x, In x (tree_leaves t1) <-> In x (tree_leaves t2)) ->
  extract_licenses T0 e1 = Ok l1 -> extract_licenses T0 e2 = Ok l2 -> forall x, In x l1 <-> In x l2.
Proof. exact (extract_same_leaves T0 HT0 e1 t1 e2 t2 l1 l2). Qed.

(* extra spaces and redundant parentheses never change the parse (hence neither verdict nor extracted set) *)
Theorem C10_spaces_parentheses s t sp1 sp2 :
  Forall (fun ch => is_space ch = true) sp1 -> Forall (fun ch => is_space ch = true) sp2 -> parse T0 s = Ok t ->
  parse T0 (sp1 ++ s ++ sp2) = Ok t /\ parse T0 ("("%char :: s ++ [")"%char]) = Ok t.
Proof. intros F1 F2 H. split; [apply (parse_pad T0 HT0); assumption|apply (parse_parens T0 HT0); assumption]. Qed.

(* extra spaces ANYWHERE: in front of any byte c that is neither an id character nor a '+' (operators, parentheses, the
   ':' of a DocumentRef, a space), any run of spaces may be inserted or removed without changing the parse - hence
   neither the verdict of Satisfies nor the result of ExtractLicenses *)
Theorem C10_spaces_anywhere a c b sp t : boundary a c -> c <> "+"%char -> Forall (fun ch => is_space ch = true) sp ->
  (parse T0 (a ++ sp ++ c :: b) = Ok t <-> parse T0 (a ++ c :: b) = Ok t).
Proof. exact (parse_extra_spaces T0 HT0 a c b sp t). Qed.
Example C10_spaces_anywhere_example :
  boundary (s2l "MIT") " "%char /\ parse T0 (s2l "MIT" ++ s2l "   " ++ " "%char :: s2l "AND (ISC)") = parse T0 (s2l "MIT AND (ISC)").
Proof. split; [split; [reflexivity|discriminate]|vm_compute; reflexivity]. Qed.

(* Satisfies("(E) AND (F)", A) = Satisfies(E, A) and Satisfies(F, A); likewise for OR - on the strings themselves *)
Theorem C10_decomposition E F tE tF A : parse T0 E = Ok tE -> parse T0 F = Ok tF -> A <> [] -> Forall (entry_ok T0) A ->
  exists bE bF, satisfies T0 E A = Ok bE /\ satisfies T0 F A = Ok bF /\
    satisfies T0 ("("%char :: E ++ s2l ") AND (" ++ F ++ [")"%char]) A = Ok (bE && bF) /\
    satisfies T0 ("("%char :: E ++ s2l ") OR (" ++ F ++ [")"%char]) A = Ok (bE || bF).
Proof.
  intros HE HF HA HFA. destruct (parse_conj T0 HT0 E F tE tF HE HF) as [Hand Hor].
  eexists. eexists.
  rewrite (satisfies_closed T0 HT0 Hnr0 E tE A HE HA HFA), (satisfies_closed T0 HT0 Hnr0 F tF A HF HA HFA).
  rewrite (satisfies_closed T0 HT0 Hnr0 _ _ A Hand HA HFA), (satisfies_closed T0 HT0 Hnr0 _ _ A Hor HA HFA).
  repeat split; reflexivity.
Qed.

(* Operand positions are compositional.  C: any valid token sequence in which the reference LicenseRef-z marks operand
   positions (as a whole term: nodoc); u: any token sequence that is an operand on its own (d_atom: a license term, a
   reference, a parenthesised expression).  Then C with u at the marks parses to C's tree with u's tree at the marks;
   ( u ) at the marks parses to the same tree - a redundant pair of parentheses around an operand never matters,
   however deep the operand stands; and a parenthesised expression is an operand whatever surrounds it. *)
Theorem C10_operand_substitution C t z u a : p_tokens C = Ok t -> nodoc z t = true -> d_atom u a ->
  p_tokens (tsubst z u C) = Ok (nsubst z a t) /\
  p_tokens (tsubst z (TOp OLp :: u ++ [TOp ORp]) C) = p_tokens (tsubst z u C).
Proof. intros HC Hn Hu. exact (conj (parse_subst C t z u a HC Hn Hu) (parens_redundant_anywhere C t z u a HC Hn Hu)). Qed.
Theorem C10_parentheses_group C t z e te : p_tokens C = Ok t -> nodoc z t = true -> p_tokens e = Ok te ->
  p_tokens (tsubst z (TOp OLp :: e ++ [TOp ORp]) C) = Ok (nsubst z te t) /\
  forall v, eval v (nsubst z te t) = eval (fun leaf => if is_mark_leaf z leaf then eval v te else v leaf) t.
Proof. intros HC Hn He. exact (conj (parens_group C t z e te HC Hn He) (fun v => eval_nsubst v z te t)). Qed.

(* the same on the caller's text: an operand w that reads as a unit between p and q (the tokens of p w q are those of p,
   w and q) at a place where a reference would be valid may be written ( w ): same tree, so same verdict and same
   extracted set (C10 / C10_extract above) *)
Theorem C10_redundant_parentheses_anywhere p w q tp tw tq z t a :
  lexo T0 p = Some tp -> lexo T0 w = Some tw -> lexo T0 q = Some tq -> lexo T0 (p ++ w ++ q) = Some (tp ++ tw ++ tq) ->
  forallb (fun tk => negb (is_marker z tk)) tp = true -> forallb (fun tk => negb (is_marker z tk)) tq = true ->
  p_tokens (tp ++ TRef z :: tq) = Ok t -> nodoc z t = true -> d_atom tw a -> w <> [] ->
  parse T0 (p ++ w ++ q) = Ok (nsubst z a t) /\ parse T0 (p ++ "("%char :: w ++ ")"%char :: q) = Ok (nsubst z a t).
Proof. exact (parens_redundant_text T0 HT0 p w q tp tw tq z t a). Qed.
(* for an operand that follows a space or "(" and is followed by nothing, a space or ")", no hypothesis about the
   tokenisation of the whole text is left: the tokens of the three parts are enough *)
Theorem C10_redundant_parentheses_delimited p' c1 w q tp tw tq z t a :
  (c1 = " "%char \/ c1 = "("%char) -> (forall r, w <> "+"%char :: r) ->
  (q = [] \/ exists c q', q = c :: q' /\ (c = " "%char \/ c = ")"%char)) ->
  lexo T0 (p' ++ [c1]) = Some tp -> lexo T0 w = Some tw -> lexo T0 q = Some tq ->
  forallb (fun tk => negb (is_marker z tk)) tp = true -> forallb (fun tk => negb (is_marker z tk)) tq = true ->
  p_tokens (tp ++ TRef z :: tq) = Ok t -> nodoc z t = true -> d_atom tw a -> w <> [] ->
  parse T0 ((p' ++ [c1]) ++ w ++ q) = Ok (nsubst z a t) /\
  parse T0 ((p' ++ [c1]) ++ "("%char :: w ++ ")"%char :: q) = Ok (nsubst z a t).
Proof. exact (parens_redundant_delimited T0 HT0 p' c1 w q tp tw tq z t a). Qed.
Example C10_redundant_parentheses_example :
  let p := s2l "MIT AND (Zlib OR " in let w := s2l "GPL-2.0-only WITH Classpath-exception-2.0" in let q := s2l ") AND ISC" in
  (exists tp tw tq t a, lexo T0 p = Some tp /\ lexo T0 w = Some tw /\ lexo T0 q = Some tq /\ lexo T0 (p ++ w ++ q) = Some (tp ++ tw ++ tq)
     /\ forallb (fun tk => negb (is_marker (s2l "z") tk)) (tp ++ tq) = true /\ p_tokens (tp ++ TRef (s2l "z") :: tq) = Ok t
     /\ nodoc (s2l "z") t = true /\ p_tokens tw = Ok a)
  /\ parse T0 (p ++ "("%char :: w ++ ")"%char :: q) = parse T0 (p ++ w ++ q).
Proof. split; [do 5 eexists; vm_compute; repeat split; reflexivity|vm_compute; reflexivity]. Qed.

Example C10_example :
  parse T0 (s2l "  ((MIT))   AND (ISC OR  Zlib) ") = parse T0 (s2l "MIT AND (ISC OR Zlib)")
  /\ satisfies T0 (s2l "(MIT AND ISC) OR (MIT AND Zlib)") [s2l "Zlib"; s2l "MIT"] = satisfies T0 (s2l "MIT AND (ISC OR Zlib)") [s2l "Zlib"; s2l "MIT"].
Proof. vm_compute. split; reflexivity. Qed.

(* axioms the property theorems of this file depend on (one traversal for all of them) *)
Definition C10_theorems := (@C10, @C10_laws, @C10_and_or, @C10_extract, @C10_spaces_parentheses, @C10_spaces_anywhere, @C10_decomposition, @C10_operand_substitution, @C10_parentheses_group, @C10_redundant_parentheses_anywhere, @C10_redundant_parentheses_delimited).
Redirect "assumptions/C10" Print Assumptions C10_theorems.
