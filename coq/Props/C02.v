(* C02 - single-term matching follows the documented version / + / exception / ref rules. *)
From Spdx Require Import Props.Shipped Proofs.MatchProof Proofs.Sat Proofs.ApiFacts.
Local Open Scope list_scope.

Theorem C02_general T : chk_fold_unique T = true -> chk_orlater_base_ranged T = true ->
  forall a b, leaf_ok T a -> leaf_ok T b -> (compatible T a b = true <-> term_matches T a b).
Proof. exact (compatible_iff_term_matches T). Qed.

Theorem C02 a b : leaf_ok T0 a -> leaf_ok T0 b -> (compatible T0 a b = true <-> term_matches T0 a b).
Proof. exact (compatible_iff_term_matches T0 chk_fold_unique_shipped chk_orlater_base_ranged_shipped a b). Qed.

(* every single term the parser produces satisfies leaf_ok *)
Theorem C02_parser_output s n : parse T0 s = Ok n -> is_leaf n = true -> leaf_ok T0 n.
Proof. intros H L. pose proof (parse_tree_ok T0 HT0 s n H) as K. destruct n; try discriminate; exact K. Qed.

Theorem C02_symmetric a b : leaf_ok T0 a -> leaf_ok T0 b -> compatible T0 a b = compatible T0 b a.
Proof. exact (compatible_sym T0 chk_fold_unique_shipped chk_orlater_base_ranged_shipped a b). Qed.
Theorem C02_reflexive a : leaf_ok T0 a -> compatible T0 a a = true.
Proof. exact (compatible_refl T0 chk_fold_unique_shipped chk_orlater_base_ranged_shipped a). Qed.
Theorem C02_license_never_matches_ref l p e d r :
  compatible T0 (NLic l p e) (NRef d r) = false /\ compatible T0 (NRef d r) (NLic l p e) = false.
Proof. split; reflexivity. Qed.

(* through the API: Satisfies(a, [b]) for single terms is the matcher applied to the parsed nodes *)
Theorem C02_api a b na nb : parse T0 a = Ok na -> parse T0 b = Ok nb -> is_leaf na = true -> is_leaf nb = true ->
  satisfies T0 a [b] = Ok (compatible T0 na nb).
Proof.
  intros Ha Hb La Lb.
  rewrite (satisfies_is_eval T0 HT0 Hnr0 a na [b] [nb] Ha ltac:(discriminate) ltac:(repeat constructor; assumption)).
  destruct na; try discriminate; simpl; rewrite orb_false_r; reflexivity.
Qed.

Example C02_example :
  satisfies T0 (s2l "GPL-3.0-only") [s2l "GPL-2.0+"] = Ok true /\ satisfies T0 (s2l "GPL-1.0") [s2l "GPL-2.0-or-later"] = Ok false
  /\ satisfies T0 (s2l "AGPL-1.0") [s2l "AGPL-1.0-only"] = Ok true /\ satisfies T0 (s2l "MIT") [s2l "LicenseRef-MIT"] = Ok false
  /\ satisfies T0 (s2l "GPL-2.0-only WITH Classpath-exception-2.0") [s2l "GPL-2.0-only"] = Ok false.
Proof. vm_compute. repeat split; reflexivity. Qed.

(* axioms the property theorems of this file depend on (one traversal for all of them) *)
Definition C02_theorems := (@C02_general, @C02, @C02_parser_output, @C02_symmetric, @C02_reflexive, @C02_license_never_matches_ref, @C02_api).
Redirect "assumptions/C02" Print Assumptions C02_theorems.
