(* C04 - one notion of validity: errors are returned exactly for invalid input. *)
From Spdx Require Import Props.Shipped Proofs.ApiFacts Proofs.Laws.
Local Open Scope list_scope.

(* valid := parse succeeds; every string is valid or not (parse is total) *)
Theorem C04_validate l :
  validate_licenses T0 l = Ok (forallb (validb T0) l, filter (fun s => negb (validb T0 s)) l).
Proof. exact (validate_licenses_spec T0 HT0 l). Qed.

Theorem C04_extract e :
  (validb T0 e = true -> exists l, extract_licenses T0 e = Ok l) /\
  (validb T0 e = false -> exists er, extract_licenses T0 e = Err er).
Proof.
  split.
  - intros H. apply (validb_true T0) in H. destruct H as [t Ht].
    destruct (extract_exact T0 HT0 e t Ht) as [l [H _]]. eauto.
  - exact (extract_invalid T0 HT0 e).
Qed.

(* Satisfies: an error iff the expression is invalid, the list is empty, or an entry is invalid or compound;
   an error value carries no verdict (outcome Err has no Boolean component), valid input never errs *)
Theorem C04_satisfies e A :
  obs (satisfies T0 e A) = None <-> (validb T0 e = false \/ A = [] \/ ~ Forall (entry_ok T0) A).
Proof. exact (satisfies_err_iff T0 HT0 e A). Qed.

Theorem C04_satisfies_cases e A :
  (exists b, satisfies T0 e A = Ok b /\ validb T0 e = true /\ A <> [] /\
             Forall (fun a => exists n, parse T0 a = Ok n /\ is_leaf n = true) A) \/
  (exists er, satisfies T0 e A = Err er /\
              (validb T0 e = false \/ A = [] \/
               Exists (fun a => validb T0 a = false \/ exists n, parse T0 a = Ok n /\ is_leaf n = false) A)).
Proof. exact (satisfies_cases T0 HT0 e A). Qed.

Example C04_example :
  validate_licenses T0 [s2l "MIT"; s2l "FOO"; s2l "MIT AND"; s2l "FOO"] = Ok (false, [s2l "FOO"; s2l "MIT AND"; s2l "FOO"])
  /\ satisfies T0 (s2l "MIT") [s2l "MIT"; s2l "MIT OR ISC"] = Err ECompoundAllowed
  /\ satisfies T0 (s2l "MIT") [] = Err EEmptyAllowed.
Proof. vm_compute. repeat split; reflexivity. Qed.

(* axioms the property theorems of this file depend on (one traversal for all of them) *)
Definition C04_theorems := (@C04_validate, @C04_extract, @C04_satisfies, @C04_satisfies_cases).
Redirect "assumptions/C04" Print Assumptions C04_theorems.
