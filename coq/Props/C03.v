(* C03 - no argument can make the library panic (every partial Go operation is a Panic branch of the model). *)
From Spdx Require Import Props.Shipped Proofs.ApiFacts Proofs.ScanRef Proofs.ParseGrammar Model.ParseStack Proofs.ParseStack.
Local Open Scope list_scope.

Theorem C03_general T : chk_words T = true -> forall (l : list str) (e : str) (A : list str),
  (validate_licenses T l <> Panic /\ validate_licenses T l <> Fuel) /\
  (satisfies T e A <> Panic /\ satisfies T e A <> Fuel) /\
  (extract_licenses T e <> Panic /\ extract_licenses T e <> Fuel).
Proof.
  intros H l e A. pose proof (chk_words_lookup_nil T H) as HT.
  exact (conj (no_panic_validate T HT l) (conj (no_panic_satisfies T HT e A) (no_panic_extract T HT e))).
Qed.

Theorem C03 (l : list str) (e : str) (A : list str) :
  (validate_licenses T0 l <> Panic /\ validate_licenses T0 l <> Fuel) /\
  (satisfies T0 e A <> Panic /\ satisfies T0 e A <> Fuel) /\
  (extract_licenses T0 e <> Panic /\ extract_licenses T0 e <> Fuel).
Proof. exact (C03_general T0 chk_words_shipped l e A). Qed.

(* the two loops that are not structurally recursive never exhaust their fuel, whatever the input *)
Theorem C03_scanner s : scan T0 s <> Panic /\ scan T0 s <> Fuel.
Proof. exact (scan_total T0 HT0 s). Qed.
Theorem C03_parser ts : p_tokens ts <> Panic /\ p_tokens ts <> Fuel.
Proof. exact (parse_never_panics ts). Qed.

(* parseExpression AS IT IS WRITTEN since the repair of D-k (explicit stack of operand groups, Model/ParseStack.v): the
   index expression operands[len(operands)-1] of joinOperands is a Panic branch of that model; it is never reached,
   for any token list - closeTerms / node() only ever run with a non-empty chain - and the |tokens|+1 phase steps
   always suffice.  Every outcome is a tree or a syntax error. *)
Theorem C03_parser_as_written ts :
  (ps_tokens ts <> Panic /\ ps_tokens ts <> Fuel) /\ (ps_tokens ts = Err ESyntax \/ exists t, ps_tokens ts = Ok t).
Proof. exact (conj (stack_never_panics ts) (stack_safe ts)). Qed.
(* ... and it is the function the other theorems speak about *)
Theorem C03_parser_as_written_is_the_model ts : ps_tokens ts = p_tokens ts.
Proof. exact (stack_equals_recursive ts). Qed.
Example C03_parser_as_written_example :
  ps_tokens [TOp OLp; TOp OLp; TLic (s2l "MIT"); TOp ORp; TOp OAnd; TRef (s2l "a"); TOp ORp; TOp OOr; TLic (s2l "ISC"); TOp OPlus]
    = Ok (NOr (NAnd (NLic (s2l "MIT") false None) (NRef None (s2l "a"))) (NLic (s2l "ISC") true None))
  /\ ps_tokens [TOp OLp; TOp ORp] = Err ESyntax /\ ps_tokens [TOp OLp; TLic (s2l "MIT")] = Err ESyntax
  /\ ps_tokens [TLic (s2l "MIT"); TOp OOr] = Err ESyntax.
Proof. vm_compute. repeat split; reflexivity. Qed.

Example C03_example :
  validate_licenses T0 [s2l "("; s2l "MIT WITH"; s2l "DocumentRef-a:"; []] = Ok (false, [s2l "("; s2l "MIT WITH"; s2l "DocumentRef-a:"; []])
  /\ satisfies T0 (s2l "(LicenseRef-a OR LicenseRef-b) AND MIT OR ISC") [s2l "MIT"] = Ok false.
Proof. vm_compute. split; reflexivity. Qed.

(* axioms the property theorems of this file depend on (one traversal for all of them) *)
Definition C03_theorems := (@C03_general, @C03, @C03_scanner, @C03_parser, @C03_parser_as_written, @C03_parser_as_written_is_the_model).
Redirect "assumptions/C03" Print Assumptions C03_theorems.
