(* C15 - error messages locate the offending text in the caller's own string. *)
From Spdx Require Import Props.Shipped Spec.Lex Proofs.ScanRef Proofs.Offsets Proofs.ApiFacts Proofs.Unknown.
Local Open Scope list_scope.

Definition located (s : str) (e : err) : Prop :=
  match e with
  | EUnknownLicense w o => o + length w <= length s /\ firstn (length w) (skipn o s) = w
  | EExpectedId o => o <= length s /\ match skipn o s with [] => True | c :: _ => is_idchar c = false end
  | _ => True
  end.

(* every error parse returns about an unknown or missing id is located in the argument *)
Theorem C15_parse s e : parse T0 s = Err e -> located s e.
Proof.
  unfold parse. destruct s as [|c s']; [intros H; inversion H; exact I|].
  rewrite (scan_refines T0 HT0).
  destruct (ref_tokens T0 (c :: s')) as [ts|e'| |] eqn:E.
  - intros H. unfold p_tokens in H. destruct ts; [inversion H; exact I|].
    destruct (p_expr _ _) as [[n [|]]|er| |] eqn:EP; inversion H; subst; try exact I.
    (* parser errors carry no offset *)
    clear H. revert EP. generalize (3 * length (t :: ts) + 3). intros f EP.
    assert (Hs : forall f ts x, (p_expr f ts = Err x \/ p_and f ts = Err x \/ p_atom f ts = Err x) -> x = ESyntax).
    { clear. induction f as [|f IH]; intros ts x [H|[H|H]]; try discriminate; simpl in H.
      - destruct (p_and f ts) as [[l r]|e1| |] eqn:EA; try discriminate.
        + destruct (p_op OOr r) as [[|t0 r0]|]; try discriminate; [inversion H; reflexivity|].
          destruct (p_expr f (t0 :: r0)) as [[rg r'']|e2| |] eqn:EE; try discriminate. inversion H; subst. eapply IH; eauto.
        + inversion H; subst. eapply IH; eauto.
      - destruct (p_atom f ts) as [[l r]|e1| |] eqn:EA; try discriminate.
        + destruct (p_op OAnd r) as [[|t0 r0]|]; try discriminate; [inversion H; reflexivity|].
          destruct (p_and f (t0 :: r0)) as [[rg r'']|e2| |] eqn:EE; try discriminate. inversion H; subst. eapply IH; eauto.
        + inversion H; subst. eapply IH; eauto.
      - destruct (p_op OLp ts) as [r|].
        + destruct (p_expr f r) as [[e0 r']|e1| |] eqn:EE; try discriminate.
          * destruct (p_op ORp r'); [discriminate|inversion H; reflexivity].
          * inversion H; subst. eapply IH; eauto.
        + unfold p_ref, p_lic in H.
          destruct ts as [|[o|d|x0|l|e0] ts']; try (inversion H; reflexivity).
          * destruct (p_op OColon ts') as [[|[o|d'|x0|l|e0] r'']|]; inversion H; reflexivity.
          * destruct (match p_op OPlus ts' with Some r1 => (true, r1) | None => (ends_orlater l, ts') end) as [pl r1].
            destruct (p_op OWith r1) as [[|[o|d'|x0|l'|e0] r'']|]; inversion H; reflexivity. }
    rewrite (Hs _ _ _ (or_introl EP)). exact I.
  - intros H; inversion H; subst. exact (ref_tokens_offsets T0 (c :: s') e E).
  - discriminate.
  - discriminate.
Qed.

(* Satisfies and ExtractLicenses return the scanner's error unchanged *)
Theorem C15_extract s e : extract_licenses T0 s = Err e -> located s e.
Proof.
  intros H. pose proof (extract_licenses_spec T0 HT0 s) as K. destruct (parse T0 s) as [t|er| |] eqn:EP; try contradiction.
  - rewrite K in H. discriminate.
  - rewrite K in H. inversion H; subst. apply C15_parse. assumption.
Qed.
Theorem C15_satisfies_expression s A e : parse T0 s = Err e -> satisfies T0 s A = Err e /\ located s e.
Proof. intros H. split; [unfold satisfies; rewrite H; reflexivity|apply C15_parse; assumption]. Qed.

(* an error about an allowed entry is the parse error of the first invalid entry, located in THAT entry's text *)
Theorem C15_satisfies_allowed e t A er : parse T0 e = Ok t -> A <> [] -> satisfies T0 e A = Err er ->
  er = ECompoundAllowed \/ exists A1 a A2, A = A1 ++ a :: A2 /\ Forall (fun x => validb T0 x = true) A1 /\ parse T0 a = Err er /\ located a er.
Proof.
  intros HP HA HS. unfold satisfies in HS. rewrite HP in HS. destruct A as [|a0 A']; [contradiction|].
  destruct (strings_to_nodes T0 (a0 :: A')) as [N|er'| |] eqn:ES; try discriminate.
  - unfold sort_and_dedup in HS. destruct N as [|n0 [|n1 N']]; try discriminate. destruct (keyed (n0 :: n1 :: N')); discriminate.
  - inversion HS; subst er'. destruct (strings_to_nodes_error T0 (a0 :: A') er ES) as [->|[A1 [a [A2 [EA [Pa HF]]]]]]; [left; reflexivity|].
    right. exists A1, a, A2. repeat split; try assumption. apply C15_parse. assumption.
Qed.

Example C15_example :
  parse T0 (s2l "Apache-2.0-or-later AND FOO") = Err (EUnknownLicense (s2l "FOO") 24)
  /\ parse T0 (s2l "(MIT-or-later OR GPL-2.0+) AND LicenseRef-") = Err (EExpectedId 42).
Proof. vm_compute. split; reflexivity. Qed.

(* The converse for unknown ids: an id word that no lookup rule recognises (Proofs/Unknown.v: unknown_word) is
   reported - with exactly that word and exactly its offset - wherever it stands: first in the text, after a space, or
   after an opening parenthesis, provided the text before it tokenises.  So the error is not merely located somewhere
   in the string, it names the first offending word. *)
Lemma parse_ref_err s e : s <> [] -> ref_tokens T0 s = Err e -> parse T0 s = Err e.
Proof. intros N H. unfold parse. destruct s; [contradiction|]. rewrite (scan_refines T0 HT0), H. reflexivity. Qed.
Theorem C15_unknown_word_first sp w b : unknown_word T0 w b -> Forall (fun c => is_space c = true) sp ->
  parse T0 (sp ++ w ++ b) = Err (EUnknownLicense w (length sp)).
Proof.
  intros U Fs. apply parse_ref_err; [destruct U as [N _]; destruct sp; [destruct w; [contradiction|discriminate]|discriminate]|].
  exact (unknown_word_first T0 HT0 sp w b U Fs).
Qed.
Theorem C15_unknown_word_after_space a sp w b ts : ref_tokens T0 a = Ok ts -> unknown_word T0 w b -> Forall (fun c => is_space c = true) sp ->
  parse T0 (a ++ " "%char :: sp ++ w ++ b) = Err (EUnknownLicense w (length a + 1 + length sp)).
Proof.
  intros Ha U Fs. apply parse_ref_err; [destruct a; discriminate|]. exact (unknown_word_after_space T0 HT0 a sp w b ts Ha U Fs).
Qed.
Theorem C15_unknown_word_after_paren a sp w b ts : ref_tokens T0 a = Ok ts -> unknown_word T0 w b -> Forall (fun c => is_space c = true) sp ->
  parse T0 (a ++ "("%char :: sp ++ w ++ b) = Err (EUnknownLicense w (length a + 1 + length sp)).
Proof.
  intros Ha U Fs. apply parse_ref_err; [destruct a; discriminate|]. exact (unknown_word_after_paren T0 HT0 a sp w b ts Ha U Fs).
Qed.
(* The converse for missing ids: "LicenseRef-" (or "DocumentRef-") followed by nothing or by a byte that is no id
   character is reported as `expected id` at exactly the offset where the id should start - first in the text, or after a
   space, "(" or the ":" of a DocumentRef, provided the text before it tokenises. *)
Theorem C15_missing_id_first sp b : Forall (fun c => is_space c = true) sp -> no_id_follows b ->
  parse T0 (sp ++ k_licref ++ b) = Err (EExpectedId (length sp + length k_licref)) /\
  parse T0 (sp ++ k_docref ++ b) = Err (EExpectedId (length sp + length k_docref)).
Proof.
  intros Fs Hb. split; apply parse_ref_err; try (destruct sp; discriminate).
  - exact (missing_licref_first T0 HT0 sp b Fs Hb).
  - exact (missing_docref_first T0 HT0 sp b Fs Hb).
Qed.
Theorem C15_missing_id_after a c sp b ts : ref_tokens T0 a = Ok ts -> c = " "%char \/ c = "("%char \/ c = ":"%char ->
  Forall (fun x => is_space x = true) sp -> no_id_follows b ->
  parse T0 (a ++ c :: sp ++ k_licref ++ b) = Err (EExpectedId (length a + 1 + length sp + length k_licref)).
Proof.
  intros Ha Hc Fs Hb. apply parse_ref_err; [destruct a; discriminate|]. exact (missing_licref_after T0 HT0 a c sp b ts Ha Hc Fs Hb).
Qed.
Example C15_missing_id_nonvacuous :
  parse T0 (s2l "DocumentRef-x:LicenseRef-") = Err (EExpectedId 25) /\ ref_tokens T0 (s2l "DocumentRef-x") = Ok [TDoc (s2l "x")]
  /\ parse T0 (s2l "MIT AND (LicenseRef-)") = Err (EExpectedId 20).
Proof. vm_compute. repeat split; reflexivity. Qed.

(* the hypotheses are met: FOO in "MIT AND (FOO OR ISC)" *)
Example C15_unknown_word_nonvacuous :
  unknown_word T0 (s2l "FOO") (s2l " OR ISC)") /\ ref_tokens T0 (s2l "MIT AND ") = Ok [TLic (s2l "MIT"); TOp OAnd]
  /\ parse T0 (s2l "MIT AND (FOO OR ISC)") = Err (EUnknownLicense (s2l "FOO") 9).
Proof.
  split; [|split; [vm_compute; reflexivity|vm_compute; reflexivity]].
  unfold unknown_word. repeat split; try discriminate; try (vm_compute; reflexivity). repeat constructor.
Qed.

(* axioms the property theorems of this file depend on (one traversal for all of them) *)
Definition C15_theorems := (@C15_parse, @C15_extract, @C15_satisfies_expression, @C15_satisfies_allowed, @C15_unknown_word_first, @C15_unknown_word_after_space, @C15_unknown_word_after_paren, @C15_missing_id_first, @C15_missing_id_after).
Redirect "assumptions/C15" Print Assumptions C15_theorems.
