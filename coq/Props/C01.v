(* C01 - Satisfies returns the Boolean truth of the expression under the allowed list. *)
From Spdx Require Import Props.Shipped Spec.Grammar Spec.Eval Model.Expand Proofs.ParseGrammar Proofs.Sat Proofs.Laws Proofs.ApiFacts Proofs.ExpandProof Model.ParseStack Proofs.ParseStack.
Local Open Scope list_scope.

(* precedence and grouping are those of the grammar: AND binds tighter than OR, parentheses group *)
Theorem C01_parser_is_grammar ts n : p_tokens ts = Ok n <-> d_expr ts n.
Proof. exact (parse_sound_complete ts n). Qed.

(* the pipeline as the code runs it: scan, then the stack-of-groups parser of the current parse.go (Model/ParseStack.v);
   every theorem below about parse / Satisfies is therefore about that algorithm *)
Theorem C01_parse_as_written s :
  parse T0 s = match s with
               | [] => Err EEmptyString
               | _ => match scan T0 s with Ok ts => ps_tokens ts | Err e => Err e | Panic => Panic | Fuel => Fuel end
               end.
Proof.
  unfold parse. destruct s as [|c s']; [reflexivity|]. destruct (scan T0 (c :: s')); try reflexivity.
  symmetry. apply stack_equals_recursive.
Qed.

(* for every valid expression and every valid non-empty allowed list, on any tables passing the checkers *)
Theorem C01_general T : chk_words T = true -> chk_no_keyword_prefix T = true ->
  forall e t A, parse T e = Ok t -> A <> [] -> Forall (entry_ok T) A ->
  satisfies T e A = Ok (eval (fun term => existsb (compatible T term) (map (pn T) A)) t).
Proof.
  intros H1 H2. exact (satisfies_closed T (chk_words_lookup_nil T H1) (chk_no_keyword_prefix_noref T H2)).
Qed.

(* ... and on the tables shipped by /repo now *)
Theorem C01 e t A : parse T0 e = Ok t -> A <> [] -> Forall (entry_ok T0) A ->
  satisfies T0 e A = Ok (eval (fun term => existsb (compatible T0 term) (map (pn T0) A)) t).
Proof. exact (satisfies_closed T0 HT0 Hnr0 e t A). Qed.

(* never 'satisfied' while every alternative has an uncovered term; never 'not satisfied' when one is covered *)
Theorem C01_alternatives e t A : parse T0 e = Ok t -> A <> [] -> Forall (entry_ok T0) A ->
  (satisfies T0 e A = Ok true <->
   exists alt, In alt (dnf t) /\ forall x, In x alt -> existsb (compatible T0 x) (map (pn T0) A) = true).
Proof. exact (sat_alternatives T0 HT0 Hnr0 e t A). Qed.

(* the OR-of-ANDs expansion kept in the package (no longer used by the exported functions; tied through the guarded
   hook) denotes the same Boolean function and has exactly the leaves of the tree *)
Theorem C01_expand_denotes_the_function v t : existsb (forallb v) (expand t) = eval v t.
Proof. exact (expand_is_eval v t). Qed.
Theorem C01_expand_keeps_every_leaf t x : In x (concat (expand t)) <-> In x (tree_leaves t).
Proof. exact (expand_leaves t x). Qed.

(* non-vacuity: a concrete valid expression and list meet the hypotheses, and the value is computed *)
Example C01_example :
  parse T0 (s2l "MIT AND (Apache-2.0 OR GPL-2.0-only) OR ISC") =
    Ok (NOr (NAnd (NLic (s2l "MIT") false None) (NOr (NLic (s2l "Apache-2.0") false None) (NLic (s2l "GPL-2.0-only") false None)))
            (NLic (s2l "ISC") false None))
  /\ satisfies T0 (s2l "MIT AND (Apache-2.0 OR GPL-2.0-only) OR ISC") [s2l "MIT"; s2l "GPL-2.0+"] = Ok true
  /\ satisfies T0 (s2l "MIT OR LicenseRef-x") [s2l "LicenseRef-x"] = Ok true.
Proof. vm_compute. repeat split; reflexivity. Qed.

(* axioms the property theorems of this file depend on (one traversal for all of them) *)
Definition C01_theorems := (@C01_parser_is_grammar, @C01_parse_as_written, @C01_general, @C01, @C01_alternatives, @C01_expand_denotes_the_function, @C01_expand_keeps_every_leaf).
Redirect "assumptions/C01" Print Assumptions C01_theorems.
