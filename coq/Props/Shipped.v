(* The table hypotheses of the general theorems, discharged for the tables regenerated from /repo. *)
From Spdx Require Export Model.Api Spec.WF Spec.MatchSpec Gen.Tables Proofs.NodeInv Proofs.WFSound
  WF.Words WF.NoKeywordPrefix WF.FoldUnique WF.OrLaterBase.
Definition HT0 : license_lookup T0 [] = None := chk_words_lookup_nil T0 chk_words_shipped.
Definition Hnr0 : forall l, In l (lic_ids T0) -> no_ref_prefix l := chk_no_keyword_prefix_noref T0 chk_no_keyword_prefix_shipped.
