(* C06 - ExtractLicenses returns exactly the distinct terms of the expression. *)
From Spdx Require Import Props.Shipped Spec.Eval Spec.Units WF.Units Proofs.ApiFacts Proofs.Laws Proofs.MatchProof Proofs.Sat Proofs.RoundTrip Proofs.BytesFacts.
Local Open Scope list_scope.

(* without duplicates, precisely the canonical spellings of the leaves: none missing, none invented *)
Theorem C06_exact e t : parse T0 e = Ok t ->
  exists l, extract_licenses T0 e = Ok l /\ NoDup l /\ forall x, In x l <-> In x (map canon_str (tree_leaves t)).
Proof. exact (extract_exact T0 HT0 e t). Qed.

(* distinct terms have distinct spellings, so "distinct strings" is "distinct terms" *)
Theorem C06_canon_injective a b : leaf_ok T0 a -> leaf_ok T0 b -> canon a = canon b -> a = b.
Proof. intros Ha Hb. exact (canon_inj T0 a b Ha Hb Hnr0). Qed.

(* the terms of an expression, used as the allowed nodes, satisfy it (node level) *)
Theorem C06_leaves_satisfy t : tree_ok T0 t -> satisfied_by T0 t (tree_leaves t) = true.
Proof.
  intros Hok. rewrite satisfied_by_eval.
  assert (H : forall A, (forall x, In x (tree_leaves t) -> In x A) -> eval (fun x => existsb (compatible T0 x) A) t = true).
  { induction t as [l p e|d r|a IHa b IHb|a IHa b IHb]; intros A HA.
    - simpl. apply existsb_exists. exists (NLic l p e). split; [apply HA; left; reflexivity|].
      apply (compatible_refl T0 chk_fold_unique_shipped chk_orlater_base_ranged_shipped). exact Hok.
    - simpl. apply existsb_exists. exists (NRef d r). split; [apply HA; left; reflexivity|].
      apply (compatible_refl T0 chk_fold_unique_shipped chk_orlater_base_ranged_shipped). exact Hok.
    - destruct Hok as [Ha Hb]. simpl. rewrite IHa, IHb; auto; intros x Hx; apply HA; simpl; apply in_or_app; auto.
    - destruct Hok as [Ha Hb]. simpl. rewrite IHa; auto; intros x Hx; apply HA; simpl; apply in_or_app; auto. }
  apply H. auto.
Qed.

(* every returned string is itself a valid single-term expression: it parses back to the very term it was printed
   from, and extracts to itself *)
Theorem C06_round_trip s t n : parse T0 s = Ok t -> In n (tree_leaves t) ->
  parse T0 (canon_str n) = Ok n /\ extract_licenses T0 (canon_str n) = Ok [canon_str n].
Proof.
  intros H Hn.
  exact (extracted_terms_round_trip T0 HT0 chk_no_keyword_prefix_shipped chk_case_safe_shipped chk_fold_unique_shipped
           chk_deprec_no_orlater_shipped s t H n Hn).
Qed.

Lemma tree_leaves_nonempty t : tree_leaves t <> [].
Proof.
  induction t as [l p e|d r|a IHa b IHb|a IHa b IHb]; simpl; try discriminate;
    intros H; apply app_eq_nil in H; destruct H as [H _]; contradiction.
Qed.

(* using the returned list as the allowed list always satisfies the expression *)
Theorem C06_extracted_list_satisfies e t l : parse T0 e = Ok t -> extract_licenses T0 e = Ok l -> satisfies T0 e l = Ok true.
Proof.
  intros HP HE. destruct (extract_exact T0 HT0 e t HP) as [l' [HE' [_ Hin]]]. rewrite HE in HE'. inversion HE'; subst l'. clear HE'.
  assert (Hleaf : forall n, In n (tree_leaves t) -> parse T0 (canon_str n) = Ok n /\ is_leaf n = true).
  { intros n Hn. destruct (C06_round_trip e t n HP Hn) as [P _]. split; [assumption|].
    pose proof (tree_ok_leaves T0 t (parse_tree_ok T0 HT0 e t HP) n Hn) as L. destruct n; try contradiction; reflexivity. }
  assert (Hne : l <> []).
  { destruct (tree_leaves t) as [|n0 ls] eqn:EL.
    - exfalso. exact (tree_leaves_nonempty t EL).
    - intros ->. apply (proj2 (Hin (canon_str n0))). apply in_map. left. reflexivity. }
  assert (HF : Forall (entry_ok T0) l).
  { apply Forall_forall. intros x Hx. apply Hin in Hx. apply in_map_iff in Hx. destruct Hx as [n [<- Hn]].
    destruct (Hleaf n Hn) as [P L]. exists n. auto. }
  rewrite (satisfies_closed T0 HT0 Hnr0 e t l HP Hne HF). f_equal.
  assert (K : forall A, (forall n, In n (tree_leaves t) -> In n A) -> eval (fun x => existsb (compatible T0 x) A) t = true).
  { pose proof (parse_tree_ok T0 HT0 e t HP) as Hok. clear -Hok.
    induction t as [l0 p e0|d r|a IHa b IHb|a IHa b IHb]; intros A HA.
    - simpl. apply existsb_exists. exists (NLic l0 p e0). split; [apply HA; left; reflexivity|].
      apply (compatible_refl T0 chk_fold_unique_shipped chk_orlater_base_ranged_shipped). exact Hok.
    - simpl. apply existsb_exists. exists (NRef d r). split; [apply HA; left; reflexivity|].
      apply (compatible_refl T0 chk_fold_unique_shipped chk_orlater_base_ranged_shipped). exact Hok.
    - destruct Hok as [Ha Hb]. simpl. rewrite IHa, IHb; auto; intros x Hx; apply HA; simpl; apply in_or_app; auto.
    - destruct Hok as [Ha Hb]. simpl. rewrite IHa; auto; intros x Hx; apply HA; simpl; apply in_or_app; auto. }
  apply K. intros n Hn. apply in_map_iff. exists (canon_str n). split.
  - unfold pn. destruct (Hleaf n Hn) as [P _]. rewrite P. reflexivity.
  - apply Hin. apply in_map. assumption.
Qed.

Example C06_example :
  extract_licenses T0 (s2l "(mit AND GPL-2.0+) OR (MIT AND LicenseRef-x) OR gpl-2.0-or-later WITH bison-exception-2.2")
  = Ok [s2l "MIT"; s2l "GPL-2.0-or-later+"; s2l "LicenseRef-x"; s2l "GPL-2.0-or-later+ WITH Bison-exception-2.2"].
Proof. vm_compute. reflexivity. Qed.

(* axioms the property theorems of this file depend on (one traversal for all of them) *)
Definition C06_theorems := (@C06_exact, @C06_canon_injective, @C06_leaves_satisfy, @C06_round_trip, @C06_extracted_list_satisfies).
Redirect "assumptions/C06" Print Assumptions C06_theorems.
