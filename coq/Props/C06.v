(* C06 - ExtractLicenses returns exactly the distinct terms of the expression. *)
From Spdx Require Import Props.Shipped Spec.Eval Proofs.ApiFacts Proofs.Laws Proofs.MatchProof Proofs.Sat.
Local Open Scope list_scope.

(* without duplicates, precisely the canonical spellings of the leaves: none missing, none invented *)
Theorem C06_exact e t : parse T0 e = Ok t ->
  exists l, extract_licenses T0 e = Ok l /\ NoDup l /\ forall x, In x l <-> In x (map canon_str (tree_leaves t)).
Proof. exact (extract_exact T0 HT0 e t). Qed.

(* distinct terms have distinct spellings, so "distinct strings" is "distinct terms" *)
Theorem C06_canon_injective a b : leaf_ok T0 a -> leaf_ok T0 b -> canon a = canon b -> a = b.
Proof. intros Ha Hb. exact (canon_inj T0 a b Ha Hb Hnr0). Qed.

(* the terms of an expression, used as the allowed nodes, satisfy it (node level) *)
Theorem C06_leaves_satisfy t : tree_ok T0 t -> satisfied_by T0 t (tree_leaves t) = true.
Proof.
  intros Hok. rewrite satisfied_by_eval.
  assert (H : forall A, (forall x, In x (tree_leaves t) -> In x A) -> eval (fun x => existsb (compatible T0 x) A) t = true).
  { induction t as [l p e|d r|a IHa b IHb|a IHa b IHb]; intros A HA.
    - simpl. apply existsb_exists. exists (NLic l p e). split; [apply HA; left; reflexivity|].
      apply (compatible_refl T0 chk_fold_unique_shipped chk_orlater_base_ranged_shipped). exact Hok.
    - simpl. apply existsb_exists. exists (NRef d r). split; [apply HA; left; reflexivity|].
      apply (compatible_refl T0 chk_fold_unique_shipped chk_orlater_base_ranged_shipped). exact Hok.
    - destruct Hok as [Ha Hb]. simpl. rewrite IHa, IHb; auto; intros x Hx; apply HA; simpl; apply in_or_app; auto.
    - destruct Hok as [Ha Hb]. simpl. rewrite IHa; auto; intros x Hx; apply HA; simpl; apply in_or_app; auto. }
  apply H. auto.
Qed.

Example C06_example :
  extract_licenses T0 (s2l "(mit AND GPL-2.0+) OR (MIT AND LicenseRef-x) OR gpl-2.0-or-later WITH bison-exception-2.2")
  = Ok [s2l "MIT"; s2l "GPL-2.0-or-later+"; s2l "LicenseRef-x"; s2l "GPL-2.0-or-later+ WITH Bison-exception-2.2"].
Proof. vm_compute. reflexivity. Qed.

(* axioms the property theorems of this file depend on (one traversal for all of them) *)
Definition C06_theorems := (@C06_exact, @C06_canon_injective, @C06_leaves_satisfy).
Redirect "assumptions/C06" Print Assumptions C06_theorems.
