(* C12 - the shipped license tables are exactly what the SPDX source data says. *)
From Spdx Require Import Props.Shipped Spec.TablesSpec Spec.Grammar Gen.SpdxJson Gen.Files Gen.Template
  WF.JsonPartition WF.FilesRegenerate WF.IdsParse Proofs.ExcGuard Proofs.ParseGrammar Proofs.MatchProof Proofs.TablesSound Proofs.FoldUnique.
Local Open Scope list_scope.

(* every non-deprecated license id is active, every deprecated one deprecated, every non-deprecated exception id
   an exception, nothing else, in file order (finite obligation on the regenerated data) *)
Theorem C12_lists_are_the_json_partition :
  licenses = gen_active json_licenses /\ deprecated = gen_deprecated json_licenses /\ exceptions = gen_exceptions json_exceptions.
Proof. exact (chk_json_partition_sound _ _ _ _ _ chk_json_partition_shipped). Qed.

(* re-running the (modelled) generator reproduces the committed files byte for byte; the layout strings tpl_* are
   observed from the real generator by the translator (0, 1 and 2 ids) and checked on further synthetic JSON by the tie *)
Theorem C12_files_regenerate :
  gen_licenses_file tpl_licenses json_licenses = file_get_licenses /\
  gen_deprecated_file tpl_deprecated json_licenses = file_get_deprecated /\
  gen_exceptions_file tpl_exceptions json_exceptions = file_get_exceptions.
Proof. exact (chk_files_regenerate_sound _ _ _ _ _ _ _ _ chk_files_regenerate_shipped). Qed.

(* pairwise disjoint, no two ids equal up to letter case: no id occurs twice in active ++ deprecated ++ exceptions, two
   POSITIONS never hold ids that are equal up to case, and ids of different lists are not equal even up to case *)
Theorem C12_disjoint_fold_unique :
  NoDup (active T0 ++ deprec T0 ++ excs T0) /\
  (forall i j x y, nth_error (all_ids T0) i = Some x -> nth_error (all_ids T0) j = Some y -> fold_eqb x y = true -> i = j) /\
  (forall x y, In x (active T0) -> In y (deprec T0) -> fold_eqb x y = false) /\
  (forall x y, In x (active T0) -> In y (excs T0) -> fold_eqb x y = false) /\
  (forall x y, In x (deprec T0) -> In y (excs T0) -> fold_eqb x y = false).
Proof. exact (fold_unique_lists T0 chk_fold_unique_shipped). Qed.

(* every listed license id is a one-term expression; every exception id is accepted after WITH, not alone *)
Theorem C12_ids_parse :
  (forall id, In id (active T0 ++ deprec T0) -> exists l p e, parse T0 id = Ok (NLic l p e)) /\
  (forall x, In x (excs T0) -> (exists n, parse T0 (s2l "MIT WITH " ++ x) = Ok n) /\ forall n, parse T0 x <> Ok n).
Proof. exact (chk_ids_parse_sound T0 chk_ids_parse_shipped). Qed.

(* ... and nowhere else: in ANY accepted token sequence an exception token sits directly after WITH *)
Theorem C12_exception_only_after_with ts n : p_tokens ts = Ok n -> guarded false ts = true.
Proof. intros H. apply parse_sound_complete in H. exact (exception_only_after_with ts n H). Qed.

(* axioms the property theorems of this file depend on (one traversal for all of them) *)
Definition C12_theorems := (@C12_lists_are_the_json_partition, @C12_files_regenerate, @C12_disjoint_fold_unique, @C12_ids_parse, @C12_exception_only_after_with).
Redirect "assumptions/C12" Print Assumptions C12_theorems.
