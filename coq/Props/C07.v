(* C07 - the allowed list behaves as a set and the verdict is monotone in it. *)
From Coq Require Import Permutation.
From Spdx Require Import Props.Shipped Proofs.Laws Proofs.Respell.
Local Open Scope list_scope.

(* observable = Some verdict | None (an error was returned) *)
Theorem C07_reorder e A A' : Permutation A A' -> obs (satisfies T0 e A) = obs (satisfies T0 e A').
Proof. exact (sat_perm T0 HT0 Hnr0 e A A'). Qed.
Theorem C07_repeat e a A : obs (satisfies T0 e (a :: a :: A)) = obs (satisfies T0 e (a :: A)).
Proof. exact (sat_dup T0 HT0 Hnr0 e a A). Qed.
(* any two spellings that denote the same node (letter case of a listed id, spaces, parentheses) *)
Theorem C07_respell e A1 a a' A2 : entry_ok T0 a -> entry_ok T0 a' -> pn T0 a = pn T0 a' ->
  obs (satisfies T0 e (A1 ++ a :: A2)) = obs (satisfies T0 e (A1 ++ a' :: A2)).
Proof. exact (sat_respell T0 HT0 Hnr0 e A1 a a' A2). Qed.
Theorem C07_same_set e A A' : A <> [] -> A' <> [] -> Forall (entry_ok T0) A -> Forall (entry_ok T0) A' ->
  (forall n, In n (map (pn T0) A) <-> In n (map (pn T0) A')) -> satisfies T0 e A = satisfies T0 e A'.
Proof. exact (sat_same_set T0 HT0 Hnr0 e A A'). Qed.
Theorem C07_monotone e A B : satisfies T0 e A = Ok true -> Forall (entry_ok T0) B ->
  satisfies T0 e (A ++ B) = Ok true /\ satisfies T0 e (B ++ A) = Ok true.
Proof. exact (sat_mono T0 HT0 Hnr0 e A B). Qed.


(* the re-spellings named by the property denote the same node: surrounding spaces, redundant parentheses
   (letter case of a listed id: C09) - for arbitrary entries, by compositionality of tokenisation *)
Theorem C07_spaces_and_parentheses a sp1 sp2 :
  Forall (fun ch => is_space ch = true) sp1 -> Forall (fun ch => is_space ch = true) sp2 -> entry_ok T0 a ->
  (entry_ok T0 (sp1 ++ a ++ sp2) /\ pn T0 (sp1 ++ a ++ sp2) = pn T0 a) /\
  (entry_ok T0 ("("%char :: a ++ [")"%char]) /\ pn T0 ("("%char :: a ++ [")"%char]) = pn T0 a).
Proof.
  intros F1 F2 [n [HP HL]]. split.
  - pose proof (parse_pad T0 HT0 a n sp1 sp2 F1 F2 HP) as H. split; [exists n; auto|]. unfold pn. rewrite H, HP. reflexivity.
  - pose proof (parse_parens T0 HT0 a n HP) as H. split; [exists n; auto|]. unfold pn. rewrite H, HP. reflexivity.
Qed.

Example C07_example :
  pn T0 (s2l "  ( gpl-2.0+ ) ") = pn T0 (s2l "GPL-2.0-or-later") /\ entry_ok T0 (s2l "  ( gpl-2.0+ ) ")
  /\ satisfies T0 (s2l "GPL-3.0-only") [s2l "Zlib"; s2l "GPL-2.0-only"; s2l "GPL-2.0-or-later"; s2l "Zlib"] = Ok true.
Proof. vm_compute. repeat split. eexists. split; reflexivity. Qed.

(* axioms the property theorems of this file depend on (one traversal for all of them) *)
Definition C07_theorems := (@C07_reorder, @C07_repeat, @C07_respell, @C07_same_set, @C07_monotone, @C07_spaces_and_parentheses).
Redirect "assumptions/C07" Print Assumptions C07_theorems.
