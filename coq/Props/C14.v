(* C14 (partial) - cost is polynomial.  Proved on the model: the sizes of every intermediate structure are linear
   in the text, the parser makes at most 3|text|+3 calls, and the evaluator's work (matcher calls + node visits)
   is at most |text| * |allowed| + |text|;
   the leaf walk of ExtractLicenses visits every node once.  The allocator, regexp compilation and the table
   scans inside one matcher call (a constant given the shipped tables) are measured on the code, not proved. *)
From Coq Require Import Lia.
From Spdx Require Import Props.Shipped Model.Ticks Spec.Lex Proofs.ScanRef Proofs.Cost Proofs.ParseGrammar Proofs.ParseCost Model.ParseStack Model.ParseStackTicks Proofs.ParseStackCost Model.ScanTicks Proofs.ScanCost.
Local Open Scope list_scope.

Theorem C14_sizes e t : parse T0 e = Ok t -> tree_size t <= length e /\ leaf_count t <= length e.
Proof.
  unfold parse. destruct e as [|c e']; [discriminate|]. rewrite (scan_refines T0 HT0).
  destruct (ref_tokens T0 (c :: e')) as [ts|er| |] eqn:E; try discriminate.
  intros H. apply tree_size_le_tokens in H. apply (tokens_le_bytes T0 HT0) in E. lia.
Qed.

Theorem C14_evaluator_linear e t N : parse T0 e = Ok t ->
  fst (satisfied_by_t T0 t N) = satisfied_by T0 t N /\
  snd (satisfied_by_t T0 t N) <= length e * length N + length e.
Proof.
  intros H. split; [apply satisfied_by_t_erasure|].
  pose proof (satisfied_by_t_cost T0 t N). destruct (C14_sizes e t H) as [H1 H2].
  assert (leaf_count t * length N <= length e * length N) by (apply Nat.mul_le_mono_r; assumption). lia.
Qed.

Theorem C14_leaf_walk_linear e t : parse T0 e = Ok t ->
  fst (leaves_t t []) = leaves t [] /\ snd (leaves_t t []) <= length e.
Proof.
  intros H. split; [apply leaves_t_erasure|]. rewrite leaves_t_cost. apply (C14_sizes e t H).
Qed.

(* the recursive-descent parser makes at most 3 calls per token plus 3 (no backtracking, no re-parsing), and a text
   has at most as many tokens as bytes *)
Theorem C14_parser_linear e ts : ref_tokens T0 e = Ok ts ->
  fst (p_expr_t (3 * length ts + 3) ts) = p_expr (3 * length ts + 3) ts /\
  snd (p_expr_t (3 * length ts + 3) ts) <= 3 * length e + 3.
Proof.
  intros H. destruct (parser_calls_linear ts) as [E K]. split; [assumption|].
  pose proof (tokens_le_bytes T0 HT0 e ts H). lia.
Qed.

(* the parser AS IT IS WRITTEN (stack of operand groups; Model/ParseStack.v, cost twin Model/ParseStackTicks.v): phase
   steps + appends + the loop of every joinOperands together are at most 5 per token plus 3 - each operand is joined
   once, so closing a group does not re-walk what earlier closes have already chained (no quadratic re-joining) *)
Theorem C14_parser_as_written_linear e ts : ref_tokens T0 e = Ok ts ->
  fst (runA_t (S (length ts)) [] g0 ts) = runA (S (length ts)) [] g0 ts /\
  snd (runA_t (S (length ts)) [] g0 ts) <= 5 * length e + 3.
Proof.
  intros H. destruct (stack_parser_linear ts) as [E K]. split; [assumption|].
  pose proof (tokens_le_bytes T0 HT0 e ts H). lia.
Qed.

Example C14_parser_as_written_example :
  let ts := [TOp OLp; TLic (s2l "MIT"); TOp OOr; TLic (s2l "ISC"); TOp ORp; TOp OAnd; TLic (s2l "Zlib")] in
  snd (runA_t (S (length ts)) [] g0 ts) = 22 /\ 5 * length ts + 3 = 38.
Proof. vm_compute. split; reflexivity. Qed.

(* the scanner: its one super-linear step is the rebuild of the whole buffer whenever an X-or-later is rewritten to X+.
   One token never makes the buffer longer (a rewrite removes nine bytes and inserts one), so all rebuilds of one
   scan together copy at most |text| bytes per loop iteration: (|text|+1)^2 with the iterations themselves - quadratic,
   never more (Model/ScanTicks.v counts the bytes of every rebuilt buffer along the control path of the scanner) *)
Theorem C14_scanner_buffer_never_grows z t z' : ztoken T0 z = Ok (t, z') -> blen z' <= blen z.
Proof. exact (ztoken_blen T0 z t z'). Qed.
Theorem C14_scanner_rebuilds_quadratic s :
  zscan_ticks T0 (S (length s)) {| zb := []; zr := s; zshift := 0 |} <= (length s + 1) * (length s + 1).
Proof. exact (scan_ticks_quadratic T0 s). Qed.
Example C14_scanner_example :
  zscan_ticks T0 38 {| zb := []; zr := s2l "Apache-2.0-or-later AND MIT-or-later"; zshift := 0 |} = 6 + 28 + 20.   (* six loop iterations (id, +, AND, id, +, end) and two rebuilt buffers of 36-8 and 36-16 bytes *)
Proof. vm_compute. reflexivity. Qed.

(* the loops that are not structurally recursive run within their fuel: |text|+1 scanner iterations,
   recursion depth 3*|tokens|+3 in the parser (C03_scanner, C03_parser) *)

Example C14_example :
  snd (satisfied_by_t T0 (NAnd (NOr (NLic (s2l "MIT") false None) (NLic (s2l "ISC") false None))
                               (NOr (NLic (s2l "MIT") false None) (NLic (s2l "ISC") false None)))
                      [NLic (s2l "Apache-2.0") false None]) = 4.
Proof. vm_compute. reflexivity. Qed.

Definition C14_theorems := (@C14_sizes, @C14_evaluator_linear, @C14_leaf_walk_linear, @C14_parser_linear, @C14_parser_as_written_linear, @C14_scanner_buffer_never_grows, @C14_scanner_rebuilds_quadratic).
Redirect "assumptions/C14" Print Assumptions C14_theorems.
