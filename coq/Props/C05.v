(* C05 - the accepted language is exactly the documented grammar over the reference tokenisation. *)
From Spdx Require Import Props.Shipped Spec.Lex Spec.Grammar Spec.Reject Proofs.ScanRef Proofs.ParseGrammar Proofs.ApiFacts Proofs.RejectProof Proofs.Unknown Proofs.IdWords Model.ParseStack Proofs.ParseStack.
Local Open Scope list_scope.

(* the scanner of scan.go, with its buffer rewriting and look-behind, is the reference tokeniser *)
Theorem C05_scanner_general T : chk_words T = true -> forall s, scan T s = ref_tokens T s.
Proof. intros H. exact (scan_refines T (chk_words_lookup_nil T H)). Qed.

(* a string is accepted, with tree t, iff its reference tokenisation derives t in the grammar *)
Theorem C05 s t : parse T0 s = Ok t <-> exists ts, ref_tokens T0 s = Ok ts /\ d_expr ts t.
Proof.
  unfold parse. split.
  - destruct s as [|c s']; [discriminate|]. rewrite (scan_refines T0 HT0).
    destruct (ref_tokens T0 (c :: s')) as [ts|e| |]; try discriminate.
    intros H. exists ts. split; [reflexivity|]. apply parse_sound_complete. assumption.
  - intros [ts [Hs Hd]]. destruct s as [|c s'].
    + unfold ref_tokens in Hs. simpl in Hs. inversion Hs; subst. exfalso.
      destruct d_nonempty as [_ [_ Ne]]. exact (Ne _ _ Hd eq_refl).
    + rewrite (scan_refines T0 HT0), Hs. apply parse_sound_complete. assumption.
Qed.

(* "Everything else is rejected", exactly: a string is accepted iff its reference tokenisation passes the shape test of
   Spec/Reject.v - it starts with a token that can start a term and ends with one that can end a term (no dangling
   operator), every adjacent pair of tokens is one of the listed ones, and parentheses are balanced.  The derivable
   sequences are exactly those (Proofs/RejectProof.v: both directions, any length). *)
Theorem C05_accepted_iff_shape s : validb T0 s = true <-> exists ts, ref_tokens T0 s = Ok ts /\ shape_ok ts = true.
Proof.
  rewrite (validb_true T0). split.
  - intros [t H]. apply C05 in H. destruct H as [ts [Hs Hd]]. exists ts. split; [assumption|]. exact (derivable_shape ts t Hd).
  - intros [ts [Hs Hk]]. destruct (shape_derivable ts Hk) as [t Hd]. exists t. apply C05. exists ts. split; assumption.
Qed.

(* the same at the level of token lists, for the parser of parse.go alone: it accepts exactly the lists that pass *)
Theorem C05_parser_accepts_iff_shape ts : (exists t, p_tokens ts = Ok t) <-> shape_ok ts = true.
Proof.
  rewrite <- derivable_iff_shape. split; intros [t H]; exists t; apply parse_sound_complete; assumption.
Qed.

(* the named classes: each makes the shape test fail, hence the string invalid, wherever it occurs *)
Theorem C05_rejected_bad_pair s u a b v : ref_tokens T0 s = Ok (u ++ a :: b :: v) -> adj_ok a b = false -> validb T0 s = false.
Proof.
  intros Hs Hab. destruct (validb T0 s) eqn:V; [|reflexivity]. apply C05_accepted_iff_shape in V.
  destruct V as [ts [Hs' Hk]]. rewrite Hs in Hs'. inversion Hs'; subst. rewrite (shape_bad_pair u a b v Hab) in Hk. discriminate.
Qed.
Theorem C05_rejected_bad_first s a ts : ref_tokens T0 s = Ok (a :: ts) -> starts_term a = false -> validb T0 s = false.
Proof.
  intros Hs Ha. destruct (validb T0 s) eqn:V; [|reflexivity]. apply C05_accepted_iff_shape in V.
  destruct V as [ts' [Hs' Hk]]. rewrite Hs in Hs'. inversion Hs'; subst. rewrite (shape_bad_first a ts Ha) in Hk. discriminate.
Qed.
Theorem C05_rejected_bad_last s ts z : ref_tokens T0 s = Ok (ts ++ [z]) -> ends_term z = false -> validb T0 s = false.
Proof.
  intros Hs Hz. destruct (validb T0 s) eqn:V; [|reflexivity]. apply C05_accepted_iff_shape in V.
  destruct V as [ts' [Hs' Hk]]. rewrite Hs in Hs'. inversion Hs'; subst. rewrite (shape_bad_last ts z Hz) in Hk. discriminate.
Qed.
Theorem C05_rejected_unbalanced s ts : ref_tokens T0 s = Ok ts -> bal 0 ts <> Some 0 -> validb T0 s = false.
Proof.
  intros Hs Hb. destruct (validb T0 s) eqn:V; [|reflexivity]. apply C05_accepted_iff_shape in V.
  destruct V as [ts' [Hs' Hk]]. rewrite Hs in Hs'. inversion Hs'; subst. rewrite (shape_unbalanced ts' Hb) in Hk. discriminate.
Qed.
(* which pairs / first / last tokens are bad: doubled operators, adjacent terms, "()", WITH without an exception, an
   exception without WITH, + or WITH on a LicenseRef, DocumentRef without ":LicenseRef-", dangling operators *)
Theorem C05_named_classes :
  (forall o o', In o [OAnd; OOr; OWith; OColon] -> In o' [OAnd; OOr; OWith; OColon; ORp; OPlus] -> adj_ok (TOp o) (TOp o') = false) /\
  (forall a b, ends_term a = true -> starts_term b = true -> adj_ok a b = false) /\
  adj_ok (TOp OLp) (TOp ORp) = false /\
  (forall b, (forall e, b <> TExc e) -> adj_ok (TOp OWith) b = false) /\
  (forall a e, a <> TOp OWith -> adj_ok a (TExc e) = false) /\
  (forall x, adj_ok (TRef x) (TOp OPlus) = false /\ adj_ok (TRef x) (TOp OWith) = false) /\
  (forall a, (forall l, a <> TLic l) -> adj_ok a (TOp OPlus) = false) /\
  (forall d b, b <> TOp OColon -> adj_ok (TDoc d) b = false) /\
  (forall b, (forall x, b <> TRef x) -> adj_ok (TOp OColon) b = false) /\
  (forall a, (forall d, a <> TDoc d) -> adj_ok a (TOp OColon) = false) /\
  (forall o, o <> OLp -> starts_term (TOp o) = false) /\ (forall e, starts_term (TExc e) = false) /\
  (forall o, o <> ORp -> o <> OPlus -> ends_term (TOp o) = false) /\ (forall d, ends_term (TDoc d) = false).
Proof. exact class_facts. Qed.
(* the hypotheses are met: one string per class, tokenised by the reference tokeniser and rejected *)
Example C05_classes_nonvacuous :
  map (fun s => match ref_tokens T0 (s2l s) with Ok ts => Some (shape_ok ts) | _ => None end)
      ["MIT AND OR ISC"; "MIT ISC"; "()"; "MIT WITH ISC"; "MIT AND Bison-exception-2.2"; "LicenseRef-a+"; "LicenseRef-a WITH Bison-exception-2.2";
       "DocumentRef-a AND MIT"; "AND MIT"; "MIT OR"; "(MIT"; "MIT)"; "(MIT OR ISC) AND (Apache-2.0+ WITH Bison-exception-2.2 OR DocumentRef-a:LicenseRef-b)"]%string
  = [Some false; Some false; Some false; Some false; Some false; Some false; Some false; Some false; Some false; Some false; Some false; Some false; Some true].
Proof. vm_compute. reflexivity. Qed.

(* which words are license / exception ids, in the words of the property and independently of the lookup cascade: on the
   lists up to letter case; such an id with the documented -only / -or-later suffix; before a '+', the base of a listed
   X-or-later id; a deprecated id.  (The reference tokeniser and the model of scan.go share `classify`; this theorem is
   what `classify` means.) *)
Theorem C05_id_words w next_plus : classify T0 w next_plus <> NUnknown <-> id_word T0 w next_plus.
Proof. exact (classify_known_iff T0 w next_plus). Qed.

(* "unknown ids": a word that no lookup rule recognises makes the text invalid, at the start, after a space or after "(" *)
Lemma invalid_of_ref_err s e : ref_tokens T0 s = Err e -> validb T0 s = false.
Proof.
  intros H. destruct (validb T0 s) eqn:V; [|reflexivity]. apply C05_accepted_iff_shape in V. destruct V as [ts [Hs _]].
  rewrite H in Hs. discriminate.
Qed.
Theorem C05_unknown_ids_rejected :
  (forall sp w b, unknown_word T0 w b -> Forall (fun c => is_space c = true) sp -> validb T0 (sp ++ w ++ b) = false) /\
  (forall a sp w b ts, ref_tokens T0 a = Ok ts -> unknown_word T0 w b -> Forall (fun c => is_space c = true) sp ->
     validb T0 (a ++ " "%char :: sp ++ w ++ b) = false /\ validb T0 (a ++ "("%char :: sp ++ w ++ b) = false).
Proof.
  split.
  - intros sp w b U Fs. exact (invalid_of_ref_err _ _ (unknown_word_first T0 HT0 sp w b U Fs)).
  - intros a sp w b ts Ha U Fs. split.
    + exact (invalid_of_ref_err _ _ (unknown_word_after_space T0 HT0 a sp w b ts Ha U Fs)).
    + exact (invalid_of_ref_err _ _ (unknown_word_after_paren T0 HT0 a sp w b ts Ha U Fs)).
Qed.

(* named rejection classes, as instances of "no derivation" *)
Example C05_examples :
  map (validb T0) [s2l "(Apache-2.0-or-later)"; s2l "DocumentRef-a:LicenseRef-b"; s2l "GPL-2.0++"; s2l "MIT-only"; s2l "mit"] = [true; true; true; true; true]
  /\ map (validb T0)
       [s2l "Apache-2.0-or-later)"; s2l "MIT and ISC"; s2l "MIT OR"; s2l "MIT AND AND ISC"; s2l "MIT ISC"; s2l "(MIT"; s2l "()"; s2l "MIT WITH";
        s2l "Bison-exception-2.2"; s2l "LicenseRef-a+"; s2l "LicenseRef-a WITH Bison-exception-2.2"; s2l "DocumentRef-a"; s2l "MIT +"; s2l "FOO";
        s2l "Apache-2.0++"; s2l "Apache-2.0-or-later+"]
     = repeat false 16.
Proof. vm_compute. split; reflexivity. Qed.

(* the parser AS IT IS WRITTEN (stack of operand groups, no recursion per parenthesis level; Model/ParseStack.v) accepts
   exactly the derivable token sequences and builds exactly the derivation's tree: precedence of AND over OR, grouping
   by parentheses and right-leaning chains are those of the grammar, for any length and nesting depth *)
Theorem C05_parser_as_written ts t : ps_tokens ts = Ok t <-> d_expr ts t.
Proof. exact (stack_is_grammar ts t). Qed.

(* axioms the property theorems of this file depend on (one traversal for all of them) *)
Definition C05_theorems := (@C05_scanner_general, @C05, @C05_accepted_iff_shape, @C05_parser_accepts_iff_shape, @C05_rejected_bad_pair, @C05_rejected_bad_first, @C05_rejected_bad_last, @C05_rejected_unbalanced, @C05_named_classes, @C05_id_words, @C05_unknown_ids_rejected, @C05_parser_as_written).
Redirect "assumptions/C05" Print Assumptions C05_theorems.
