(* C05 - the accepted language is exactly the documented grammar over the reference tokenisation. *)
From Spdx Require Import Props.Shipped Spec.Lex Spec.Grammar Proofs.ScanRef Proofs.ParseGrammar Proofs.ApiFacts.
Local Open Scope list_scope.

(* the scanner of scan.go, with its buffer rewriting and look-behind, is the reference tokeniser *)
Theorem C05_scanner_general T : chk_words T = true -> forall s, scan T s = ref_tokens T s.
Proof. intros H. exact (scan_refines T (chk_words_lookup_nil T H)). Qed.

(* a string is accepted, with tree t, iff its reference tokenisation derives t in the grammar *)
Theorem C05 s t : parse T0 s = Ok t <-> exists ts, ref_tokens T0 s = Ok ts /\ d_expr ts t.
Proof.
  unfold parse. split.
  - destruct s as [|c s']; [discriminate|]. rewrite (scan_refines T0 HT0).
    destruct (ref_tokens T0 (c :: s')) as [ts|e| |]; try discriminate.
    intros H. exists ts. split; [reflexivity|]. apply parse_sound_complete. assumption.
  - intros [ts [Hs Hd]]. destruct s as [|c s'].
    + unfold ref_tokens in Hs. simpl in Hs. inversion Hs; subst. exfalso.
      destruct d_nonempty as [_ [_ Ne]]. exact (Ne _ _ Hd eq_refl).
    + rewrite (scan_refines T0 HT0), Hs. apply parse_sound_complete. assumption.
Qed.

(* named rejection classes, as instances of "no derivation" *)
Example C05_examples :
  map (validb T0) [s2l "(Apache-2.0-or-later)"; s2l "DocumentRef-a:LicenseRef-b"; s2l "GPL-2.0++"; s2l "MIT-only"; s2l "mit"] = [true; true; true; true; true]
  /\ map (validb T0)
       [s2l "Apache-2.0-or-later)"; s2l "MIT and ISC"; s2l "MIT OR"; s2l "MIT AND AND ISC"; s2l "MIT ISC"; s2l "(MIT"; s2l "()"; s2l "MIT WITH";
        s2l "Bison-exception-2.2"; s2l "LicenseRef-a+"; s2l "LicenseRef-a WITH Bison-exception-2.2"; s2l "DocumentRef-a"; s2l "MIT +"; s2l "FOO";
        s2l "Apache-2.0++"; s2l "Apache-2.0-or-later+"]
     = repeat false 16.
Proof. vm_compute. split; reflexivity. Qed.

(* axioms the property theorems of this file depend on (one traversal for all of them) *)
Definition C05_theorems := (@C05_scanner_general, @C05).
Redirect "assumptions/C05" Print Assumptions C05_theorems.
