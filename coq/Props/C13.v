(* C13 (partial) - calls are pure.  What a model can carry: the model that passes the correspondence check is
   stateless, results are functions of the call, arguments come back unchanged.  Data races, hidden caches and
   writes to stdout/stderr live in the Go runtime: they are observed by the harness (race detector, argument
   snapshots, redirected descriptors), not proved. *)
From Spdx Require Import Props.Shipped Model.ApiHist Proofs.Purity.
Local Open Scope list_scope.

Theorem C13_arguments_unchanged c : snd (run T0 c) = c.
Proof. exact (run_keeps_arguments T0 c). Qed.
Theorem C13_history_independent h1 c h2 : nth_error (exec T0 (h1 ++ c :: h2)) (length h1) = Some (run T0 c).
Proof. exact (history_independent T0 h1 c h2). Qed.
Theorem C13_equal_calls_equal_results h i j c r1 r2 :
  nth_error h i = Some c -> nth_error h j = Some c ->
  nth_error (exec T0 h) i = Some r1 -> nth_error (exec T0 h) j = Some r2 -> r1 = r2.
Proof. exact (equal_calls_equal_results T0 h i j c r1 r2). Qed.
Theorem C13_any_order h c : In c h -> In (run T0 c) (exec T0 h).
Proof. exact (reordering_irrelevant T0 h c). Qed.

Example C13_example :
  exec T0 [CSatisfies (s2l "MIT") [s2l "Zlib"; s2l "MIT"; s2l "Zlib"]; CExtract (s2l "MIT AND mit"); CSatisfies (s2l "MIT") [s2l "Zlib"; s2l "MIT"; s2l "Zlib"]]
  = [(RSatisfies (Ok true), CSatisfies (s2l "MIT") [s2l "Zlib"; s2l "MIT"; s2l "Zlib"]); (RExtract (Ok [s2l "MIT"]), CExtract (s2l "MIT AND mit"));
     (RSatisfies (Ok true), CSatisfies (s2l "MIT") [s2l "Zlib"; s2l "MIT"; s2l "Zlib"])].
Proof. vm_compute. reflexivity. Qed.

Definition C13_theorems := (@C13_arguments_unchanged, @C13_history_independent, @C13_equal_calls_equal_results, @C13_any_order).
Redirect "assumptions/C13" Print Assumptions C13_theorems.
