(* C08 - equivalent spellings of a license are interchangeable.
   Proved: (i) over the shipped lists (finite): for every active id X all four spellings are valid, X+ and
   X-or-later denote the same node, X and X-only denote the same node or nodes the matcher cannot tell apart
   against any table entry; likewise for deprecated ids whenever both spellings are valid;
   (ii) for every tree and every allowed list: replacing a leaf / an allowed node by the same node or an
   indistinguishable one changes nothing.
   (iii) in every textual context (Proofs/Split.v, Proofs/SameParse.v): X+ / X-or-later, and X / X-only when X-only
   is not itself listed, give the same tokens, hence the same parse outcome, hence the same API results.
   (iv) for the listed -only ids (the GNU families) X and X-only are different ids at one table position: the
   matcher cannot tell them apart (Proofs/OnlyPairs.v, from C02 + chk_only_pairs) and the parser is parametric in id
   texts (Proofs/ParseRel.v), so the replacement at any term position of any text keeps validity and verdict. *)
From Spdx Require Import Props.Shipped Spec.Spellings Spec.Units WF.Spellings WF.Units Proofs.Congruence Proofs.BytesFacts Proofs.MatchProof Proofs.Split Proofs.SameParse Proofs.Laws Proofs.ApiFacts Proofs.OnlyPairs Proofs.ParseRel.
Local Open Scope list_scope.

Theorem C08_active_spellings x : In x (active T0) ->
  exists n n1 n2, parse T0 x = Ok n /\ parse T0 (x ++ k_only) = Ok n1 /\
                  parse T0 (x ++ plus) = Ok n2 /\ parse T0 (x ++ k_orlater) = Ok n2.
Proof. exact (chk_active_spellings_sound T0 chk_active_spellings_shipped x). Qed.

Theorem C08_substitute_in_expression a b eqb t N :
  (forall x, eqb x a = true -> x = a) -> is_leaf b = true -> indistinguishable T0 a b ->
  satisfied_by T0 (subst_leaf a b t eqb) N = satisfied_by T0 t N.
Proof. exact (subst_in_expression T0 a b eqb t N). Qed.
Theorem C08_substitute_in_allowed a b t N1 N2 : indistinguishable T0 a b ->
  satisfied_by T0 t (N1 ++ a :: N2) = satisfied_by T0 t (N1 ++ b :: N2).
Proof. exact (subst_in_allowed T0 a b t N1 N2). Qed.

Theorem C08_shipped_lists : chk_active_spellings T0 = true /\ chk_deprecated_spellings T0 = true.
Proof. exact (conj chk_active_spellings_shipped chk_deprecated_spellings_shipped). Qed.

(* X+ and X-or-later at any term position of any text (expression or allowed entry), with or without WITH:
   q is empty or starts with a non-id byte other than '+' (a further '+' makes a different term); p is empty or
   ends in a non-id byte *)
Theorem C08_plus_orlater x p q :
  In x (lic_ids T0) -> is_word x = true -> validb T0 (x ++ plus) = true -> validb T0 (x ++ k_orlater) = true ->
  (q = [] \/ exists c q', q = c :: q' /\ is_idchar c = false /\ c <> "+"%char) ->
  (p = [] \/ exists p' c1, p = p' ++ [c1] /\ boundary p' c1) ->
  same_parse T0 (p ++ (x ++ plus) ++ q) (p ++ (x ++ k_orlater) ++ q).
Proof. exact (plus_orlater_anywhere T0 HT0 chk_unit_tokens_shipped x p q). Qed.

(* X and X-only where X-only is not itself a listed id (it normalises to X): same tokens in every context *)
Theorem C08_only_unlisted x p q :
  In x (lic_ids T0) -> is_word x = true -> validb T0 x = true -> validb T0 (x ++ k_only) = true ->
  existsb (fold_eqb (x ++ k_only)) (lic_ids T0) = false ->
  (q = [] \/ exists c q', q = c :: q' /\ boundary x c /\ boundary (x ++ k_only) c) ->
  (p = [] \/ exists p' c1, p = p' ++ [c1] /\ boundary p' c1) ->
  same_parse T0 (p ++ x ++ q) (p ++ (x ++ k_only) ++ q).
Proof. exact (only_unlisted_anywhere T0 HT0 chk_unit_tokens_shipped x p q). Qed.

(* X and X-only where X-only IS a listed id (the GNU families): different ids at one table position.  At any term
   position of any text - followed by nothing or by a non-id byte other than '+' (e.g. " WITH e", ")", " AND ...") -
   replacing one by the other changes neither validity nor the result of Satisfies, as expression or allowed entry. *)
Theorem C08_only_listed x y p q A : only_pair T0 x y -> context_ok x p q ->
  validb T0 (p ++ x ++ q) = validb T0 (p ++ y ++ q) /\
  obs (satisfies T0 (p ++ x ++ q) A) = obs (satisfies T0 (p ++ y ++ q) A).
Proof.
  intros H C. split.
  - exact (only_listed_valid T0 HT0 chk_only_pairs_shipped x y p q H C).
  - exact (only_listed_expression T0 HT0 Hnr0 chk_fold_unique_shipped chk_orlater_base_ranged_shipped chk_only_pairs_shipped x y p q A H C).
Qed.
Theorem C08_only_listed_allowed x y q e A1 A2 : only_pair T0 x y -> context_ok x [] q ->
  obs (satisfies T0 e (A1 ++ (x ++ q) :: A2)) = obs (satisfies T0 e (A1 ++ (y ++ q) :: A2)).
Proof. exact (only_listed_allowed T0 HT0 Hnr0 chk_fold_unique_shipped chk_orlater_base_ranged_shipped chk_only_pairs_shipped x y q e A1 A2). Qed.

Theorem C08_interchangeable s s' : same_parse T0 s s' ->
  validb T0 s = validb T0 s' /\
  (forall A, obs (satisfies T0 s A) = obs (satisfies T0 s' A)) /\
  (forall e A1 A2, obs (satisfies T0 e (A1 ++ s :: A2)) = obs (satisfies T0 e (A1 ++ s' :: A2))).
Proof.
  intros H. split; [apply (same_parse_valid T0 HT0); assumption|]. split; [intros A; apply (same_parse_expression T0 HT0); assumption|].
  intros e A1 A2; apply (same_parse_allowed T0 HT0 Hnr0); assumption.
Qed.

Example C08_example :
  parse T0 (s2l "GPL-2.0+ WITH Classpath-exception-2.0") = parse T0 (s2l "GPL-2.0-or-later WITH Classpath-exception-2.0")
  /\ satisfies T0 (s2l "AGPL-1.0") [s2l "AGPL-1.0-only"] = Ok true /\ satisfies T0 (s2l "GPL-2.0") [s2l "GPL-2.0-only"] = Ok true.
Proof. vm_compute. repeat split; reflexivity. Qed.

Definition C08_theorems := (@C08_active_spellings, @C08_substitute_in_expression, @C08_substitute_in_allowed, @C08_shipped_lists, @C08_plus_orlater, @C08_only_unlisted, @C08_interchangeable, @C08_only_listed, @C08_only_listed_allowed).
Redirect "assumptions/C08" Print Assumptions C08_theorems.
