(* C08 - equivalent spellings of a license are interchangeable.
   Proved: (i) over the shipped lists (finite): for every active id X all four spellings are valid, X+ and
   X-or-later denote the same node, X and X-only denote the same node or nodes the matcher cannot tell apart
   against any table entry; likewise for deprecated ids whenever both spellings are valid;
   (ii) for every tree and every allowed list: replacing a leaf / an allowed node by the same node or an
   indistinguishable one changes nothing.
   C08_partial: the step from "the spelling at a term position of an arbitrary expression string" to "that leaf of
   the tree" is the compositionality of tokenisation (Proofs/Split.v when present); until then that step is
   carried by the correspondence check on every id x contexts. *)
From Spdx Require Import Props.Shipped Spec.Spellings WF.Spellings Proofs.Congruence Proofs.BytesFacts Proofs.MatchProof.
Local Open Scope list_scope.

Theorem C08_active_spellings x : In x (active T0) ->
  exists n n1 n2, parse T0 x = Ok n /\ parse T0 (x ++ k_only) = Ok n1 /\
                  parse T0 (x ++ plus) = Ok n2 /\ parse T0 (x ++ k_orlater) = Ok n2.
Proof. exact (chk_active_spellings_sound T0 chk_active_spellings_shipped x). Qed.

Theorem C08_substitute_in_expression a b eqb t N :
  (forall x, eqb x a = true -> x = a) -> is_leaf b = true -> indistinguishable T0 a b ->
  satisfied_by T0 (subst_leaf a b t eqb) N = satisfied_by T0 t N.
Proof. exact (subst_in_expression T0 a b eqb t N). Qed.
Theorem C08_substitute_in_allowed a b t N1 N2 : indistinguishable T0 a b ->
  satisfied_by T0 t (N1 ++ a :: N2) = satisfied_by T0 t (N1 ++ b :: N2).
Proof. exact (subst_in_allowed T0 a b t N1 N2). Qed.

Theorem C08_shipped_lists : chk_active_spellings T0 = true /\ chk_deprecated_spellings T0 = true.
Proof. exact (conj chk_active_spellings_shipped chk_deprecated_spellings_shipped). Qed.

Example C08_example :
  parse T0 (s2l "GPL-2.0+ WITH Classpath-exception-2.0") = parse T0 (s2l "GPL-2.0-or-later WITH Classpath-exception-2.0")
  /\ satisfies T0 (s2l "AGPL-1.0") [s2l "AGPL-1.0-only"] = Ok true /\ satisfies T0 (s2l "GPL-2.0") [s2l "GPL-2.0-only"] = Ok true.
Proof. vm_compute. repeat split; reflexivity. Qed.

Definition C08_theorems := (@C08_active_spellings, @C08_substitute_in_expression, @C08_substitute_in_allowed, @C08_shipped_lists).
Redirect "assumptions/C08" Print Assumptions C08_theorems.
