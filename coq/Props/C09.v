(* C09 - letter case of SPDX identifiers never matters; output casing is canonical.
   Proved: (i) every table lookup ignores the case of the query and returns the list's own spelling (all tables);
   (ii) over the shipped lists (finite): the lower- and upper-cased spelling of every listed license id, and of
   every exception id after WITH, parses to the node of the list-cased spelling;
   (iii) every id inside a node the parser returns is a member of the lists (so ExtractLicenses prints list casing).
   C09_partial: the lift to an arbitrary case-mutated id at an arbitrary position of an arbitrary expression string
   is the compositionality of tokenisation; until then it is carried by the correspondence check. *)
From Spdx Require Import Props.Shipped Spec.Spellings WF.Spellings Proofs.Congruence Proofs.NodeInv.
Local Open Scope list_scope.

Theorem C09_lookups_ignore_case T a b : fold_eqb a b = true ->
  license_lookup T a = license_lookup T b /\ deprecated_lookup T a = deprecated_lookup T b.
Proof. intros E. split; [apply license_lookup_fold|apply deprecated_lookup_fold]; assumption. Qed.
Theorem C09_lookup_returns_list_spelling l a p : in_list l a = Some p -> In p l.
Proof. exact (in_list_returns_member l a p). Qed.

Theorem C09_shipped_ids : chk_case_ids T0 = true.
Proof. exact chk_case_ids_shipped. Qed.

(* output casing: every license / exception id inside a parsed tree is a member of the shipped lists *)
Theorem C09_output_is_list_cased s t : parse T0 s = Ok t -> tree_ok T0 t.
Proof. exact (parse_tree_ok T0 HT0 s t). Qed.

Example C09_example :
  parse T0 (s2l "(gpl-2.0+ with CLASSPATH-EXCEPTION-2.0)") = Err (EUnknownLicense (s2l "with") 10)
  /\ parse T0 (s2l "(gpl-2.0+ WITH CLASSPATH-EXCEPTION-2.0) OR mIt")
     = Ok (NOr (NLic (s2l "GPL-2.0-or-later") true (Some (s2l "Classpath-exception-2.0"))) (NLic (s2l "MIT") false None)).
Proof. vm_compute. split; reflexivity. Qed.

Definition C09_theorems := (@C09_lookups_ignore_case, @C09_lookup_returns_list_spelling, @C09_shipped_ids, @C09_output_is_list_cased).
Redirect "assumptions/C09" Print Assumptions C09_theorems.
