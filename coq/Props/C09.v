(* C09 - letter case of SPDX identifiers never matters; output casing is canonical.
   Proved: (i) every table lookup ignores the case of the query and returns the list's own spelling (all tables);
   (ii) over the shipped lists (finite): the lower- and upper-cased spelling of every listed license id, and of
   every exception id after WITH, parses to the node of the list-cased spelling;
   (iii) every id inside a node the parser returns is a member of the lists (so ExtractLicenses prints list casing).
   (iv) C09: the same in every context, by compositionality of tokenisation (Proofs/Split.v, Proofs/CaseFold.v). *)
From Spdx Require Import Props.Shipped Spec.Spellings Spec.Units WF.Spellings WF.Units Proofs.Congruence Proofs.NodeInv Proofs.Split Proofs.SameParse Proofs.CaseFold Proofs.Laws Proofs.ApiFacts.
Local Open Scope list_scope.

Theorem C09_lookups_ignore_case T a b : fold_eqb a b = true ->
  license_lookup T a = license_lookup T b /\ deprecated_lookup T a = deprecated_lookup T b.
Proof. intros E. split; [apply license_lookup_fold|apply deprecated_lookup_fold]; assumption. Qed.
Theorem C09_lookup_returns_list_spelling l a p : in_list l a = Some p -> In p l.
Proof. exact (in_list_returns_member l a p). Qed.

Theorem C09_shipped_ids : chk_case_ids T0 = true.
Proof. exact chk_case_ids_shipped. Qed.

(* output casing: every license / exception id inside a parsed tree is a member of the shipped lists *)
Theorem C09_output_is_list_cased s t : parse T0 s = Ok t -> tree_ok T0 t.
Proof. exact (parse_tree_ok T0 HT0 s t). Qed.

(* C09 in every context.  b is any re-casing of a listed id X (license or exception); sfx is nothing, or an exact
   "-only" / "-or-later"; p and q are arbitrary surrounding text with the id word delimited (q empty or starting
   with a non-id byte - a '+' included; p empty or ending in a non-id byte).  Then the two texts have the same
   parse outcome: the same tree, with list casing, or both invalid ... *)
Theorem C09 b X sfx p q : In X (all_ids T0) -> fold_eqb b X = true -> word_ok X -> sfx_ok sfx ->
  after_ok q -> (p = [] \/ exists p' c1, p = p' ++ [c1] /\ boundary p' c1) ->
  same_parse T0 (p ++ (b ++ sfx) ++ q) (p ++ (X ++ sfx) ++ q).
Proof. exact (case_variant_anywhere T0 HT0 chk_no_keyword_prefix_shipped chk_case_safe_shipped b X sfx p q). Qed.

(* ... and texts with the same parse outcome are interchangeable as expression, as allowed entry, in ExtractLicenses *)
Theorem C09_interchangeable s s' : same_parse T0 s s' ->
  validb T0 s = validb T0 s' /\
  (forall A, obs (satisfies T0 s A) = obs (satisfies T0 s' A)) /\
  (forall e A1 A2, obs (satisfies T0 e (A1 ++ s :: A2)) = obs (satisfies T0 e (A1 ++ s' :: A2))) /\
  obs (extract_licenses T0 s) = obs (extract_licenses T0 s').
Proof.
  intros H. split; [apply (same_parse_valid T0 HT0); assumption|]. split; [intros A; apply (same_parse_expression T0 HT0); assumption|].
  split; [intros e A1 A2; apply (same_parse_allowed T0 HT0 Hnr0); assumption|apply (same_parse_extract T0 HT0); assumption].
Qed.

Example C09_example :
  parse T0 (s2l "(gpl-2.0+ with CLASSPATH-EXCEPTION-2.0)") = Err (EUnknownLicense (s2l "with") 10)
  /\ parse T0 (s2l "(gpl-2.0+ WITH CLASSPATH-EXCEPTION-2.0) OR mIt")
     = Ok (NOr (NLic (s2l "GPL-2.0-or-later") true (Some (s2l "Classpath-exception-2.0"))) (NLic (s2l "MIT") false None)).
Proof. vm_compute. split; reflexivity. Qed.

Definition C09_theorems := (@C09_lookups_ignore_case, @C09_lookup_returns_list_spelling, @C09_shipped_ids, @C09_output_is_list_cased, @C09, @C09_interchangeable).
Redirect "assumptions/C09" Print Assumptions C09_theorems.
