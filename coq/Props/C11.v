(* C11 - '+' reaches exactly the later versions of the same family, in true version order; the table is well-formed. *)
From Coq Require Import NArith.
From Spdx Require Import Props.Shipped Spec.Version WF.Ranges Proofs.VersionOrder Proofs.RangesSound.
Local Open Scope list_scope.

(* for any two ids the table locates, with natural key/version read off the ids themselves (Spec/Version.v) *)
Theorem C11 a b e f i g j ka va kb vb :
  leaf_ok T0 (NLic a true e) -> leaf_ok T0 (NLic b false e) ->
  position T0 a = Some (f, i) -> position T0 b = Some (g, j) ->
  nat_kv a = Some (ka, va) -> nat_kv b = Some (kb, vb) ->
  (compatible T0 (NLic a true e) (NLic b false e) = true <-> ka = kb /\ ver_leb va vb = true) /\
  (compatible T0 (NLic b false e) (NLic a true e) = true <-> ka = kb /\ ver_leb va vb = true).
Proof.
  exact (plus_reaches_exactly_later T0 chk_fold_unique_shipped chk_orlater_base_ranged_shipped
           chk_ranges_keyed_ascending_shipped chk_ranges_distinct_families_shipped a b e f i g j ka va kb vb).
Qed.

Theorem C11_never_across_families a pa b pb e1 e2 ka va kb vb :
  leaf_ok T0 (NLic a pa e1) -> leaf_ok T0 (NLic b pb e2) -> nat_kv a = Some (ka, va) -> nat_kv b = Some (kb, vb) ->
  compatible T0 (NLic a pa e1) (NLic b pb e2) = true -> ka = kb.
Proof.
  exact (plus_never_crosses_family T0 chk_fold_unique_shipped chk_orlater_base_ranged_shipped
           chk_ranges_keyed_ascending_shipped chk_ranges_distinct_families_shipped a pa b pb e1 e2 ka va kb vb).
Qed.

(* positions in the shipped table ARE the natural family and version order *)
Theorem C11_positions_natural a b f i g j ka va kb vb :
  position T0 a = Some (f, i) -> position T0 b = Some (g, j) -> nat_kv a = Some (ka, va) -> nat_kv b = Some (kb, vb) ->
  (f = g <-> ka = kb) /\ (f = g -> (i <= j <-> ver_leb va vb = true)).
Proof. exact (positions_are_natural T0 chk_ranges_keyed_ascending_shipped chk_ranges_distinct_families_shipped a b f i g j ka va kb vb). Qed.

(* well-formedness of the shipped table *)
Theorem C11_entries_listed x : In x (entries T0) -> In x (lic_ids T0).
Proof. exact (chk_ranges_listed_sound T0 chk_ranges_listed_shipped x). Qed.
Theorem C11_entries_one_position : NoDup (entries T0).
Proof. exact (chk_ranges_unique_pos_sound T0 chk_ranges_unique_pos_shipped). Qed.
Theorem C11_covered_families_complete id k v :
  In id (lic_ids T0) -> is_word id = true -> decompose id = Some (k, v) -> covered T0 k = true -> exists pos, position T0 id = Some pos.
Proof. exact (chk_ranges_complete_sound T0 chk_ranges_complete_shipped id k v). Qed.
Theorem C11_rows_ascending_one_version_per_step : chk_ranges_keyed_ascending T0 = true /\ chk_ranges_distinct_families T0 = true.
Proof. exact (conj chk_ranges_keyed_ascending_shipped chk_ranges_distinct_families_shipped). Qed.

(* the first sentence of C11 through the API itself, for every two entries of one family of the shipped table, written
   as the ids themselves (finite obligation re-proved on the regenerated table) *)
Theorem C11_api row a b ka va kb vb : In row (rngs T0) -> In a (concat row) -> In b (concat row) ->
  decompose a = Some (ka, va) -> decompose b = Some (kb, vb) ->
  satisfies T0 b [a ++ ["+"%char]] = Ok (ver_leb va vb) /\ satisfies T0 (a ++ ["+"%char]) [b] = Ok (ver_leb va vb).
Proof. exact (chk_plus_api_sound T0 chk_plus_api_shipped row a b ka va kb vb). Qed.

Example C11_example :
  position T0 (s2l "LPPL-1.3a") = Some (26, 3) /\ position T0 (s2l "LPPL-1.3c") = Some (26, 4)
  /\ nat_kv (s2l "LPPL-1.3c") = Some ((s2l "LPPL", []), ([1%N; 3%N], Some "c"%char))
  /\ satisfies T0 (s2l "LPPL-1.3c") [s2l "LPPL-1.3a+"] = Ok true /\ satisfies T0 (s2l "LPPL-1.2") [s2l "LPPL-1.3a+"] = Ok false
  /\ satisfies T0 (s2l "CECILL-2.1") [s2l "CECILL-1.0+"] = Ok true /\ satisfies T0 (s2l "CC-BY-NC-4.0") [s2l "CC-BY-1.0+"] = Ok false.
Proof. vm_compute. repeat split; reflexivity. Qed.

Definition C11_theorems := (@C11, @C11_never_across_families, @C11_positions_natural, @C11_entries_listed, @C11_entries_one_position,
  @C11_covered_families_complete, @C11_rows_ascending_one_version_per_step, @C11_api).
Redirect "assumptions/C11" Print Assumptions C11_theorems.
