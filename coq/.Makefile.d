Model/Bytes.vo Model/Bytes.glob Model/Bytes.v.beautified Model/Bytes.required_vo: Model/Bytes.v 
Model/Bytes.vio: Model/Bytes.v 
Model/Bytes.vos Model/Bytes.vok Model/Bytes.required_vos: Model/Bytes.v 
Model/Tables.vo Model/Tables.glob Model/Tables.v.beautified Model/Tables.required_vo: Model/Tables.v Model/Bytes.vo
Model/Tables.vio: Model/Tables.v Model/Bytes.vio
Model/Tables.vos Model/Tables.vok Model/Tables.required_vos: Model/Tables.v Model/Bytes.vos
Model/Tokens.vo Model/Tokens.glob Model/Tokens.v.beautified Model/Tokens.required_vo: Model/Tokens.v Model/Tables.vo
Model/Tokens.vio: Model/Tokens.v Model/Tables.vio
Model/Tokens.vos Model/Tokens.vok Model/Tokens.required_vos: Model/Tokens.v Model/Tables.vos
Model/Scan.vo Model/Scan.glob Model/Scan.v.beautified Model/Scan.required_vo: Model/Scan.v Model/Tokens.vo
Model/Scan.vio: Model/Scan.v Model/Tokens.vio
Model/Scan.vos Model/Scan.vok Model/Scan.required_vos: Model/Scan.v Model/Tokens.vos
Model/Parse.vo Model/Parse.glob Model/Parse.v.beautified Model/Parse.required_vo: Model/Parse.v Model/Scan.vo
Model/Parse.vio: Model/Parse.v Model/Scan.vio
Model/Parse.vos Model/Parse.vok Model/Parse.required_vos: Model/Parse.v Model/Scan.vos
Model/Match.vo Model/Match.glob Model/Match.v.beautified Model/Match.required_vo: Model/Match.v Model/Parse.vo
Model/Match.vio: Model/Match.v Model/Parse.vio
Model/Match.vos Model/Match.vok Model/Match.required_vos: Model/Match.v Model/Parse.vos
Model/Api.vo Model/Api.glob Model/Api.v.beautified Model/Api.required_vo: Model/Api.v Model/Match.vo
Model/Api.vio: Model/Api.v Model/Match.vio
Model/Api.vos Model/Api.vok Model/Api.required_vos: Model/Api.v Model/Match.vos
Gen/Tables.vo Gen/Tables.glob Gen/Tables.v.beautified Gen/Tables.required_vo: Gen/Tables.v Model/Tables.vo
Gen/Tables.vio: Gen/Tables.v Model/Tables.vio
Gen/Tables.vos Gen/Tables.vok Gen/Tables.required_vos: Gen/Tables.v Model/Tables.vos
Proofs/BytesFacts.vo Proofs/BytesFacts.glob Proofs/BytesFacts.v.beautified Proofs/BytesFacts.required_vo: Proofs/BytesFacts.v Model/Bytes.vo
Proofs/BytesFacts.vio: Proofs/BytesFacts.v Model/Bytes.vio
Proofs/BytesFacts.vos Proofs/BytesFacts.vok Proofs/BytesFacts.required_vos: Proofs/BytesFacts.v Model/Bytes.vos
Spec/Grammar.vo Spec/Grammar.glob Spec/Grammar.v.beautified Spec/Grammar.required_vo: Spec/Grammar.v Model/Parse.vo
Spec/Grammar.vio: Spec/Grammar.v Model/Parse.vio
Spec/Grammar.vos Spec/Grammar.vok Spec/Grammar.required_vos: Spec/Grammar.v Model/Parse.vos
Proofs/ParseGrammar.vo Proofs/ParseGrammar.glob Proofs/ParseGrammar.v.beautified Proofs/ParseGrammar.required_vo: Proofs/ParseGrammar.v Model/Parse.vo Spec/Grammar.vo
Proofs/ParseGrammar.vio: Proofs/ParseGrammar.v Model/Parse.vio Spec/Grammar.vio
Proofs/ParseGrammar.vos Proofs/ParseGrammar.vok Proofs/ParseGrammar.required_vos: Proofs/ParseGrammar.v Model/Parse.vos Spec/Grammar.vos
Spec/Lex.vo Spec/Lex.glob Spec/Lex.v.beautified Spec/Lex.required_vo: Spec/Lex.v Model/Tokens.vo
Spec/Lex.vio: Spec/Lex.v Model/Tokens.vio
Spec/Lex.vos Spec/Lex.vok Spec/Lex.required_vos: Spec/Lex.v Model/Tokens.vos
Proofs/ScanRef.vo Proofs/ScanRef.glob Proofs/ScanRef.v.beautified Proofs/ScanRef.required_vo: Proofs/ScanRef.v Model/Scan.vo Spec/Lex.vo Proofs/BytesFacts.vo
Proofs/ScanRef.vio: Proofs/ScanRef.v Model/Scan.vio Spec/Lex.vio Proofs/BytesFacts.vio
Proofs/ScanRef.vos Proofs/ScanRef.vok Proofs/ScanRef.required_vos: Proofs/ScanRef.v Model/Scan.vos Spec/Lex.vos Proofs/BytesFacts.vos
Spec/Eval.vo Spec/Eval.glob Spec/Eval.v.beautified Spec/Eval.required_vo: Spec/Eval.v Model/Parse.vo
Spec/Eval.vio: Spec/Eval.v Model/Parse.vio
Spec/Eval.vos Spec/Eval.vok Spec/Eval.required_vos: Spec/Eval.v Model/Parse.vos
Spec/WF.vo Spec/WF.glob Spec/WF.v.beautified Spec/WF.required_vo: Spec/WF.v Model/Api.vo
Spec/WF.vio: Spec/WF.v Model/Api.vio
Spec/WF.vos Spec/WF.vok Spec/WF.required_vos: Spec/WF.v Model/Api.vos
Proofs/NodeInv.vo Proofs/NodeInv.glob Proofs/NodeInv.v.beautified Proofs/NodeInv.required_vo: Proofs/NodeInv.v Model/Api.vo Spec/Lex.vo Spec/Grammar.vo Spec/Eval.vo Spec/WF.vo Proofs/BytesFacts.vo Proofs/ScanRef.vo Proofs/ParseGrammar.vo
Proofs/NodeInv.vio: Proofs/NodeInv.v Model/Api.vio Spec/Lex.vio Spec/Grammar.vio Spec/Eval.vio Spec/WF.vio Proofs/BytesFacts.vio Proofs/ScanRef.vio Proofs/ParseGrammar.vio
Proofs/NodeInv.vos Proofs/NodeInv.vok Proofs/NodeInv.required_vos: Proofs/NodeInv.v Model/Api.vos Spec/Lex.vos Spec/Grammar.vos Spec/Eval.vos Spec/WF.vos Proofs/BytesFacts.vos Proofs/ScanRef.vos Proofs/ParseGrammar.vos
Proofs/Sat.vo Proofs/Sat.glob Proofs/Sat.v.beautified Proofs/Sat.required_vo: Proofs/Sat.v Model/Api.vo Spec/Grammar.vo Spec/Eval.vo Spec/WF.vo Proofs/BytesFacts.vo Proofs/NodeInv.vo
Proofs/Sat.vio: Proofs/Sat.v Model/Api.vio Spec/Grammar.vio Spec/Eval.vio Spec/WF.vio Proofs/BytesFacts.vio Proofs/NodeInv.vio
Proofs/Sat.vos Proofs/Sat.vok Proofs/Sat.required_vos: Proofs/Sat.v Model/Api.vos Spec/Grammar.vos Spec/Eval.vos Spec/WF.vos Proofs/BytesFacts.vos Proofs/NodeInv.vos
