Model/Bytes.vo Model/Bytes.glob Model/Bytes.v.beautified Model/Bytes.required_vo: Model/Bytes.v 
Model/Bytes.vio: Model/Bytes.v 
Model/Bytes.vos Model/Bytes.vok Model/Bytes.required_vos: Model/Bytes.v 
Model/Tables.vo Model/Tables.glob Model/Tables.v.beautified Model/Tables.required_vo: Model/Tables.v Model/Bytes.vo
Model/Tables.vio: Model/Tables.v Model/Bytes.vio
Model/Tables.vos Model/Tables.vok Model/Tables.required_vos: Model/Tables.v Model/Bytes.vos
Model/Tokens.vo Model/Tokens.glob Model/Tokens.v.beautified Model/Tokens.required_vo: Model/Tokens.v Model/Tables.vo
Model/Tokens.vio: Model/Tokens.v Model/Tables.vio
Model/Tokens.vos Model/Tokens.vok Model/Tokens.required_vos: Model/Tokens.v Model/Tables.vos
Model/Scan.vo Model/Scan.glob Model/Scan.v.beautified Model/Scan.required_vo: Model/Scan.v Model/Tokens.vo
Model/Scan.vio: Model/Scan.v Model/Tokens.vio
Model/Scan.vos Model/Scan.vok Model/Scan.required_vos: Model/Scan.v Model/Tokens.vos
Model/Parse.vo Model/Parse.glob Model/Parse.v.beautified Model/Parse.required_vo: Model/Parse.v Model/Scan.vo
Model/Parse.vio: Model/Parse.v Model/Scan.vio
Model/Parse.vos Model/Parse.vok Model/Parse.required_vos: Model/Parse.v Model/Scan.vos
Model/Match.vo Model/Match.glob Model/Match.v.beautified Model/Match.required_vo: Model/Match.v Model/Parse.vo
Model/Match.vio: Model/Match.v Model/Parse.vio
Model/Match.vos Model/Match.vok Model/Match.required_vos: Model/Match.v Model/Parse.vos
Model/Api.vo Model/Api.glob Model/Api.v.beautified Model/Api.required_vo: Model/Api.v Model/Match.vo
Model/Api.vio: Model/Api.v Model/Match.vio
Model/Api.vos Model/Api.vok Model/Api.required_vos: Model/Api.v Model/Match.vos
Gen/Tables.vo Gen/Tables.glob Gen/Tables.v.beautified Gen/Tables.required_vo: Gen/Tables.v Model/Tables.vo
Gen/Tables.vio: Gen/Tables.v Model/Tables.vio
Gen/Tables.vos Gen/Tables.vok Gen/Tables.required_vos: Gen/Tables.v Model/Tables.vos
Proofs/BytesFacts.vo Proofs/BytesFacts.glob Proofs/BytesFacts.v.beautified Proofs/BytesFacts.required_vo: Proofs/BytesFacts.v Model/Bytes.vo
Proofs/BytesFacts.vio: Proofs/BytesFacts.v Model/Bytes.vio
Proofs/BytesFacts.vos Proofs/BytesFacts.vok Proofs/BytesFacts.required_vos: Proofs/BytesFacts.v Model/Bytes.vos
