Model/Bytes.vo Model/Bytes.glob Model/Bytes.v.beautified Model/Bytes.required_vo: Model/Bytes.v 
Model/Bytes.vio: Model/Bytes.v 
Model/Bytes.vos Model/Bytes.vok Model/Bytes.required_vos: Model/Bytes.v 
Model/Tables.vo Model/Tables.glob Model/Tables.v.beautified Model/Tables.required_vo: Model/Tables.v Model/Bytes.vo
Model/Tables.vio: Model/Tables.v Model/Bytes.vio
Model/Tables.vos Model/Tables.vok Model/Tables.required_vos: Model/Tables.v Model/Bytes.vos
Model/Tokens.vo Model/Tokens.glob Model/Tokens.v.beautified Model/Tokens.required_vo: Model/Tokens.v Model/Tables.vo
Model/Tokens.vio: Model/Tokens.v Model/Tables.vio
Model/Tokens.vos Model/Tokens.vok Model/Tokens.required_vos: Model/Tokens.v Model/Tables.vos
Model/Scan.vo Model/Scan.glob Model/Scan.v.beautified Model/Scan.required_vo: Model/Scan.v Model/Tokens.vo
Model/Scan.vio: Model/Scan.v Model/Tokens.vio
Model/Scan.vos Model/Scan.vok Model/Scan.required_vos: Model/Scan.v Model/Tokens.vos
Model/Parse.vo Model/Parse.glob Model/Parse.v.beautified Model/Parse.required_vo: Model/Parse.v Model/Scan.vo
Model/Parse.vio: Model/Parse.v Model/Scan.vio
Model/Parse.vos Model/Parse.vok Model/Parse.required_vos: Model/Parse.v Model/Scan.vos
Model/Match.vo Model/Match.glob Model/Match.v.beautified Model/Match.required_vo: Model/Match.v Model/Parse.vo
Model/Match.vio: Model/Match.v Model/Parse.vio
Model/Match.vos Model/Match.vok Model/Match.required_vos: Model/Match.v Model/Parse.vos
Model/Api.vo Model/Api.glob Model/Api.v.beautified Model/Api.required_vo: Model/Api.v Model/Match.vo
Model/Api.vio: Model/Api.v Model/Match.vio
Model/Api.vos Model/Api.vok Model/Api.required_vos: Model/Api.v Model/Match.vos
Gen/Tables.vo Gen/Tables.glob Gen/Tables.v.beautified Gen/Tables.required_vo: Gen/Tables.v Model/Tables.vo
Gen/Tables.vio: Gen/Tables.v Model/Tables.vio
Gen/Tables.vos Gen/Tables.vok Gen/Tables.required_vos: Gen/Tables.v Model/Tables.vos
Proofs/BytesFacts.vo Proofs/BytesFacts.glob Proofs/BytesFacts.v.beautified Proofs/BytesFacts.required_vo: Proofs/BytesFacts.v Model/Bytes.vo
Proofs/BytesFacts.vio: Proofs/BytesFacts.v Model/Bytes.vio
Proofs/BytesFacts.vos Proofs/BytesFacts.vok Proofs/BytesFacts.required_vos: Proofs/BytesFacts.v Model/Bytes.vos
Spec/Grammar.vo Spec/Grammar.glob Spec/Grammar.v.beautified Spec/Grammar.required_vo: Spec/Grammar.v Model/Parse.vo
Spec/Grammar.vio: Spec/Grammar.v Model/Parse.vio
Spec/Grammar.vos Spec/Grammar.vok Spec/Grammar.required_vos: Spec/Grammar.v Model/Parse.vos
Proofs/ParseGrammar.vo Proofs/ParseGrammar.glob Proofs/ParseGrammar.v.beautified Proofs/ParseGrammar.required_vo: Proofs/ParseGrammar.v Model/Parse.vo Spec/Grammar.vo
Proofs/ParseGrammar.vio: Proofs/ParseGrammar.v Model/Parse.vio Spec/Grammar.vio
Proofs/ParseGrammar.vos Proofs/ParseGrammar.vok Proofs/ParseGrammar.required_vos: Proofs/ParseGrammar.v Model/Parse.vos Spec/Grammar.vos
Spec/Lex.vo Spec/Lex.glob Spec/Lex.v.beautified Spec/Lex.required_vo: Spec/Lex.v Model/Tokens.vo
Spec/Lex.vio: Spec/Lex.v Model/Tokens.vio
Spec/Lex.vos Spec/Lex.vok Spec/Lex.required_vos: Spec/Lex.v Model/Tokens.vos
Proofs/ScanRef.vo Proofs/ScanRef.glob Proofs/ScanRef.v.beautified Proofs/ScanRef.required_vo: Proofs/ScanRef.v Model/Scan.vo Spec/Lex.vo Proofs/BytesFacts.vo
Proofs/ScanRef.vio: Proofs/ScanRef.v Model/Scan.vio Spec/Lex.vio Proofs/BytesFacts.vio
Proofs/ScanRef.vos Proofs/ScanRef.vok Proofs/ScanRef.required_vos: Proofs/ScanRef.v Model/Scan.vos Spec/Lex.vos Proofs/BytesFacts.vos
Spec/Eval.vo Spec/Eval.glob Spec/Eval.v.beautified Spec/Eval.required_vo: Spec/Eval.v Model/Parse.vo
Spec/Eval.vio: Spec/Eval.v Model/Parse.vio
Spec/Eval.vos Spec/Eval.vok Spec/Eval.required_vos: Spec/Eval.v Model/Parse.vos
Spec/WF.vo Spec/WF.glob Spec/WF.v.beautified Spec/WF.required_vo: Spec/WF.v Model/Api.vo
Spec/WF.vio: Spec/WF.v Model/Api.vio
Spec/WF.vos Spec/WF.vok Spec/WF.required_vos: Spec/WF.v Model/Api.vos
Proofs/NodeInv.vo Proofs/NodeInv.glob Proofs/NodeInv.v.beautified Proofs/NodeInv.required_vo: Proofs/NodeInv.v Model/Api.vo Spec/Lex.vo Spec/Grammar.vo Spec/Eval.vo Spec/WF.vo Proofs/BytesFacts.vo Proofs/ScanRef.vo Proofs/ParseGrammar.vo
Proofs/NodeInv.vio: Proofs/NodeInv.v Model/Api.vio Spec/Lex.vio Spec/Grammar.vio Spec/Eval.vio Spec/WF.vio Proofs/BytesFacts.vio Proofs/ScanRef.vio Proofs/ParseGrammar.vio
Proofs/NodeInv.vos Proofs/NodeInv.vok Proofs/NodeInv.required_vos: Proofs/NodeInv.v Model/Api.vos Spec/Lex.vos Spec/Grammar.vos Spec/Eval.vos Spec/WF.vos Proofs/BytesFacts.vos Proofs/ScanRef.vos Proofs/ParseGrammar.vos
Proofs/Sat.vo Proofs/Sat.glob Proofs/Sat.v.beautified Proofs/Sat.required_vo: Proofs/Sat.v Model/Api.vo Spec/Grammar.vo Spec/Eval.vo Spec/WF.vo Proofs/BytesFacts.vo Proofs/NodeInv.vo
Proofs/Sat.vio: Proofs/Sat.v Model/Api.vio Spec/Grammar.vio Spec/Eval.vio Spec/WF.vio Proofs/BytesFacts.vio Proofs/NodeInv.vio
Proofs/Sat.vos Proofs/Sat.vok Proofs/Sat.required_vos: Proofs/Sat.v Model/Api.vos Spec/Grammar.vos Spec/Eval.vos Spec/WF.vos Proofs/BytesFacts.vos Proofs/NodeInv.vos
Proofs/WFSound.vo Proofs/WFSound.glob Proofs/WFSound.v.beautified Proofs/WFSound.required_vo: Proofs/WFSound.v Model/Api.vo Spec/WF.vo Proofs/BytesFacts.vo Proofs/NodeInv.vo
Proofs/WFSound.vio: Proofs/WFSound.v Model/Api.vio Spec/WF.vio Proofs/BytesFacts.vio Proofs/NodeInv.vio
Proofs/WFSound.vos Proofs/WFSound.vok Proofs/WFSound.required_vos: Proofs/WFSound.v Model/Api.vos Spec/WF.vos Proofs/BytesFacts.vos Proofs/NodeInv.vos
WF/Words.vo WF/Words.glob WF/Words.v.beautified WF/Words.required_vo: WF/Words.v Spec/WF.vo Gen/Tables.vo
WF/Words.vio: WF/Words.v Spec/WF.vio Gen/Tables.vio
WF/Words.vos WF/Words.vok WF/Words.required_vos: WF/Words.v Spec/WF.vos Gen/Tables.vos
WF/NoKeywordPrefix.vo WF/NoKeywordPrefix.glob WF/NoKeywordPrefix.v.beautified WF/NoKeywordPrefix.required_vo: WF/NoKeywordPrefix.v Spec/WF.vo Gen/Tables.vo
WF/NoKeywordPrefix.vio: WF/NoKeywordPrefix.v Spec/WF.vio Gen/Tables.vio
WF/NoKeywordPrefix.vos WF/NoKeywordPrefix.vok WF/NoKeywordPrefix.required_vos: WF/NoKeywordPrefix.v Spec/WF.vos Gen/Tables.vos
WF/FoldUnique.vo WF/FoldUnique.glob WF/FoldUnique.v.beautified WF/FoldUnique.required_vo: WF/FoldUnique.v Spec/WF.vo Gen/Tables.vo
WF/FoldUnique.vio: WF/FoldUnique.v Spec/WF.vio Gen/Tables.vio
WF/FoldUnique.vos WF/FoldUnique.vok WF/FoldUnique.required_vos: WF/FoldUnique.v Spec/WF.vos Gen/Tables.vos
Proofs/ApiFacts.vo Proofs/ApiFacts.glob Proofs/ApiFacts.v.beautified Proofs/ApiFacts.required_vo: Proofs/ApiFacts.v Model/Api.vo Spec/Lex.vo Spec/Grammar.vo Spec/Eval.vo Spec/WF.vo Proofs/BytesFacts.vo Proofs/ScanRef.vo Proofs/ParseGrammar.vo Proofs/NodeInv.vo Proofs/Sat.vo
Proofs/ApiFacts.vio: Proofs/ApiFacts.v Model/Api.vio Spec/Lex.vio Spec/Grammar.vio Spec/Eval.vio Spec/WF.vio Proofs/BytesFacts.vio Proofs/ScanRef.vio Proofs/ParseGrammar.vio Proofs/NodeInv.vio Proofs/Sat.vio
Proofs/ApiFacts.vos Proofs/ApiFacts.vok Proofs/ApiFacts.required_vos: Proofs/ApiFacts.v Model/Api.vos Spec/Lex.vos Spec/Grammar.vos Spec/Eval.vos Spec/WF.vos Proofs/BytesFacts.vos Proofs/ScanRef.vos Proofs/ParseGrammar.vos Proofs/NodeInv.vos Proofs/Sat.vos
Proofs/Laws.vo Proofs/Laws.glob Proofs/Laws.v.beautified Proofs/Laws.required_vo: Proofs/Laws.v Model/Api.vo Spec/Grammar.vo Spec/Eval.vo Spec/WF.vo Proofs/BytesFacts.vo Proofs/NodeInv.vo Proofs/Sat.vo Proofs/ApiFacts.vo
Proofs/Laws.vio: Proofs/Laws.v Model/Api.vio Spec/Grammar.vio Spec/Eval.vio Spec/WF.vio Proofs/BytesFacts.vio Proofs/NodeInv.vio Proofs/Sat.vio Proofs/ApiFacts.vio
Proofs/Laws.vos Proofs/Laws.vok Proofs/Laws.required_vos: Proofs/Laws.v Model/Api.vos Spec/Grammar.vos Spec/Eval.vos Spec/WF.vos Proofs/BytesFacts.vos Proofs/NodeInv.vos Proofs/Sat.vos Proofs/ApiFacts.vos
Spec/MatchSpec.vo Spec/MatchSpec.glob Spec/MatchSpec.v.beautified Spec/MatchSpec.required_vo: Spec/MatchSpec.v Model/Match.vo
Spec/MatchSpec.vio: Spec/MatchSpec.v Model/Match.vio
Spec/MatchSpec.vos Spec/MatchSpec.vok Spec/MatchSpec.required_vos: Spec/MatchSpec.v Model/Match.vos
Proofs/MatchProof.vo Proofs/MatchProof.glob Proofs/MatchProof.v.beautified Proofs/MatchProof.required_vo: Proofs/MatchProof.v Model/Api.vo Spec/WF.vo Spec/MatchSpec.vo Proofs/BytesFacts.vo Proofs/NodeInv.vo
Proofs/MatchProof.vio: Proofs/MatchProof.v Model/Api.vio Spec/WF.vio Spec/MatchSpec.vio Proofs/BytesFacts.vio Proofs/NodeInv.vio
Proofs/MatchProof.vos Proofs/MatchProof.vok Proofs/MatchProof.required_vos: Proofs/MatchProof.v Model/Api.vos Spec/WF.vos Spec/MatchSpec.vos Proofs/BytesFacts.vos Proofs/NodeInv.vos
Proofs/Offsets.vo Proofs/Offsets.glob Proofs/Offsets.v.beautified Proofs/Offsets.required_vo: Proofs/Offsets.v Model/Scan.vo Model/Parse.vo Spec/Lex.vo Proofs/BytesFacts.vo Proofs/ScanRef.vo
Proofs/Offsets.vio: Proofs/Offsets.v Model/Scan.vio Model/Parse.vio Spec/Lex.vio Proofs/BytesFacts.vio Proofs/ScanRef.vio
Proofs/Offsets.vos Proofs/Offsets.vok Proofs/Offsets.required_vos: Proofs/Offsets.v Model/Scan.vos Model/Parse.vos Spec/Lex.vos Proofs/BytesFacts.vos Proofs/ScanRef.vos
WF/OrLaterBase.vo WF/OrLaterBase.glob WF/OrLaterBase.v.beautified WF/OrLaterBase.required_vo: WF/OrLaterBase.v Spec/MatchSpec.vo Gen/Tables.vo
WF/OrLaterBase.vio: WF/OrLaterBase.v Spec/MatchSpec.vio Gen/Tables.vio
WF/OrLaterBase.vos WF/OrLaterBase.vok WF/OrLaterBase.required_vos: WF/OrLaterBase.v Spec/MatchSpec.vos Gen/Tables.vos
Props/Shipped.vo Props/Shipped.glob Props/Shipped.v.beautified Props/Shipped.required_vo: Props/Shipped.v Model/Api.vo Spec/WF.vo Spec/MatchSpec.vo Gen/Tables.vo Proofs/NodeInv.vo Proofs/WFSound.vo WF/Words.vo WF/NoKeywordPrefix.vo WF/FoldUnique.vo WF/OrLaterBase.vo
Props/Shipped.vio: Props/Shipped.v Model/Api.vio Spec/WF.vio Spec/MatchSpec.vio Gen/Tables.vio Proofs/NodeInv.vio Proofs/WFSound.vio WF/Words.vio WF/NoKeywordPrefix.vio WF/FoldUnique.vio WF/OrLaterBase.vio
Props/Shipped.vos Props/Shipped.vok Props/Shipped.required_vos: Props/Shipped.v Model/Api.vos Spec/WF.vos Spec/MatchSpec.vos Gen/Tables.vos Proofs/NodeInv.vos Proofs/WFSound.vos WF/Words.vos WF/NoKeywordPrefix.vos WF/FoldUnique.vos WF/OrLaterBase.vos
Props/C01.vo Props/C01.glob Props/C01.v.beautified Props/C01.required_vo: Props/C01.v Props/Shipped.vo Spec/Grammar.vo Spec/Eval.vo Model/Expand.vo Proofs/ParseGrammar.vo Proofs/Sat.vo Proofs/Laws.vo Proofs/ApiFacts.vo Proofs/ExpandProof.vo Model/ParseStack.vo Proofs/ParseStack.vo
Props/C01.vio: Props/C01.v Props/Shipped.vio Spec/Grammar.vio Spec/Eval.vio Model/Expand.vio Proofs/ParseGrammar.vio Proofs/Sat.vio Proofs/Laws.vio Proofs/ApiFacts.vio Proofs/ExpandProof.vio Model/ParseStack.vio Proofs/ParseStack.vio
Props/C01.vos Props/C01.vok Props/C01.required_vos: Props/C01.v Props/Shipped.vos Spec/Grammar.vos Spec/Eval.vos Model/Expand.vos Proofs/ParseGrammar.vos Proofs/Sat.vos Proofs/Laws.vos Proofs/ApiFacts.vos Proofs/ExpandProof.vos Model/ParseStack.vos Proofs/ParseStack.vos
Props/C02.vo Props/C02.glob Props/C02.v.beautified Props/C02.required_vo: Props/C02.v Props/Shipped.vo Proofs/MatchProof.vo Proofs/Sat.vo Proofs/ApiFacts.vo
Props/C02.vio: Props/C02.v Props/Shipped.vio Proofs/MatchProof.vio Proofs/Sat.vio Proofs/ApiFacts.vio
Props/C02.vos Props/C02.vok Props/C02.required_vos: Props/C02.v Props/Shipped.vos Proofs/MatchProof.vos Proofs/Sat.vos Proofs/ApiFacts.vos
Props/C03.vo Props/C03.glob Props/C03.v.beautified Props/C03.required_vo: Props/C03.v Props/Shipped.vo Proofs/ApiFacts.vo Proofs/ScanRef.vo Proofs/ParseGrammar.vo Model/ParseStack.vo Proofs/ParseStack.vo
Props/C03.vio: Props/C03.v Props/Shipped.vio Proofs/ApiFacts.vio Proofs/ScanRef.vio Proofs/ParseGrammar.vio Model/ParseStack.vio Proofs/ParseStack.vio
Props/C03.vos Props/C03.vok Props/C03.required_vos: Props/C03.v Props/Shipped.vos Proofs/ApiFacts.vos Proofs/ScanRef.vos Proofs/ParseGrammar.vos Model/ParseStack.vos Proofs/ParseStack.vos
Props/C04.vo Props/C04.glob Props/C04.v.beautified Props/C04.required_vo: Props/C04.v Props/Shipped.vo Proofs/ApiFacts.vo Proofs/Laws.vo
Props/C04.vio: Props/C04.v Props/Shipped.vio Proofs/ApiFacts.vio Proofs/Laws.vio
Props/C04.vos Props/C04.vok Props/C04.required_vos: Props/C04.v Props/Shipped.vos Proofs/ApiFacts.vos Proofs/Laws.vos
Props/C05.vo Props/C05.glob Props/C05.v.beautified Props/C05.required_vo: Props/C05.v Props/Shipped.vo Spec/Lex.vo Spec/Grammar.vo Spec/Reject.vo Proofs/ScanRef.vo Proofs/ParseGrammar.vo Proofs/ApiFacts.vo Proofs/RejectProof.vo Proofs/Unknown.vo Proofs/IdWords.vo Model/ParseStack.vo Proofs/ParseStack.vo
Props/C05.vio: Props/C05.v Props/Shipped.vio Spec/Lex.vio Spec/Grammar.vio Spec/Reject.vio Proofs/ScanRef.vio Proofs/ParseGrammar.vio Proofs/ApiFacts.vio Proofs/RejectProof.vio Proofs/Unknown.vio Proofs/IdWords.vio Model/ParseStack.vio Proofs/ParseStack.vio
Props/C05.vos Props/C05.vok Props/C05.required_vos: Props/C05.v Props/Shipped.vos Spec/Lex.vos Spec/Grammar.vos Spec/Reject.vos Proofs/ScanRef.vos Proofs/ParseGrammar.vos Proofs/ApiFacts.vos Proofs/RejectProof.vos Proofs/Unknown.vos Proofs/IdWords.vos Model/ParseStack.vos Proofs/ParseStack.vos
Props/C06.vo Props/C06.glob Props/C06.v.beautified Props/C06.required_vo: Props/C06.v Props/Shipped.vo Spec/Eval.vo Spec/Units.vo WF/Units.vo Proofs/ApiFacts.vo Proofs/Laws.vo Proofs/MatchProof.vo Proofs/Sat.vo Proofs/RoundTrip.vo Proofs/BytesFacts.vo
Props/C06.vio: Props/C06.v Props/Shipped.vio Spec/Eval.vio Spec/Units.vio WF/Units.vio Proofs/ApiFacts.vio Proofs/Laws.vio Proofs/MatchProof.vio Proofs/Sat.vio Proofs/RoundTrip.vio Proofs/BytesFacts.vio
Props/C06.vos Props/C06.vok Props/C06.required_vos: Props/C06.v Props/Shipped.vos Spec/Eval.vos Spec/Units.vos WF/Units.vos Proofs/ApiFacts.vos Proofs/Laws.vos Proofs/MatchProof.vos Proofs/Sat.vos Proofs/RoundTrip.vos Proofs/BytesFacts.vos
Props/C07.vo Props/C07.glob Props/C07.v.beautified Props/C07.required_vo: Props/C07.v Props/Shipped.vo Proofs/Laws.vo Proofs/Respell.vo
Props/C07.vio: Props/C07.v Props/Shipped.vio Proofs/Laws.vio Proofs/Respell.vio
Props/C07.vos Props/C07.vok Props/C07.required_vos: Props/C07.v Props/Shipped.vos Proofs/Laws.vos Proofs/Respell.vos
Props/C10.vo Props/C10.glob Props/C10.v.beautified Props/C10.required_vo: Props/C10.v Props/Shipped.vo Spec/Eval.vo Spec/Grammar.vo Proofs/Lexo.vo Proofs/Laws.vo Proofs/Respell.vo Proofs/Split.vo Proofs/SpacesAnywhere.vo Proofs/Subst.vo Proofs/SubstText.vo
Props/C10.vio: Props/C10.v Props/Shipped.vio Spec/Eval.vio Spec/Grammar.vio Proofs/Lexo.vio Proofs/Laws.vio Proofs/Respell.vio Proofs/Split.vio Proofs/SpacesAnywhere.vio Proofs/Subst.vio Proofs/SubstText.vio
Props/C10.vos Props/C10.vok Props/C10.required_vos: Props/C10.v Props/Shipped.vos Spec/Eval.vos Spec/Grammar.vos Proofs/Lexo.vos Proofs/Laws.vos Proofs/Respell.vos Proofs/Split.vos Proofs/SpacesAnywhere.vos Proofs/Subst.vos Proofs/SubstText.vos
Props/C15.vo Props/C15.glob Props/C15.v.beautified Props/C15.required_vo: Props/C15.v Props/Shipped.vo Spec/Lex.vo Proofs/ScanRef.vo Proofs/Offsets.vo Proofs/ApiFacts.vo Proofs/Unknown.vo
Props/C15.vio: Props/C15.v Props/Shipped.vio Spec/Lex.vio Proofs/ScanRef.vio Proofs/Offsets.vio Proofs/ApiFacts.vio Proofs/Unknown.vio
Props/C15.vos Props/C15.vok Props/C15.required_vos: Props/C15.v Props/Shipped.vos Spec/Lex.vos Proofs/ScanRef.vos Proofs/Offsets.vos Proofs/ApiFacts.vos Proofs/Unknown.vos
Model/GenFiles.vo Model/GenFiles.glob Model/GenFiles.v.beautified Model/GenFiles.required_vo: Model/GenFiles.v Model/Bytes.vo
Model/GenFiles.vio: Model/GenFiles.v Model/Bytes.vio
Model/GenFiles.vos Model/GenFiles.vok Model/GenFiles.required_vos: Model/GenFiles.v Model/Bytes.vos
Spec/TablesSpec.vo Spec/TablesSpec.glob Spec/TablesSpec.v.beautified Spec/TablesSpec.required_vo: Spec/TablesSpec.v Model/GenFiles.vo Model/Api.vo Spec/WF.vo
Spec/TablesSpec.vio: Spec/TablesSpec.v Model/GenFiles.vio Model/Api.vio Spec/WF.vio
Spec/TablesSpec.vos Spec/TablesSpec.vok Spec/TablesSpec.required_vos: Spec/TablesSpec.v Model/GenFiles.vos Model/Api.vos Spec/WF.vos
Gen/SpdxJson.vo Gen/SpdxJson.glob Gen/SpdxJson.v.beautified Gen/SpdxJson.required_vo: Gen/SpdxJson.v 
Gen/SpdxJson.vio: Gen/SpdxJson.v 
Gen/SpdxJson.vos Gen/SpdxJson.vok Gen/SpdxJson.required_vos: Gen/SpdxJson.v 
Gen/Files.vo Gen/Files.glob Gen/Files.v.beautified Gen/Files.required_vo: Gen/Files.v 
Gen/Files.vio: Gen/Files.v 
Gen/Files.vos Gen/Files.vok Gen/Files.required_vos: Gen/Files.v 
Gen/Template.vo Gen/Template.glob Gen/Template.v.beautified Gen/Template.required_vo: Gen/Template.v 
Gen/Template.vio: Gen/Template.v 
Gen/Template.vos Gen/Template.vok Gen/Template.required_vos: Gen/Template.v 
WF/JsonPartition.vo WF/JsonPartition.glob WF/JsonPartition.v.beautified WF/JsonPartition.required_vo: WF/JsonPartition.v Spec/TablesSpec.vo Gen/Tables.vo Gen/SpdxJson.vo
WF/JsonPartition.vio: WF/JsonPartition.v Spec/TablesSpec.vio Gen/Tables.vio Gen/SpdxJson.vio
WF/JsonPartition.vos WF/JsonPartition.vok WF/JsonPartition.required_vos: WF/JsonPartition.v Spec/TablesSpec.vos Gen/Tables.vos Gen/SpdxJson.vos
WF/FilesRegenerate.vo WF/FilesRegenerate.glob WF/FilesRegenerate.v.beautified WF/FilesRegenerate.required_vo: WF/FilesRegenerate.v Spec/TablesSpec.vo Gen/SpdxJson.vo Gen/Files.vo Gen/Template.vo
WF/FilesRegenerate.vio: WF/FilesRegenerate.v Spec/TablesSpec.vio Gen/SpdxJson.vio Gen/Files.vio Gen/Template.vio
WF/FilesRegenerate.vos WF/FilesRegenerate.vok WF/FilesRegenerate.required_vos: WF/FilesRegenerate.v Spec/TablesSpec.vos Gen/SpdxJson.vos Gen/Files.vos Gen/Template.vos
WF/IdsParse.vo WF/IdsParse.glob WF/IdsParse.v.beautified WF/IdsParse.required_vo: WF/IdsParse.v Spec/TablesSpec.vo Gen/Tables.vo
WF/IdsParse.vio: WF/IdsParse.v Spec/TablesSpec.vio Gen/Tables.vio
WF/IdsParse.vos WF/IdsParse.vok WF/IdsParse.required_vos: WF/IdsParse.v Spec/TablesSpec.vos Gen/Tables.vos
Proofs/ExcGuard.vo Proofs/ExcGuard.glob Proofs/ExcGuard.v.beautified Proofs/ExcGuard.required_vo: Proofs/ExcGuard.v Model/Parse.vo Spec/Grammar.vo
Proofs/ExcGuard.vio: Proofs/ExcGuard.v Model/Parse.vio Spec/Grammar.vio
Proofs/ExcGuard.vos Proofs/ExcGuard.vok Proofs/ExcGuard.required_vos: Proofs/ExcGuard.v Model/Parse.vos Spec/Grammar.vos
Proofs/TablesSound.vo Proofs/TablesSound.glob Proofs/TablesSound.v.beautified Proofs/TablesSound.required_vo: Proofs/TablesSound.v Spec/TablesSpec.vo
Proofs/TablesSound.vio: Proofs/TablesSound.v Spec/TablesSpec.vio
Proofs/TablesSound.vos Proofs/TablesSound.vok Proofs/TablesSound.required_vos: Proofs/TablesSound.v Spec/TablesSpec.vos
Props/C12.vo Props/C12.glob Props/C12.v.beautified Props/C12.required_vo: Props/C12.v Props/Shipped.vo Spec/TablesSpec.vo Spec/Grammar.vo Gen/SpdxJson.vo Gen/Files.vo Gen/Template.vo WF/JsonPartition.vo WF/FilesRegenerate.vo WF/IdsParse.vo Proofs/ExcGuard.vo Proofs/ParseGrammar.vo Proofs/MatchProof.vo Proofs/TablesSound.vo Proofs/FoldUnique.vo
Props/C12.vio: Props/C12.v Props/Shipped.vio Spec/TablesSpec.vio Spec/Grammar.vio Gen/SpdxJson.vio Gen/Files.vio Gen/Template.vio WF/JsonPartition.vio WF/FilesRegenerate.vio WF/IdsParse.vio Proofs/ExcGuard.vio Proofs/ParseGrammar.vio Proofs/MatchProof.vio Proofs/TablesSound.vio Proofs/FoldUnique.vio
Props/C12.vos Props/C12.vok Props/C12.required_vos: Props/C12.v Props/Shipped.vos Spec/TablesSpec.vos Spec/Grammar.vos Gen/SpdxJson.vos Gen/Files.vos Gen/Template.vos WF/JsonPartition.vos WF/FilesRegenerate.vos WF/IdsParse.vos Proofs/ExcGuard.vos Proofs/ParseGrammar.vos Proofs/MatchProof.vos Proofs/TablesSound.vos Proofs/FoldUnique.vos
Spec/Version.vo Spec/Version.glob Spec/Version.v.beautified Spec/Version.required_vo: Spec/Version.v Model/Match.vo Spec/MatchSpec.vo Spec/WF.vo
Spec/Version.vio: Spec/Version.v Model/Match.vio Spec/MatchSpec.vio Spec/WF.vio
Spec/Version.vos Spec/Version.vok Spec/Version.required_vos: Spec/Version.v Model/Match.vos Spec/MatchSpec.vos Spec/WF.vos
Proofs/VersionOrder.vo Proofs/VersionOrder.glob Proofs/VersionOrder.v.beautified Proofs/VersionOrder.required_vo: Proofs/VersionOrder.v Spec/Version.vo Proofs/BytesFacts.vo
Proofs/VersionOrder.vio: Proofs/VersionOrder.v Spec/Version.vio Proofs/BytesFacts.vio
Proofs/VersionOrder.vos Proofs/VersionOrder.vok Proofs/VersionOrder.required_vos: Proofs/VersionOrder.v Spec/Version.vos Proofs/BytesFacts.vos
WF/Ranges.vo WF/Ranges.glob WF/Ranges.v.beautified WF/Ranges.required_vo: WF/Ranges.v Spec/Version.vo Gen/Tables.vo
WF/Ranges.vio: WF/Ranges.v Spec/Version.vio Gen/Tables.vio
WF/Ranges.vos WF/Ranges.vok WF/Ranges.required_vos: WF/Ranges.v Spec/Version.vos Gen/Tables.vos
Proofs/RangesSound.vo Proofs/RangesSound.glob Proofs/RangesSound.v.beautified Proofs/RangesSound.required_vo: Proofs/RangesSound.v Spec/Version.vo Proofs/BytesFacts.vo Proofs/NodeInv.vo Proofs/MatchProof.vo Proofs/VersionOrder.vo
Proofs/RangesSound.vio: Proofs/RangesSound.v Spec/Version.vio Proofs/BytesFacts.vio Proofs/NodeInv.vio Proofs/MatchProof.vio Proofs/VersionOrder.vio
Proofs/RangesSound.vos Proofs/RangesSound.vok Proofs/RangesSound.required_vos: Proofs/RangesSound.v Spec/Version.vos Proofs/BytesFacts.vos Proofs/NodeInv.vos Proofs/MatchProof.vos Proofs/VersionOrder.vos
Props/C11.vo Props/C11.glob Props/C11.v.beautified Props/C11.required_vo: Props/C11.v Props/Shipped.vo Spec/Version.vo WF/Ranges.vo Proofs/VersionOrder.vo Proofs/RangesSound.vo
Props/C11.vio: Props/C11.v Props/Shipped.vio Spec/Version.vio WF/Ranges.vio Proofs/VersionOrder.vio Proofs/RangesSound.vio
Props/C11.vos Props/C11.vok Props/C11.required_vos: Props/C11.v Props/Shipped.vos Spec/Version.vos WF/Ranges.vos Proofs/VersionOrder.vos Proofs/RangesSound.vos
Model/ApiHist.vo Model/ApiHist.glob Model/ApiHist.v.beautified Model/ApiHist.required_vo: Model/ApiHist.v Model/Api.vo
Model/ApiHist.vio: Model/ApiHist.v Model/Api.vio
Model/ApiHist.vos Model/ApiHist.vok Model/ApiHist.required_vos: Model/ApiHist.v Model/Api.vos
Model/Ticks.vo Model/Ticks.glob Model/Ticks.v.beautified Model/Ticks.required_vo: Model/Ticks.v Model/Api.vo
Model/Ticks.vio: Model/Ticks.v Model/Api.vio
Model/Ticks.vos Model/Ticks.vok Model/Ticks.required_vos: Model/Ticks.v Model/Api.vos
Proofs/Purity.vo Proofs/Purity.glob Proofs/Purity.v.beautified Proofs/Purity.required_vo: Proofs/Purity.v Model/ApiHist.vo
Proofs/Purity.vio: Proofs/Purity.v Model/ApiHist.vio
Proofs/Purity.vos Proofs/Purity.vok Proofs/Purity.required_vos: Proofs/Purity.v Model/ApiHist.vos
Proofs/Cost.vo Proofs/Cost.glob Proofs/Cost.v.beautified Proofs/Cost.required_vo: Proofs/Cost.v Model/Ticks.vo Spec/Lex.vo Spec/Grammar.vo Spec/Eval.vo Proofs/BytesFacts.vo Proofs/ScanRef.vo Proofs/ParseGrammar.vo Proofs/Offsets.vo
Proofs/Cost.vio: Proofs/Cost.v Model/Ticks.vio Spec/Lex.vio Spec/Grammar.vio Spec/Eval.vio Proofs/BytesFacts.vio Proofs/ScanRef.vio Proofs/ParseGrammar.vio Proofs/Offsets.vio
Proofs/Cost.vos Proofs/Cost.vok Proofs/Cost.required_vos: Proofs/Cost.v Model/Ticks.vos Spec/Lex.vos Spec/Grammar.vos Spec/Eval.vos Proofs/BytesFacts.vos Proofs/ScanRef.vos Proofs/ParseGrammar.vos Proofs/Offsets.vos
Props/C13.vo Props/C13.glob Props/C13.v.beautified Props/C13.required_vo: Props/C13.v Props/Shipped.vo Model/ApiHist.vo Proofs/Purity.vo
Props/C13.vio: Props/C13.v Props/Shipped.vio Model/ApiHist.vio Proofs/Purity.vio
Props/C13.vos Props/C13.vok Props/C13.required_vos: Props/C13.v Props/Shipped.vos Model/ApiHist.vos Proofs/Purity.vos
Props/C14.vo Props/C14.glob Props/C14.v.beautified Props/C14.required_vo: Props/C14.v Props/Shipped.vo Model/Ticks.vo Spec/Lex.vo Proofs/ScanRef.vo Proofs/Cost.vo Proofs/ParseGrammar.vo Proofs/ParseCost.vo Model/ParseStack.vo Model/ParseStackTicks.vo Proofs/ParseStackCost.vo Model/ScanTicks.vo Proofs/ScanCost.vo
Props/C14.vio: Props/C14.v Props/Shipped.vio Model/Ticks.vio Spec/Lex.vio Proofs/ScanRef.vio Proofs/Cost.vio Proofs/ParseGrammar.vio Proofs/ParseCost.vio Model/ParseStack.vio Model/ParseStackTicks.vio Proofs/ParseStackCost.vio Model/ScanTicks.vio Proofs/ScanCost.vio
Props/C14.vos Props/C14.vok Props/C14.required_vos: Props/C14.v Props/Shipped.vos Model/Ticks.vos Spec/Lex.vos Proofs/ScanRef.vos Proofs/Cost.vos Proofs/ParseGrammar.vos Proofs/ParseCost.vos Model/ParseStack.vos Model/ParseStackTicks.vos Proofs/ParseStackCost.vos Model/ScanTicks.vos Proofs/ScanCost.vos
Spec/Spellings.vo Spec/Spellings.glob Spec/Spellings.v.beautified Spec/Spellings.required_vo: Spec/Spellings.v Model/Api.vo Spec/WF.vo
Spec/Spellings.vio: Spec/Spellings.v Model/Api.vio Spec/WF.vio
Spec/Spellings.vos Spec/Spellings.vok Spec/Spellings.required_vos: Spec/Spellings.v Model/Api.vos Spec/WF.vos
WF/Spellings.vo WF/Spellings.glob WF/Spellings.v.beautified WF/Spellings.required_vo: WF/Spellings.v Spec/Spellings.vo Gen/Tables.vo
WF/Spellings.vio: WF/Spellings.v Spec/Spellings.vio Gen/Tables.vio
WF/Spellings.vos WF/Spellings.vok WF/Spellings.required_vos: WF/Spellings.v Spec/Spellings.vos Gen/Tables.vos
Proofs/Congruence.vo Proofs/Congruence.glob Proofs/Congruence.v.beautified Proofs/Congruence.required_vo: Proofs/Congruence.v Model/Api.vo Spec/Eval.vo Spec/Spellings.vo Proofs/BytesFacts.vo Proofs/Sat.vo Proofs/MatchProof.vo
Proofs/Congruence.vio: Proofs/Congruence.v Model/Api.vio Spec/Eval.vio Spec/Spellings.vio Proofs/BytesFacts.vio Proofs/Sat.vio Proofs/MatchProof.vio
Proofs/Congruence.vos Proofs/Congruence.vok Proofs/Congruence.required_vos: Proofs/Congruence.v Model/Api.vos Spec/Eval.vos Spec/Spellings.vos Proofs/BytesFacts.vos Proofs/Sat.vos Proofs/MatchProof.vos
Props/C08.vo Props/C08.glob Props/C08.v.beautified Props/C08.required_vo: Props/C08.v Props/Shipped.vo Spec/Spellings.vo Spec/Units.vo WF/Spellings.vo WF/Units.vo Proofs/Congruence.vo Proofs/BytesFacts.vo Proofs/MatchProof.vo Proofs/Split.vo Proofs/SameParse.vo Proofs/Laws.vo Proofs/ApiFacts.vo Proofs/OnlyPairs.vo Proofs/ParseRel.vo
Props/C08.vio: Props/C08.v Props/Shipped.vio Spec/Spellings.vio Spec/Units.vio WF/Spellings.vio WF/Units.vio Proofs/Congruence.vio Proofs/BytesFacts.vio Proofs/MatchProof.vio Proofs/Split.vio Proofs/SameParse.vio Proofs/Laws.vio Proofs/ApiFacts.vio Proofs/OnlyPairs.vio Proofs/ParseRel.vio
Props/C08.vos Props/C08.vok Props/C08.required_vos: Props/C08.v Props/Shipped.vos Spec/Spellings.vos Spec/Units.vos WF/Spellings.vos WF/Units.vos Proofs/Congruence.vos Proofs/BytesFacts.vos Proofs/MatchProof.vos Proofs/Split.vos Proofs/SameParse.vos Proofs/Laws.vos Proofs/ApiFacts.vos Proofs/OnlyPairs.vos Proofs/ParseRel.vos
Props/C09.vo Props/C09.glob Props/C09.v.beautified Props/C09.required_vo: Props/C09.v Props/Shipped.vo Spec/Spellings.vo Spec/Units.vo WF/Spellings.vo WF/Units.vo Proofs/Congruence.vo Proofs/NodeInv.vo Proofs/Split.vo Proofs/SameParse.vo Proofs/CaseFold.vo Proofs/Laws.vo Proofs/ApiFacts.vo
Props/C09.vio: Props/C09.v Props/Shipped.vio Spec/Spellings.vio Spec/Units.vio WF/Spellings.vio WF/Units.vio Proofs/Congruence.vio Proofs/NodeInv.vio Proofs/Split.vio Proofs/SameParse.vio Proofs/CaseFold.vio Proofs/Laws.vio Proofs/ApiFacts.vio
Props/C09.vos Props/C09.vok Props/C09.required_vos: Props/C09.v Props/Shipped.vos Spec/Spellings.vos Spec/Units.vos WF/Spellings.vos WF/Units.vos Proofs/Congruence.vos Proofs/NodeInv.vos Proofs/Split.vos Proofs/SameParse.vos Proofs/CaseFold.vos Proofs/Laws.vos Proofs/ApiFacts.vos
Proofs/Split.vo Proofs/Split.glob Proofs/Split.v.beautified Proofs/Split.required_vo: Proofs/Split.v Model/Scan.vo Model/Parse.vo Spec/Lex.vo Proofs/BytesFacts.vo Proofs/ScanRef.vo Proofs/Offsets.vo
Proofs/Split.vio: Proofs/Split.v Model/Scan.vio Model/Parse.vio Spec/Lex.vio Proofs/BytesFacts.vio Proofs/ScanRef.vio Proofs/Offsets.vio
Proofs/Split.vos Proofs/Split.vok Proofs/Split.required_vos: Proofs/Split.v Model/Scan.vos Model/Parse.vos Spec/Lex.vos Proofs/BytesFacts.vos Proofs/ScanRef.vos Proofs/Offsets.vos
Proofs/Lexo.vo Proofs/Lexo.glob Proofs/Lexo.v.beautified Proofs/Lexo.required_vo: Proofs/Lexo.v Model/Scan.vo Model/Parse.vo Spec/Lex.vo Proofs/BytesFacts.vo Proofs/ScanRef.vo Proofs/Offsets.vo Proofs/Split.vo Proofs/ParseGrammar.vo
Proofs/Lexo.vio: Proofs/Lexo.v Model/Scan.vio Model/Parse.vio Spec/Lex.vio Proofs/BytesFacts.vio Proofs/ScanRef.vio Proofs/Offsets.vio Proofs/Split.vio Proofs/ParseGrammar.vio
Proofs/Lexo.vos Proofs/Lexo.vok Proofs/Lexo.required_vos: Proofs/Lexo.v Model/Scan.vos Model/Parse.vos Spec/Lex.vos Proofs/BytesFacts.vos Proofs/ScanRef.vos Proofs/Offsets.vos Proofs/Split.vos Proofs/ParseGrammar.vos
Proofs/Respell.vo Proofs/Respell.glob Proofs/Respell.v.beautified Proofs/Respell.required_vo: Proofs/Respell.v Model/Scan.vo Model/Parse.vo Spec/Lex.vo Spec/Grammar.vo Proofs/BytesFacts.vo Proofs/ScanRef.vo Proofs/Split.vo Proofs/Lexo.vo Proofs/ParseGrammar.vo
Proofs/Respell.vio: Proofs/Respell.v Model/Scan.vio Model/Parse.vio Spec/Lex.vio Spec/Grammar.vio Proofs/BytesFacts.vio Proofs/ScanRef.vio Proofs/Split.vio Proofs/Lexo.vio Proofs/ParseGrammar.vio
Proofs/Respell.vos Proofs/Respell.vok Proofs/Respell.required_vos: Proofs/Respell.v Model/Scan.vos Model/Parse.vos Spec/Lex.vos Spec/Grammar.vos Proofs/BytesFacts.vos Proofs/ScanRef.vos Proofs/Split.vos Proofs/Lexo.vos Proofs/ParseGrammar.vos
Proofs/Replace.vo Proofs/Replace.glob Proofs/Replace.v.beautified Proofs/Replace.required_vo: Proofs/Replace.v Model/Scan.vo Model/Parse.vo Spec/Lex.vo Proofs/BytesFacts.vo Proofs/ScanRef.vo Proofs/Split.vo Proofs/Lexo.vo Proofs/Respell.vo
Proofs/Replace.vio: Proofs/Replace.v Model/Scan.vio Model/Parse.vio Spec/Lex.vio Proofs/BytesFacts.vio Proofs/ScanRef.vio Proofs/Split.vio Proofs/Lexo.vio Proofs/Respell.vio
Proofs/Replace.vos Proofs/Replace.vok Proofs/Replace.required_vos: Proofs/Replace.v Model/Scan.vos Model/Parse.vos Spec/Lex.vos Proofs/BytesFacts.vos Proofs/ScanRef.vos Proofs/Split.vos Proofs/Lexo.vos Proofs/Respell.vos
Spec/Units.vo Spec/Units.glob Spec/Units.v.beautified Spec/Units.required_vo: Spec/Units.v Model/Api.vo Spec/Lex.vo Spec/WF.vo Spec/Spellings.vo
Spec/Units.vio: Spec/Units.v Model/Api.vio Spec/Lex.vio Spec/WF.vio Spec/Spellings.vio
Spec/Units.vos Spec/Units.vok Spec/Units.required_vos: Spec/Units.v Model/Api.vos Spec/Lex.vos Spec/WF.vos Spec/Spellings.vos
Spec/Reject.vo Spec/Reject.glob Spec/Reject.v.beautified Spec/Reject.required_vo: Spec/Reject.v Spec/Grammar.vo
Spec/Reject.vio: Spec/Reject.v Spec/Grammar.vio
Spec/Reject.vos Spec/Reject.vok Spec/Reject.required_vos: Spec/Reject.v Spec/Grammar.vos
WF/Units.vo WF/Units.glob WF/Units.v.beautified WF/Units.required_vo: WF/Units.v Spec/Units.vo Gen/Tables.vo
WF/Units.vio: WF/Units.v Spec/Units.vio Gen/Tables.vio
WF/Units.vos WF/Units.vok WF/Units.required_vos: WF/Units.v Spec/Units.vos Gen/Tables.vos
Proofs/SameParse.vo Proofs/SameParse.glob Proofs/SameParse.v.beautified Proofs/SameParse.required_vo: Proofs/SameParse.v Model/Api.vo Spec/Eval.vo Spec/WF.vo Spec/Units.vo Proofs/BytesFacts.vo Proofs/NodeInv.vo Proofs/Sat.vo Proofs/ApiFacts.vo Proofs/Laws.vo Proofs/Lexo.vo Proofs/Split.vo Proofs/Replace.vo Proofs/Respell.vo
Proofs/SameParse.vio: Proofs/SameParse.v Model/Api.vio Spec/Eval.vio Spec/WF.vio Spec/Units.vio Proofs/BytesFacts.vio Proofs/NodeInv.vio Proofs/Sat.vio Proofs/ApiFacts.vio Proofs/Laws.vio Proofs/Lexo.vio Proofs/Split.vio Proofs/Replace.vio Proofs/Respell.vio
Proofs/SameParse.vos Proofs/SameParse.vok Proofs/SameParse.required_vos: Proofs/SameParse.v Model/Api.vos Spec/Eval.vos Spec/WF.vos Spec/Units.vos Proofs/BytesFacts.vos Proofs/NodeInv.vos Proofs/Sat.vos Proofs/ApiFacts.vos Proofs/Laws.vos Proofs/Lexo.vos Proofs/Split.vos Proofs/Replace.vos Proofs/Respell.vos
Proofs/CaseFold.vo Proofs/CaseFold.glob Proofs/CaseFold.v.beautified Proofs/CaseFold.required_vo: Proofs/CaseFold.v Model/Api.vo Spec/Lex.vo Spec/WF.vo Spec/Units.vo Spec/Spellings.vo Proofs/BytesFacts.vo Proofs/ScanRef.vo Proofs/Split.vo Proofs/Lexo.vo Proofs/Respell.vo Proofs/Replace.vo Proofs/Congruence.vo Proofs/NodeInv.vo Proofs/WFSound.vo Proofs/SameParse.vo
Proofs/CaseFold.vio: Proofs/CaseFold.v Model/Api.vio Spec/Lex.vio Spec/WF.vio Spec/Units.vio Spec/Spellings.vio Proofs/BytesFacts.vio Proofs/ScanRef.vio Proofs/Split.vio Proofs/Lexo.vio Proofs/Respell.vio Proofs/Replace.vio Proofs/Congruence.vio Proofs/NodeInv.vio Proofs/WFSound.vio Proofs/SameParse.vio
Proofs/CaseFold.vos Proofs/CaseFold.vok Proofs/CaseFold.required_vos: Proofs/CaseFold.v Model/Api.vos Spec/Lex.vos Spec/WF.vos Spec/Units.vos Spec/Spellings.vos Proofs/BytesFacts.vos Proofs/ScanRef.vos Proofs/Split.vos Proofs/Lexo.vos Proofs/Respell.vos Proofs/Replace.vos Proofs/Congruence.vos Proofs/NodeInv.vos Proofs/WFSound.vos Proofs/SameParse.vos
Proofs/ParseRel.vo Proofs/ParseRel.glob Proofs/ParseRel.v.beautified Proofs/ParseRel.required_vo: Proofs/ParseRel.v Model/Parse.vo Model/Api.vo Spec/Eval.vo Proofs/BytesFacts.vo Proofs/ParseGrammar.vo Proofs/Sat.vo
Proofs/ParseRel.vio: Proofs/ParseRel.v Model/Parse.vio Model/Api.vio Spec/Eval.vio Proofs/BytesFacts.vio Proofs/ParseGrammar.vio Proofs/Sat.vio
Proofs/ParseRel.vos Proofs/ParseRel.vok Proofs/ParseRel.required_vos: Proofs/ParseRel.v Model/Parse.vos Model/Api.vos Spec/Eval.vos Proofs/BytesFacts.vos Proofs/ParseGrammar.vos Proofs/Sat.vos
Proofs/OnlyPairs.vo Proofs/OnlyPairs.glob Proofs/OnlyPairs.v.beautified Proofs/OnlyPairs.required_vo: Proofs/OnlyPairs.v Model/Api.vo Spec/Lex.vo Spec/Eval.vo Spec/WF.vo Spec/MatchSpec.vo Spec/Units.vo Spec/Spellings.vo Proofs/BytesFacts.vo Proofs/ScanRef.vo Proofs/NodeInv.vo Proofs/Sat.vo Proofs/ApiFacts.vo Proofs/Laws.vo Proofs/MatchProof.vo Proofs/Split.vo Proofs/Lexo.vo Proofs/Respell.vo Proofs/Replace.vo Proofs/SameParse.vo Proofs/ParseRel.vo Proofs/ParseGrammar.vo Proofs/CaseFold.vo Proofs/WFSound.vo
Proofs/OnlyPairs.vio: Proofs/OnlyPairs.v Model/Api.vio Spec/Lex.vio Spec/Eval.vio Spec/WF.vio Spec/MatchSpec.vio Spec/Units.vio Spec/Spellings.vio Proofs/BytesFacts.vio Proofs/ScanRef.vio Proofs/NodeInv.vio Proofs/Sat.vio Proofs/ApiFacts.vio Proofs/Laws.vio Proofs/MatchProof.vio Proofs/Split.vio Proofs/Lexo.vio Proofs/Respell.vio Proofs/Replace.vio Proofs/SameParse.vio Proofs/ParseRel.vio Proofs/ParseGrammar.vio Proofs/CaseFold.vio Proofs/WFSound.vio
Proofs/OnlyPairs.vos Proofs/OnlyPairs.vok Proofs/OnlyPairs.required_vos: Proofs/OnlyPairs.v Model/Api.vos Spec/Lex.vos Spec/Eval.vos Spec/WF.vos Spec/MatchSpec.vos Spec/Units.vos Spec/Spellings.vos Proofs/BytesFacts.vos Proofs/ScanRef.vos Proofs/NodeInv.vos Proofs/Sat.vos Proofs/ApiFacts.vos Proofs/Laws.vos Proofs/MatchProof.vos Proofs/Split.vos Proofs/Lexo.vos Proofs/Respell.vos Proofs/Replace.vos Proofs/SameParse.vos Proofs/ParseRel.vos Proofs/ParseGrammar.vos Proofs/CaseFold.vos Proofs/WFSound.vos
Proofs/RoundTrip.vo Proofs/RoundTrip.glob Proofs/RoundTrip.v.beautified Proofs/RoundTrip.required_vo: Proofs/RoundTrip.v Model/Api.vo Spec/Lex.vo Spec/Grammar.vo Spec/Eval.vo Spec/WF.vo Spec/Units.vo Spec/Spellings.vo Proofs/BytesFacts.vo Proofs/ScanRef.vo Proofs/NodeInv.vo Proofs/Sat.vo Proofs/ApiFacts.vo Proofs/Laws.vo Proofs/MatchProof.vo Proofs/WFSound.vo Proofs/Split.vo Proofs/Lexo.vo Proofs/Respell.vo Proofs/Replace.vo Proofs/SameParse.vo Proofs/ParseGrammar.vo Proofs/CaseFold.vo Proofs/Congruence.vo
Proofs/RoundTrip.vio: Proofs/RoundTrip.v Model/Api.vio Spec/Lex.vio Spec/Grammar.vio Spec/Eval.vio Spec/WF.vio Spec/Units.vio Spec/Spellings.vio Proofs/BytesFacts.vio Proofs/ScanRef.vio Proofs/NodeInv.vio Proofs/Sat.vio Proofs/ApiFacts.vio Proofs/Laws.vio Proofs/MatchProof.vio Proofs/WFSound.vio Proofs/Split.vio Proofs/Lexo.vio Proofs/Respell.vio Proofs/Replace.vio Proofs/SameParse.vio Proofs/ParseGrammar.vio Proofs/CaseFold.vio Proofs/Congruence.vio
Proofs/RoundTrip.vos Proofs/RoundTrip.vok Proofs/RoundTrip.required_vos: Proofs/RoundTrip.v Model/Api.vos Spec/Lex.vos Spec/Grammar.vos Spec/Eval.vos Spec/WF.vos Spec/Units.vos Spec/Spellings.vos Proofs/BytesFacts.vos Proofs/ScanRef.vos Proofs/NodeInv.vos Proofs/Sat.vos Proofs/ApiFacts.vos Proofs/Laws.vos Proofs/MatchProof.vos Proofs/WFSound.vos Proofs/Split.vos Proofs/Lexo.vos Proofs/Respell.vos Proofs/Replace.vos Proofs/SameParse.vos Proofs/ParseGrammar.vos Proofs/CaseFold.vos Proofs/Congruence.vos
Proofs/ParseCost.vo Proofs/ParseCost.glob Proofs/ParseCost.v.beautified Proofs/ParseCost.required_vo: Proofs/ParseCost.v Model/Ticks.vo Spec/Grammar.vo Proofs/ParseGrammar.vo
Proofs/ParseCost.vio: Proofs/ParseCost.v Model/Ticks.vio Spec/Grammar.vio Proofs/ParseGrammar.vio
Proofs/ParseCost.vos Proofs/ParseCost.vok Proofs/ParseCost.required_vos: Proofs/ParseCost.v Model/Ticks.vos Spec/Grammar.vos Proofs/ParseGrammar.vos
Model/Expand.vo Model/Expand.glob Model/Expand.v.beautified Model/Expand.required_vo: Model/Expand.v Model/Api.vo
Model/Expand.vio: Model/Expand.v Model/Api.vio
Model/Expand.vos Model/Expand.vok Model/Expand.required_vos: Model/Expand.v Model/Api.vos
Model/CaseLib.vo Model/CaseLib.glob Model/CaseLib.v.beautified Model/CaseLib.required_vo: Model/CaseLib.v Model/Api.vo Model/ParseStack.vo
Model/CaseLib.vio: Model/CaseLib.v Model/Api.vio Model/ParseStack.vio
Model/CaseLib.vos Model/CaseLib.vok Model/CaseLib.required_vos: Model/CaseLib.v Model/Api.vos Model/ParseStack.vos
Proofs/ExpandProof.vo Proofs/ExpandProof.glob Proofs/ExpandProof.v.beautified Proofs/ExpandProof.required_vo: Proofs/ExpandProof.v Model/Expand.vo Spec/Eval.vo Proofs/Laws.vo
Proofs/ExpandProof.vio: Proofs/ExpandProof.v Model/Expand.vio Spec/Eval.vio Proofs/Laws.vio
Proofs/ExpandProof.vos Proofs/ExpandProof.vok Proofs/ExpandProof.required_vos: Proofs/ExpandProof.v Model/Expand.vos Spec/Eval.vos Proofs/Laws.vos
Proofs/RejectProof.vo Proofs/RejectProof.glob Proofs/RejectProof.v.beautified Proofs/RejectProof.required_vo: Proofs/RejectProof.v Spec/Reject.vo Proofs/BytesFacts.vo Proofs/ParseGrammar.vo
Proofs/RejectProof.vio: Proofs/RejectProof.v Spec/Reject.vio Proofs/BytesFacts.vio Proofs/ParseGrammar.vio
Proofs/RejectProof.vos Proofs/RejectProof.vok Proofs/RejectProof.required_vos: Proofs/RejectProof.v Spec/Reject.vos Proofs/BytesFacts.vos Proofs/ParseGrammar.vos
Model/ParseStack.vo Model/ParseStack.glob Model/ParseStack.v.beautified Model/ParseStack.required_vo: Model/ParseStack.v Model/Parse.vo
Model/ParseStack.vio: Model/ParseStack.v Model/Parse.vio
Model/ParseStack.vos Model/ParseStack.vok Model/ParseStack.required_vos: Model/ParseStack.v Model/Parse.vos
Proofs/ParseStack.vo Proofs/ParseStack.glob Proofs/ParseStack.v.beautified Proofs/ParseStack.required_vo: Proofs/ParseStack.v Model/Parse.vo Model/ParseStack.vo Spec/Grammar.vo Spec/Reject.vo Proofs/ParseGrammar.vo Proofs/RejectProof.vo
Proofs/ParseStack.vio: Proofs/ParseStack.v Model/Parse.vio Model/ParseStack.vio Spec/Grammar.vio Spec/Reject.vio Proofs/ParseGrammar.vio Proofs/RejectProof.vio
Proofs/ParseStack.vos Proofs/ParseStack.vok Proofs/ParseStack.required_vos: Proofs/ParseStack.v Model/Parse.vos Model/ParseStack.vos Spec/Grammar.vos Spec/Reject.vos Proofs/ParseGrammar.vos Proofs/RejectProof.vos
Model/ParseStackTicks.vo Model/ParseStackTicks.glob Model/ParseStackTicks.v.beautified Model/ParseStackTicks.required_vo: Model/ParseStackTicks.v Model/ParseStack.vo
Model/ParseStackTicks.vio: Model/ParseStackTicks.v Model/ParseStack.vio
Model/ParseStackTicks.vos Model/ParseStackTicks.vok Model/ParseStackTicks.required_vos: Model/ParseStackTicks.v Model/ParseStack.vos
Proofs/ParseStackCost.vo Proofs/ParseStackCost.glob Proofs/ParseStackCost.v.beautified Proofs/ParseStackCost.required_vo: Proofs/ParseStackCost.v Model/Parse.vo Model/ParseStack.vo Model/ParseStackTicks.vo Proofs/ParseGrammar.vo Proofs/ParseStack.vo
Proofs/ParseStackCost.vio: Proofs/ParseStackCost.v Model/Parse.vio Model/ParseStack.vio Model/ParseStackTicks.vio Proofs/ParseGrammar.vio Proofs/ParseStack.vio
Proofs/ParseStackCost.vos Proofs/ParseStackCost.vok Proofs/ParseStackCost.required_vos: Proofs/ParseStackCost.v Model/Parse.vos Model/ParseStack.vos Model/ParseStackTicks.vos Proofs/ParseGrammar.vos Proofs/ParseStack.vos
Model/ScanTicks.vo Model/ScanTicks.glob Model/ScanTicks.v.beautified Model/ScanTicks.required_vo: Model/ScanTicks.v Model/Scan.vo
Model/ScanTicks.vio: Model/ScanTicks.v Model/Scan.vio
Model/ScanTicks.vos Model/ScanTicks.vok Model/ScanTicks.required_vos: Model/ScanTicks.v Model/Scan.vos
Proofs/ScanCost.vo Proofs/ScanCost.glob Proofs/ScanCost.v.beautified Proofs/ScanCost.required_vo: Proofs/ScanCost.v Model/Scan.vo Model/ScanTicks.vo Proofs/BytesFacts.vo
Proofs/ScanCost.vio: Proofs/ScanCost.v Model/Scan.vio Model/ScanTicks.vio Proofs/BytesFacts.vio
Proofs/ScanCost.vos Proofs/ScanCost.vok Proofs/ScanCost.required_vos: Proofs/ScanCost.v Model/Scan.vos Model/ScanTicks.vos Proofs/BytesFacts.vos
Proofs/Subst.vo Proofs/Subst.glob Proofs/Subst.v.beautified Proofs/Subst.required_vo: Proofs/Subst.v Model/Parse.vo Spec/Grammar.vo Spec/Eval.vo Proofs/BytesFacts.vo Proofs/ParseGrammar.vo
Proofs/Subst.vio: Proofs/Subst.v Model/Parse.vio Spec/Grammar.vio Spec/Eval.vio Proofs/BytesFacts.vio Proofs/ParseGrammar.vio
Proofs/Subst.vos Proofs/Subst.vok Proofs/Subst.required_vos: Proofs/Subst.v Model/Parse.vos Spec/Grammar.vos Spec/Eval.vos Proofs/BytesFacts.vos Proofs/ParseGrammar.vos
Proofs/SubstText.vo Proofs/SubstText.glob Proofs/SubstText.v.beautified Proofs/SubstText.required_vo: Proofs/SubstText.v Model/Scan.vo Model/Parse.vo Spec/Lex.vo Spec/Grammar.vo Proofs/BytesFacts.vo Proofs/ScanRef.vo Proofs/Split.vo Proofs/Lexo.vo Proofs/ParseGrammar.vo Proofs/Respell.vo Proofs/Subst.vo
Proofs/SubstText.vio: Proofs/SubstText.v Model/Scan.vio Model/Parse.vio Spec/Lex.vio Spec/Grammar.vio Proofs/BytesFacts.vio Proofs/ScanRef.vio Proofs/Split.vio Proofs/Lexo.vio Proofs/ParseGrammar.vio Proofs/Respell.vio Proofs/Subst.vio
Proofs/SubstText.vos Proofs/SubstText.vok Proofs/SubstText.required_vos: Proofs/SubstText.v Model/Scan.vos Model/Parse.vos Spec/Lex.vos Spec/Grammar.vos Proofs/BytesFacts.vos Proofs/ScanRef.vos Proofs/Split.vos Proofs/Lexo.vos Proofs/ParseGrammar.vos Proofs/Respell.vos Proofs/Subst.vos
Proofs/Unknown.vo Proofs/Unknown.glob Proofs/Unknown.v.beautified Proofs/Unknown.required_vo: Proofs/Unknown.v Model/Scan.vo Model/Parse.vo Spec/Lex.vo Proofs/BytesFacts.vo Proofs/ScanRef.vo Proofs/Offsets.vo Proofs/Split.vo
Proofs/Unknown.vio: Proofs/Unknown.v Model/Scan.vio Model/Parse.vio Spec/Lex.vio Proofs/BytesFacts.vio Proofs/ScanRef.vio Proofs/Offsets.vio Proofs/Split.vio
Proofs/Unknown.vos Proofs/Unknown.vok Proofs/Unknown.required_vos: Proofs/Unknown.v Model/Scan.vos Model/Parse.vos Spec/Lex.vos Proofs/BytesFacts.vos Proofs/ScanRef.vos Proofs/Offsets.vos Proofs/Split.vos
Proofs/FoldUnique.vo Proofs/FoldUnique.glob Proofs/FoldUnique.v.beautified Proofs/FoldUnique.required_vo: Proofs/FoldUnique.v Spec/WF.vo Proofs/BytesFacts.vo
Proofs/FoldUnique.vio: Proofs/FoldUnique.v Spec/WF.vio Proofs/BytesFacts.vio
Proofs/FoldUnique.vos Proofs/FoldUnique.vok Proofs/FoldUnique.required_vos: Proofs/FoldUnique.v Spec/WF.vos Proofs/BytesFacts.vos
Proofs/IdWords.vo Proofs/IdWords.glob Proofs/IdWords.v.beautified Proofs/IdWords.required_vo: Proofs/IdWords.v Model/Tokens.vo Proofs/BytesFacts.vo Proofs/NodeInv.vo
Proofs/IdWords.vio: Proofs/IdWords.v Model/Tokens.vio Proofs/BytesFacts.vio Proofs/NodeInv.vio
Proofs/IdWords.vos Proofs/IdWords.vok Proofs/IdWords.required_vos: Proofs/IdWords.v Model/Tokens.vos Proofs/BytesFacts.vos Proofs/NodeInv.vos
Proofs/SpacesAnywhere.vo Proofs/SpacesAnywhere.glob Proofs/SpacesAnywhere.v.beautified Proofs/SpacesAnywhere.required_vo: Proofs/SpacesAnywhere.v Model/Scan.vo Model/Parse.vo Spec/Lex.vo Proofs/BytesFacts.vo Proofs/ScanRef.vo Proofs/Offsets.vo Proofs/Split.vo Proofs/Lexo.vo
Proofs/SpacesAnywhere.vio: Proofs/SpacesAnywhere.v Model/Scan.vio Model/Parse.vio Spec/Lex.vio Proofs/BytesFacts.vio Proofs/ScanRef.vio Proofs/Offsets.vio Proofs/Split.vio Proofs/Lexo.vio
Proofs/SpacesAnywhere.vos Proofs/SpacesAnywhere.vok Proofs/SpacesAnywhere.required_vos: Proofs/SpacesAnywhere.v Model/Scan.vos Model/Parse.vos Spec/Lex.vos Proofs/BytesFacts.vos Proofs/ScanRef.vos Proofs/Offsets.vos Proofs/Split.vos Proofs/Lexo.vos
